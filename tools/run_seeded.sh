#!/bin/bash
# tools/run_seeded.sh [name..] : run each seeded/<name>/patch.diff (property from meta.json) through its property's quick check on a scratch copy
cd "$(dirname "$0")/.."
names="$@"; [ -z "$names" ] && names=$(ls seeded)
for n in $names; do
  prop=$(python3 -c "import json;print(json.load(open('seeded/$n/meta.json'))['property'])")
  if [ ! -f rules/$(echo $prop | tr A-Z a-z).py ]; then echo "NOCHECK  $n ($prop)"; continue; fi
  out=$(MUT_TAIL=4 tools/mutant.sh "$prop" "seeded/$n/patch.diff" 2>&1); rc=$?
  kind=$(python3 -c "import json;print(json.load(open('seeded/$n/meta.json')).get('kind','breaking'))")
  if [ "$kind" = "benign" ]; then
    if [ $rc -eq 0 ]; then echo "SILENT   $n (benign refactoring)"; elif [ $rc -eq 3 ]; then echo "PATCHFAIL $n"; else echo "FALSE-ALARM $n :: $(echo "$out" | grep -m1 '^  \[' | cut -c1-260)"; fi
    continue
  fi
  if [ $rc -eq 1 ]; then echo "CAUGHT   $n :: $(echo "$out" | grep -m1 '^  \[' | cut -c1-260)"; elif [ $rc -eq 3 ]; then echo "PATCHFAIL $n"; else echo "MISSED   $n (rc=$rc)"; fi
done
