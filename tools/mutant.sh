#!/bin/bash
# tools/mutant.sh <PROP[,PROP..]> <patch.diff> : apply the patch to a scratch copy of /repo (never to /repo itself),
# run the property's quick check against the copy, print its tail, remove the copy. Exit status = the check's.
set -u
props="$1"; patch="$(readlink -f "$2")"
here="$(cd "$(dirname "$0")/.." && pwd)"
tmp="$(mktemp -d /tmp/mahf-mut.XXXXXX)"
trap 'rm -rf "$tmp"' EXIT
rsync -a --exclude target --exclude .git /repo/ "$tmp/"
if ! (cd "$tmp" && patch -p1 -s --no-backup-if-mismatch < "$patch"); then echo "PATCH-FAILED $patch"; exit 3; fi
rc=0
for p in ${props//,/ }; do
  MAHF_REPO="$tmp" MAHF_SA_EVIDENCE="$tmp/.evidence" "$here/check" "$p" --tier quick | grep -v "^KNOWN-FINDING" | tail -${MUT_TAIL:-6}
  r=${PIPESTATUS[0]}; [ "$r" -ne 0 ] && rc=$r
done
exit $rc
