#!/usr/bin/env python3
"""tools/support_coverage.py: crate functions reachable (call graph, depth <= 3, closures included) from each property's anchored
functions that NO property's check enters with the interpreter or names as a rule item: supporting code nobody looks into."""
import json, os, re, sys
sys.path.insert(0, os.path.join(os.path.dirname(__file__), "..", "rules"))
import engine
tree, files = engine.extract(all_targets=False)
F = engine.load_facts([files[0]])
root = os.path.join(os.path.dirname(__file__), "..")
props = [json.loads(l) for l in open(os.path.join(root, "properties.jsonl"))]
seen_any = set()
per = {}
for p in props:
    ev = json.load(open(os.path.join(root, "evidence", p["id"] + ".json")))
    t = set(ev["coverage"].get("evaluated_bodies", [])) | set(ev["coverage"].get("rule_items", []))
    per[p["id"]] = t
    seen_any |= t
byfile = {}
for fn in F.all_fns:
    if fn.from_expansion:
        continue
    byfile.setdefault(fn.span["file"], []).append(fn)
for fns in byfile.values():
    fns.sort(key=lambda x: x.span["line"])
def anchored(p):
    out = set()
    for sect in ("state", "mechanism"):
        for a in p["anchors"].get(sect, []):
            for part in re.split(r";\s*", a.get("where", "")):
                m = re.match(r"\s*(src/[\w/\.\*]+):?([\d,\-\s]*)", part)
                if not m or m.group(1) not in byfile:
                    continue
                spans = [(int(a_), int(b_ or a_)) for a_, b_ in re.findall(r"(\d+)(?:-(\d+))?", m.group(2) or "")]
                fns = [f for f in byfile[m.group(1)] if "{closure" not in f.key]
                for i, fn in enumerate(fns):
                    l0 = fn.span["line"]
                    l1 = max(fn.span.get("end_line", l0), (fns[i + 1].span["line"] - 1) if i + 1 < len(fns) else l0 + 200)
                    if not spans or any(not (l1 < x or l0 > y) for x, y in spans):
                        out.add(fn.key)
    return out
def callees(key):
    out = set()
    for fn in F.fns.get(key, []):
        for b, t in fn.body.calls():
            k = t["f"].get("resolved", {}).get("key") or t["f"].get("key")
            if k and F.fn_opt(k) is not None:
                out.add(k)
    for fn in F.all_fns:          # closures of this function
        if fn.key.startswith(key + "::{closure"):
            out.add(fn.key)
    return out
gap = {}
for p in props:
    frontier = anchored(p)
    reach = set(frontier)
    for _ in range(3):
        nxt = set()
        for k in frontier:
            nxt |= callees(k)
        frontier = nxt - reach
        reach |= nxt
    for k in sorted(reach):
        if k not in seen_any and "{closure" not in k:
            gap.setdefault(k, []).append(p["id"])
for k, ps in sorted(gap.items()):
    fn = F.fn_opt(k)
    if fn is None or fn.from_expansion:
        continue
    print("%-110s %s  [%s]" % (k, fn.loc(), ",".join(ps)))
print(len(gap), "functions reachable from anchors are never examined")
