#!/usr/bin/env python3
"""tools/mkpatch.py <out.diff> <file-relative-to-repo> <<< 'OLD\n===\nNEW'  (may repeat: blocks separated by a line '#####' , each 'file\\n@@@\\nOLD\\n===\\nNEW')
Creates a unified diff against /repo without touching /repo."""
import difflib, sys, os
out = sys.argv[1]
spec = sys.stdin.read()
diffs = []
for block in spec.split("\n#####\n"):
    path, rest = block.split("\n@@@\n", 1)
    old, new = rest.split("\n===\n", 1)
    path = path.strip()
    src = open(os.path.join("/repo", path)).read()
    old = old.strip("\n"); new = new.strip("\n")
    if src.count(old) != 1:
        sys.exit("pattern occurs %d times in %s:\n%s" % (src.count(old), path, old))
    dst = src.replace(old, new)
    diffs.append("".join(difflib.unified_diff(src.splitlines(True), dst.splitlines(True), "a/" + path, "b/" + path)))
open(out, "w").write("".join(diffs))
print("wrote", out)
