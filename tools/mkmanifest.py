#!/usr/bin/env python3
"""Regenerate MANIFEST.json from the rule modules that exist (rules/cNN.py) and tools/manifest_na.json."""
import importlib, json, os, sys
V = os.path.dirname(os.path.dirname(os.path.abspath(__file__)))
sys.path.insert(0, os.path.join(V, "rules"))
props = [json.loads(l) for l in open(os.path.join(V, "properties.jsonl"))]
na = json.load(open(os.path.join(V, "tools", "manifest_na.json")))
claimed = []
checks = []
for p in props:
    pid = p["id"]
    if pid in na:
        continue
    if not os.path.exists(os.path.join(V, "rules", pid.lower() + ".py")):
        na[pid] = "check under construction in this session; not claimed until its rules run clean on the reference tree"
        continue
    mod = importlib.import_module(pid.lower())
    claimed.append(pid)
    checks.append({
        "property_id": pid,
        "quick_cmd": "./check %s --tier quick" % pid,
        "thorough_cmd": "./check %s --tier thorough" % pid,
        "evidence_file": "evidence/%s.json" % pid,
        "replay_cmd_template": "cat {path}",
        "engine": "mahf-sa",
        "level_claimed": {"category": "other", "text": mod.EXPLANATION + __import__("deps").explain(pid), "design_ref": "DESIGN.md §6 " + pid},
        "level_note": "Trusted base: rustc type checking and MIR construction (nightly, mir-opt-level=0), documented contracts of std and third-party crates; "
                      "panics/unwinding out of scope unless a rule says otherwise; crate-local calls inlined to depth 8. " + " ".join(getattr(mod, "ASSUMPTIONS", [])),
        "technique": getattr(mod, "TECHNIQUE", "static analysis over rustc MIR (custom rustc_private driver): finite-domain abstract interpretation of the anchored bodies, CFG path/dominance rules, who-may-call tables"),
    })
man = {
    "version": 1,
    "setup_cmd": "./setup.sh",
    "hooks": {"guard": "mahf_verif", "enable": "none: the static analysis reads the unmodified crate (no hook commits in /repo)",
              "baseline_off_cmd": "cd /repo && cargo test --workspace --no-fail-fast --offline", "source_commits": [], "add_only": True},
    "engines": [{"name": "mahf-sa", "path": "rules/engine.py", "serves_properties": claimed,
                 "kind_free_text": "static analysis: rustc_private fact extractor (MIR, mir-opt-level=0) + Python rule engine (abstract interpretation over finite domains, CFG rules)"}],
    "checks": checks,
    "not_applicable": [{"property_id": k, "reason": v} for k, v in sorted(na.items())],
    "notes": "All checks are static: nothing of mahf is executed. See DESIGN.md for the decided / not-decided split per property and known_findings.json for triaged defects.",
}
json.dump(man, open(os.path.join(V, "MANIFEST.json"), "w"), indent=1)
print("claimed:", claimed)
