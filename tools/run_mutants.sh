#!/bin/bash
# tools/run_mutants.sh <PROP> : run every mutants/<PROP>/*.diff; break-* must fire (exit 1), benign-* must stay silent (exit 0)
p="$1"; fail=0
for f in "$(dirname "$0")"/../mutants/$p/*.diff; do
  n=$(basename "$f")
  out=$(MUT_TAIL=3 "$(dirname "$0")"/mutant.sh "$p" "$f" 2>&1); rc=$?
  case "$n" in
    break-*) if [ $rc -eq 1 ]; then echo "KILLED   $n :: $(echo "$out" | grep -m1 '^  \[' | cut -c1-200)"; else echo "MISSED   $n (rc=$rc) $(echo "$out" | tail -2 | cut -c1-300)"; fail=1; fi;;
    benign-*) if [ $rc -eq 0 ]; then echo "SILENT   $n"; else echo "FALSE-ALARM $n :: $(echo "$out" | grep '^  \[' | cut -c1-300)"; fail=1; fi;;
  esac
done
exit $fail
