#!/usr/bin/env python3
"""tools/anchor_coverage.py: for every property, list the functions that lie in the anchored line ranges (anchors.state[].where,
anchors.mechanism[].where) and were neither entered by the abstract interpreter nor named as a rule item in the property's
last evidence file.  A development aid (not a check): it shows anchored code that no rule looks into."""
import json, os, re, sys, glob
sys.path.insert(0, os.path.join(os.path.dirname(__file__), "..", "rules"))
import engine
tree, files = engine.extract(all_targets=False)
F = engine.load_facts([files[0]])
props = [json.loads(l) for l in open(os.path.join(os.path.dirname(__file__), "..", "properties.jsonl"))]
only = sys.argv[1:]
for p in props:
    if only and p["id"] not in only:
        continue
    ev = json.load(open(os.path.join(os.path.dirname(__file__), "..", "evidence", p["id"] + ".json")))
    touched = set(ev["coverage"].get("evaluated_bodies", [])) | set(ev["coverage"].get("rule_items", []))
    items = set()
    rep = os.path.join(os.path.dirname(__file__), "..", "evidence", "replay", p["id"] + ".json")
    ranges = []
    for sect in ("state", "mechanism"):
        for a in p["anchors"].get(sect, []):
            for part in re.split(r";\s*", a.get("where", "")):
                m = re.match(r"\s*(src/[\w/\.\*]+):?([\d,\-\s]*)", part)
                if not m:
                    continue
                f = m.group(1)
                spans = []
                for r in re.findall(r"(\d+)(?:-(\d+))?", m.group(2) or ""):
                    spans.append((int(r[0]), int(r[1] or r[0])))
                ranges.append((f, spans, a["name"]))
    missing = []
    n = 0
    byfile = {}
    for fn in F.all_fns:
        if "{closure" in fn.key or fn.from_expansion:
            continue
        byfile.setdefault(fn.span["file"], []).append(fn)
    for file, fns in byfile.items():
        fns.sort(key=lambda x: x.span["line"])
        for i, fn in enumerate(fns):
            l0 = fn.span["line"]
            l1 = max(fn.span.get("end_line", l0), (fns[i + 1].span["line"] - 1) if i + 1 < len(fns) else l0 + 200)
            for (f, spans, nm) in ranges:
                if f != file:
                    continue
                if not spans or any(not (l1 < a or l0 > b) for a, b in spans):
                    n += 1
                    if fn.key not in touched:
                        missing.append((fn.key, nm))
                    break
    print("%s: %d anchored functions, %d never entered by the interpreter" % (p["id"], n, len(missing)))
    for k, nm in missing:
        print("     %s   [%s]" % (k, nm))
