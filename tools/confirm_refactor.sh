#!/bin/bash
# tools/confirm_refactor.sh <ID>: confirm a sub-agent's behaviour-preserving refactoring in /tmp/seed/<ID>:
#  patch touches only src/, applies to a clean checkout, crate builds, 51 lib tests pass, the agent's same_<ID> test passes
#  on the original and on the refactored code.  On success copy to /verif/seeded/<ID>/ (meta.kind = "benign").
id="$1"; d=/tmp/seed/$id
export CARGO_TARGET_DIR=/tmp/seed/target-shared CARGO_NET_OFFLINE=true
cd "$d" || exit 2
t=$(ls tests/same_*.rs 2>/dev/null | head -1); [ -z "$t" ] && { echo "$id: no same_ test"; exit 2; }
tn=$(basename "$t" .rs)
log=/tmp/seed/$id.confirm.log; : > $log
[ -s patch.diff ] || { echo "$id: empty patch"; exit 2; }
git reset -q 2>>$log; git checkout -- src 2>>$log; git clean -fdq src 2>>$log     # (new files of the patch - intent-to-add entries - go too)
git apply --check patch.diff 2>>$log || { echo "$id: patch does not apply to a clean tree"; exit 2; }
cargo test --offline --test "$tn" >>$log 2>&1; orig=$?
git apply patch.diff
cargo build --offline >>$log 2>&1; build=$?
cargo test --offline --lib >>$log 2>&1; lib=$?
cargo test --offline --test "$tn" >>$log 2>&1; ref=$?
echo "$id: same-test-on-original rc=$orig build rc=$build lib rc=$lib same-test-on-refactored rc=$ref files: $(grep '^+++ ' patch.diff | sed 's#+++ b/##' | tr '\n' ' ')"
if [ $orig -eq 0 ] && [ $build -eq 0 ] && [ $lib -eq 0 ] && [ $ref -eq 0 ]; then
  mkdir -p /verif/seeded/$id; cp patch.diff /verif/seeded/$id/; cp "$t" /verif/seeded/$id/
  python3 - "$d/meta.json" "/verif/seeded/$id/meta.json" "$id" <<'PY'
import json,sys
src,dst,pid=sys.argv[1:]
try: m=json.load(open(src))
except Exception: m={}
json.dump({"property":pid[:3],"kind":"benign","summary":m.get("summary"),"agent_ran":m.get("ran"),
 "confirmed":{"same_test_on_original_rc":0,"build_rc":0,"lib_tests_rc":0,"same_test_on_refactored_rc":0}},open(dst,"w"),indent=1)
PY
  echo "$id: CONFIRMED benign -> /verif/seeded/$id"
else echo "$id: NOT CONFIRMED (see $log)"; fi
