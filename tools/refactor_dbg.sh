#!/bin/bash
# tools/refactor_dbg.sh <PROP> <patch.diff>: keep a scratch copy /tmp/scr/dbg-<PROP> with the patch applied and run the check with TOP tracing
p="$1"; patch="$(readlink -f "$2")"; d=/tmp/scr/dbg-$p
rm -rf "$d"; mkdir -p "$d"; rsync -a --exclude target --exclude .git /repo/ "$d/"
(cd "$d" && patch -p1 -s --no-backup-if-mismatch < "$patch") || { echo PATCH-FAILED; exit 3; }
cd "$(dirname "$0")/.."
MAHF_SA_TOPS=1 MAHF_REPO="$d" MAHF_SA_EVIDENCE="$d/.evidence" ./check "$p" --tier quick 2>&1 | grep -v "^KNOWN-FINDING" | tail -${MUT_TAIL:-30}
