#!/bin/bash
# tools/cross_plan.sh <id> <PROP>...: apply seeded/<id>/patch.diff to a scratch copy and run the given quick checks
# (regression under a time budget: the caller picks, per benign change, the properties whose evaluated bodies live in a touched file)
cd "$(dirname "$0")/.."
id="$1"; shift
patch=seeded/$id/patch.diff; [ -f "$patch" ] || patch=/tmp/seed/$id/patch.diff
patch="$(readlink -f "$patch")"
d=$(mktemp -d /tmp/mahf-xr.XXXXXX)
rsync -a --exclude target --exclude .git /repo/ "$d/"
if ! (cd "$d" && patch -p1 -s --no-backup-if-mismatch < "$patch"); then echo "PATCH-FAILED $id"; rm -rf "$d"; exit 0; fi
for p in "$@"; do
  out=$(MAHF_REPO="$d" MAHF_SA_EVIDENCE="$d/.evidence" MAHF_SA_CACHE="$d/.cache" timeout 900 ./check $p --tier quick 2>&1 | grep -v "^KNOWN-FINDING")
  if echo "$out" | grep -q "^VIOLATION"; then echo "FALSE-ALARM $id on $p :: $(echo "$out" | grep -m1 '^  \[' | cut -c1-300)"; fi
done
echo "done $id $*"
rm -rf "$d"
