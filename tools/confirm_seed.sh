#!/bin/bash
# tools/confirm_seed.sh <ID> [<name>]: confirm a sub-agent's seeded change in its scratch worktree /tmp/seed/<ID>:
#  original: demo passes; changed: crate builds, 51 lib tests pass, demo fails.  On success copy to /verif/seeded/<name>/.
id="$1"; name="${2:-$1}"; d=/tmp/seed/$id
export CARGO_TARGET_DIR=/tmp/seed/target-shared CARGO_NET_OFFLINE=true
cd "$d" || exit 2
demo=$(ls tests/demo_*.rs | head -1); demo=$(basename "$demo" .rs)
log=/tmp/seed/$id.confirm.log; : > $log
git apply -R patch.diff 2>>$log || { git checkout -- src; }
git diff --quiet -- src || { echo "$id: src not clean after revert" | tee -a $log; exit 2; }
cargo test --offline --test "$demo" >>$log 2>&1; orig=$?
git apply patch.diff || { echo "$id: patch does not apply" | tee -a $log; exit 2; }
cargo build --offline >>$log 2>&1; build=$?
cargo test --offline --lib >>$log 2>&1; lib=$?
libn=$(grep -E "^test result: ok\. [0-9]+ passed" $log | tail -1)
cargo test --offline --test "$demo" >>$log 2>&1; mut=$?
echo "$id: demo-on-original rc=$orig  build rc=$build  lib rc=$lib [$libn]  demo-with-change rc=$mut"
if [ $orig -eq 0 ] && [ $build -eq 0 ] && [ $lib -eq 0 ] && [ $mut -ne 0 ]; then
  mkdir -p /verif/seeded/$name
  cp patch.diff /verif/seeded/$name/patch.diff
  cp tests/$demo.rs /verif/seeded/$name/
  python3 - "$d/meta.json" "/verif/seeded/$name/meta.json" "$id" "$orig" "$build" "$lib" "$mut" <<'PY'
import json,sys
src,dst,pid,orig,build,lib,mut=sys.argv[1:]
try: m=json.load(open(src))
except Exception: m={}
out={"property":pid[:3],"summary":m.get("summary"),"needs":m.get("needs"),"agent_ran":m.get("ran"),
 "confirmed":{"demo_on_original_rc":int(orig),"build_rc":int(build),"lib_tests_rc":int(lib),"demo_with_change_rc":int(mut),
  "commands":["git apply -R patch.diff; cargo test --offline --test demo (pass)","git apply patch.diff; cargo build --offline; cargo test --offline --lib (51 pass); cargo test --offline --test demo (fail)"]}}
json.dump(out,open(dst,"w"),indent=1)
PY
  echo "$id: CONFIRMED -> /verif/seeded/$name"
else
  echo "$id: NOT CONFIRMED (see $log)"
fi
