#!/bin/bash
# tools/cross_refactors.sh [ids..]: apply each benign refactoring (seeded/<id>/patch.diff or /tmp/seed/<id>/patch.diff) to a scratch copy and run ALL 20 quick checks on it
cd "$(dirname "$0")/.."
ids="$@"; [ -z "$ids" ] && ids=$(for n in $(ls seeded); do python3 -c "import json,sys;sys.exit(0 if json.load(open('seeded/$n/meta.json')).get('kind')=='benign' else 1)" && echo $n; done)
for id in $ids; do
  patch=seeded/$id/patch.diff; [ -f "$patch" ] || patch=/tmp/seed/$id/patch.diff
  patch="$(readlink -f "$patch")"
  d=$(mktemp -d /tmp/mahf-xr.XXXXXX)
  rsync -a --exclude target --exclude .git /repo/ "$d/"
  if ! (cd "$d" && patch -p1 -s --no-backup-if-mismatch < "$patch"); then echo "PATCH-FAILED $id"; rm -rf "$d"; continue; fi
  for i in $(seq -w 1 20); do
    out=$(MAHF_REPO="$d" MAHF_SA_EVIDENCE="$d/.evidence" ./check C$i --tier quick 2>&1 | grep -v "^KNOWN-FINDING"); rc=$?
    if echo "$out" | grep -q "^VIOLATION"; then echo "FALSE-ALARM $id on C$i :: $(echo "$out" | grep -m1 '^  \[' | cut -c1-300)"; fi
  done
  echo "done $id"
  rm -rf "$d"
done
