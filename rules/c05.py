"""C05 — objective values are never stale: evaluated individuals carry f(solution)."""
import re

from core import expr_str, strip, subexprs, callee_keys, AnchorMissing
from kinds import all_places, origin
from absint import Interp, Sym, Agg, Ref, TOP, some, NONE, std_oracle, chain

EXPLANATION = (
    "The property is an invariant I of a type with private fields: objective.is_some() => objective = f(solution). "
    "Decided statically as an inductive invariant: (R1) the fields of Individual are written, mutably borrowed or "
    "moved out only inside `impl Individual` (every projection of the two fields in the whole crate is classified); "
    "(R2) every function of every impl block of Individual (discovered from the fact base, so a new method or a "
    "clone_from override is included automatically) is abstractly interpreted (K6) from every combination of "
    "{evaluated, unevaluated} receiver/arguments: on every returning path the receiver and every returned Individual "
    "satisfy I, a returned `&mut` into the solution implies objective = None, and the only way a Some(objective) is "
    "created is from the caller-supplied objective function applied to the individual's own solution or by copying a "
    "(solution, objective) pair together; (R3) the three entry points that accept an arbitrary objective value "
    "(new, new_test_unit, set_objective) and evaluate_with are used only by the testing helpers, by Individual's own "
    "methods, with a visibly consistent (solution, objective) pair, or inside the Evaluate implementations (closures "
    "and private helpers included), and there the evaluator rule (K6: every individual of a slice of 0..4 ends up "
    "with f(its own solution), the objective called once per individual) decides what is stored; into_individuals "
    "(K6) wraps the solutions in order as unevaluated individuals. NOT decided: that user objective functions are pure; the per-run "
    "audit over shipped heuristics is implied by I, not executed.")
ASSUMPTIONS = ["user objective functions are deterministic functions of the solution",
               "Clone of an encoding yields an equal encoding"]

IND = "mahf::problems::individual::Individual"
EXEMPT = {IND + "::new", IND + "::set_objective", IND + "::new_test_unit"}


def r1_field_ownership(ctx):
    F = ctx.facts
    n = 0
    for f in F.all_fns:
        for (bb, pl, c, line) in all_places(f.body, normal_only=False):
            for i, e in enumerate(pl[1]):
                if isinstance(e, list) and e[0] == "f" and len(e) > 3 and e[3] == IND:
                    n += 1
                    if c in ("write", "refmut", "rawptr", "move") and i == len(pl[1]) - 1 or c in ("write", "refmut", "rawptr") :
                        inside = f.impl_self_adt == IND or (f.kind == "Closure" and (f.parent or "").startswith(IND))
                        ctx.check(inside, "C05.R1", f.key, "field%d:%s" % (e[1], c),
                                  "field %d of Individual is %s outside `impl Individual` (bypasses solution_mut's invalidation)" % (e[1], {"write": "written", "refmut": "mutably borrowed", "rawptr": "raw-borrowed", "move": "moved out"}[c]),
                                  loc=f.loc(line))
                    break
    ctx.count("individual_field_projections", n)
    ctx.floor("C05.R1", "projections of Individual's fields", n, 10)


def mk_ind(tag, evaluated):
    sol = Sym("sol:" + tag)
    return Agg("adt", IND, "Individual", [sol, some(Sym("f(sol:%s)" % tag)) if evaluated else NONE])


def satisfies_I(v):
    """v: abstract Individual. returns (ok, why)"""
    if not isinstance(v, Agg) or v.name != IND or len(v.fields) != 2:
        return None, "not an individual"
    sol, obj = v.fields
    if isinstance(obj, Agg) and obj.variant == "None":
        return True, "unevaluated"
    if isinstance(obj, Agg) and obj.variant == "Some":
        o = obj.fields[0]
        if isinstance(sol, Sym) and isinstance(o, Sym) and o.tag == "f(%s)" % sol.tag:
            return True, "objective of its own solution"
        return False, "solution %s carries objective %s" % (sol, o)
    return False, "objective %s with solution %s" % (obj, sol)


def ind_oracle(interp, env, f, args, t, bb, path):
    k = f.get("key", "")
    nm = f.get("name")

    def deref(v):
        return interp.read_ref(env, v) if isinstance(v, Ref) else v
    # calling the caller-supplied objective function on a solution yields f(solution)
    if nm in ("call_mut", "call_once", "call") and f.get("trait", "").startswith("core::ops::function"):
        a = args[1] if len(args) > 1 else TOP
        a = deref(a)
        if isinstance(a, Agg) and a.kind == "tuple" and a.fields:
            s = deref(a.fields[0])
            if isinstance(s, Sym) and s.tag.startswith("sol:"):
                return Sym("f(%s)" % s.tag)
        return Sym("f(?)")
    if k in ("core::option::Option::as_ref", "core::option::Option::as_mut"):
        return deref(args[0])
    if k == "core::option::Option::is_some":
        v = deref(args[0])
        if isinstance(v, Agg):
            return v.variant == "Some"
    if k == "core::clone::Clone::clone_from" and len(args) == 2 and isinstance(args[0], Ref):
        interp.write_ref(env, args[0], deref(args[1]))
        return Agg("tuple", None, None, [])
    if k in ("core::mem::replace",) and isinstance(args[0], Ref):
        old = deref(args[0])
        interp.write_ref(env, args[0], args[1])
        return old
    if k in ("core::mem::take",) and isinstance(args[0], Ref):
        old = deref(args[0])
        interp.write_ref(env, args[0], TOP)
        return old
    if k == "core::mem::swap" and isinstance(args[0], Ref) and isinstance(args[1], Ref):
        a, b = deref(args[0]), deref(args[1])
        interp.write_ref(env, args[0], b)
        interp.write_ref(env, args[1], a)
        return Agg("tuple", None, None, [])
    if k == "core::default::Default::default":
        return Sym("sol:default") if "Encoding" in (f.get("ret") or "") else TOP
    return TOP


def r2_invariant(ctx):
    F = ctx.facts
    fns = [f for f in F.all_fns if f.impl_self_adt == IND and f.kind != "Closure"]
    ctx.floor("C05.R2", "functions in impl blocks of Individual", len(fns), 12)
    n = 0
    for fn in fns:
        if fn.key in EXEMPT:
            ctx.ok("C05.R2", fn.key, "exempt", "accepts an arbitrary objective value: callers restricted by C05.R3")
            continue
        ins = fn.sig["inputs"] if fn.sig else []
        # which parameters are individuals (by value, & or &mut)
        roles = []
        for i, ty in enumerate(ins):
            if re.search(r"individual::Individual<", ty):
                roles.append((i, "mut" if ty.startswith("&mut ") or ty.startswith("&'") and " mut " in ty[:12] else "ref" if ty.startswith("&") else "val"))
        combos = [[]]
        for r in roles:
            combos = [c + [e] for c in combos for e in (True, False)]
        bad = []
        for combo in combos:
            args = [TOP] * fn.body.argc
            homes = {}
            env_extra = {}
            for (i, kind), ev in zip(roles, combo):
                ind = mk_ind("a%d" % i, ev)
                if kind == "val":
                    args[i] = ind
                else:
                    home = 10000 + i
                    env_extra[home] = ind
                    homes[i] = home
                    args[i] = Ref(home, [], frame="root")
            # non-individual parameters: encodings are fresh solution symbols
            for i, ty in enumerate(ins):
                if args[i] is TOP and "Encoding" in ty:
                    args[i] = Sym("sol:p%d" % i)
            it = Interp(fn.body, chain(ind_oracle, std_oracle), args, facts=F, inline=lambda k: k.startswith(IND + "::") or k.startswith("<" + IND))
            # seed homes into the initial env through a wrapper
            orig_run = it.run

            def run_with_homes(it=it, env_extra=env_extra):
                paths = []
                env0 = dict(env_extra)
                for j, a in enumerate(it.args):
                    env0[j + 1] = a
                return env0
            # the interpreter builds env0 from args; add the homes by patching args-derived env via init hook
            it.extra_env = env_extra
            paths = it.run()
            n += 1
            for p in paths:
                if p.end != "return":
                    continue
                # receiver / by-reference individuals after the call
                for i, home in homes.items():
                    okI, why = satisfies_I(p.env.get(home, TOP))
                    if okI is False or okI is None:
                        bad.append((combo, "parameter %d afterwards: %s" % (i, why)))
                # returned individuals
                r = p.ret
                if isinstance(r, Agg) and r.name == IND:
                    okI, why = satisfies_I(r)
                    if not okI:
                        bad.append((combo, "returned individual: %s" % why))
                # returned &mut into a solution
                out_ty = fn.sig["output"] if fn.sig else ""
                if out_ty.startswith("&mut ") or re.match(r"&'\w+ mut ", out_ty):
                    if isinstance(r, Ref) and r.local in homes.values():
                        indv = p.env.get(r.local, TOP)
                        if isinstance(indv, Agg) and not (isinstance(indv.fields[1], Agg) and indv.fields[1].variant == "None"):
                            bad.append((combo, "hands out &mut to (part of) the individual while objective = %s" % (indv.fields[1],)))
                    elif not isinstance(r, Ref):
                        bad.append((combo, "returns a mutable reference the analysis cannot place (%s)" % (r,)))
        ctx.check(not bad, "C05.R2", fn.key, "preserves-invariant",
                  "starting from individuals %s: %s" % (["evaluated" if e else "unevaluated" for e in bad[0][0]] if bad else "", bad[0][1] if bad else ""),
                  detail="%d start states" % len(combos), loc=fn.loc())
    ctx.count("invariant_evaluations", n)


def r3_entry_points(ctx):
    F = ctx.facts

    def users(key):
        cs = {f.key for (f, bb, t) in F.callers_of(lambda c: c.get("key") == key)}
        cs |= {f.key for (f, bi, c) in F.fn_refs(lambda c: c.get("key") == key)}
        return cs
    u = users(IND + "::new")
    ctx.ok("C05.R3", IND + "::new", "users", str(sorted(u)))
    refs = {f.key for (f, bi, c) in F.fn_refs(lambda c: c.get("key") == IND + "::new")}
    ctx.check(not refs, "C05.R3", IND + "::new", "as-fn-item", "Individual::new (arbitrary objective) is passed around as a function value in %s" % sorted(refs))
    for (f, bb, t) in F.callers_of(lambda c: c.get("key") == IND + "::new"):
        if f.key == IND + "::new_test_unit":
            continue
        sol = f.body.expr_of_op(t["args"][0])
        obj = f.body.expr_of_op(t["args"][1])
        good = False
        # (x.solution().clone(), x.objective().clone()) of the same x
        osrc = [x for x in subexprs(obj) if x[0] == "call" and x[1] in (IND + "::objective", IND + "::get_objective")]
        ssrc = [x for x in subexprs(sol) if x[0] == "call" and x[1] == IND + "::solution"]
        if len(osrc) == 1 and len(ssrc) == 1 and expr_str(strip(osrc[0][2][0])) == expr_str(strip(ssrc[0][2][0])):
            good = True
        # (s, problem.objective(&s))
        ev = [x for x in subexprs(obj) if x[0] == "call" and x[1] == "mahf::problems::evaluate::ObjectiveFunction::objective"]
        if len(ev) == 1 and expr_str(strip(ev[0][2][1])) == expr_str(strip(sol)):
            good = True
        ctx.check(good, "C05.R3", f.key, "new:consistent-pair",
                  "Individual::new(%s, %s): the objective is not visibly the value of that very solution" % (expr_str(sol)[:80], expr_str(obj)[:80]), loc=f.loc(t.get("line")))
    u = users(IND + "::new_test_unit")
    ctx.check(all(x.startswith("mahf::testing::") for x in u), "C05.R3", IND + "::new_test_unit", "callers", "new_test_unit is used outside the testing helpers: %s" % sorted(u), detail=str(sorted(u)))
    # the testing helpers themselves are only used from cfg(test) code (absent from the library build)
    for h in sorted(k for k in F.fns if k.startswith("mahf::testing::")):
        uu = {x for x in users(h) if not x.startswith("mahf::testing::")}
        ctx.check(not uu, "C05.R3", h, "callers", "%s (fabricated objective) is used by library code: %s" % (h, sorted(uu)))
    # set_objective / evaluate_with store an objective computed elsewhere: they may only be used inside the Evaluate
    # implementations (their closures and private helpers included); that the value stored there is f(own solution) for
    # every individual is decided semantically by the evaluator rule (C06.R2), borrowed below
    roots = {f.key for f in F.all_fns if f.impl_trait == "mahf::problems::evaluate::Evaluate" and f.name == "evaluate"}

    def covered(key, depth=0):
        if key in roots:
            return True
        if key.startswith(IND + "::") or key.startswith("<" + IND + " as "):
            return True        # Individual's own methods: each is checked against the invariant by R2
        g = F.fn_opt(key)
        if g is None or depth > 4:
            return False
        if g.kind == "Closure":
            return covered(g.parent, depth + 1)
        if g.vis in ("pub", "public") or g.impl_trait:
            return False
        cs = users(key)
        return bool(cs) and all(covered(c, depth + 1) for c in cs)
    for entry in ("set_objective", "evaluate_with"):
        u = users(IND + "::" + entry)
        if entry == "evaluate_with":
            ctx.floor("C05.R3", "evaluate_with / set_objective users", len(u | users(IND + "::set_objective")), 1)
        outside = sorted(x for x in u if not covered(x))
        ctx.check(not outside, "C05.R3", IND + "::" + entry, "callers", "%s (stores an objective value computed by the caller) is used outside the Evaluate implementations: %s" % (entry, outside), detail=str(sorted(u)))
    import c06
    from c08 import ProxyCtx
    c06.r2_evaluators(ProxyCtx(ctx, "C06.R2", "C05.R3"))
    # offspring wrappers: into_individuals(solutions) = the same solutions, in order, as UNEVALUATED individuals (K6)
    from absint import Interp, Sym, Agg, std_oracle, chain
    from collmodel import coll_oracle, install, Vec
    fn = [f for f in F.all_fns if f.key.endswith("as mahf::population::IntoIndividuals>::into_individuals")]
    good = len(fn) == 1
    why = "%d implementations" % len(fn)
    if good:
        for n_ in range(0, 4):
            it = install(Interp(fn[0].body, chain(coll_oracle, std_oracle), [Vec("sols")], facts=F,
                                inline=lambda k: k.startswith(IND + "::") or k.startswith("<" + IND) or k.startswith("mahf::population::") or "as mahf::population::" in k, max_visits=12))
            it.init_state = {"heap": {"sols": tuple(Sym("s%d" % i) for i in range(n_))}, "next_vec": 0}
            for p in it.run():
                items = p.mstate.get("heap", {}).get(getattr(p.ret, "vid", None), None) if p.end == "return" else None
                got = [(getattr(x.fields[0], "tag", "?"), x.fields[1].variant if isinstance(x.fields[1], Agg) else "?") if isinstance(x, Agg) and x.name == IND else ("?", "?") for x in items] if items is not None else None
                want = [("s%d" % i, "None") for i in range(n_)]
                if got != want:
                    good = False
                    why = "%d solutions become %s, expected %s" % (n_, got, want)
    ctx.check(good, "C05.R3", "IntoIndividuals::into_individuals", "wraps-unevaluated", "into_individuals does not wrap the solutions, in order, as unevaluated individuals: %s" % why)


def run(ctx):
    ctx.guard("C05.R1", "field ownership", lambda: r1_field_ownership(ctx))
    ctx.guard("C05.R2", "inductive invariant", lambda: r2_invariant(ctx))
    ctx.guard("C05.R3", "entry points", lambda: r3_entry_points(ctx))
