"""Bounded structured-program semantics (C03.R9): every configuration tree up to a size bound, built from the real
Block / Loop / Branch / Scope node types with opaque leaf components and scripted conditions, is run through the
MIR of `Configuration::run` (virtual calls resolved by the abstract value's type, `with_inner_state` and the
control-flow nodes interpreted from their real code) and the recorded trace is compared with the trace of the
corresponding structured program (a 40-line reference interpreter below, written from the property statement)."""
import itertools

from absint import Interp, Sym, Agg, Ref, HRef, TOP, some, NONE, ok, err, std_oracle, chain
from collmodel import coll_oracle, install, Vec, load

CF = "mahf::components::control_flow::"
COMP = "mahf::components::Component"
COND = "mahf::conditions::Condition"
ITER = "mahf::state::common::Iterations"
HOME = 9000
MAXLVL = 6


# ---------------------------------------------------------------- programs

def trees(n, kinds=("L", "B", "W", "I", "S")):
    """all program shapes with exactly n nodes (leaves and control-flow nodes)"""
    if n <= 0:
        return
    if n == 1:
        yield ("L",)
        if "B" in kinds:
            yield ("B", ())
        return
    if "B" in kinds:
        def seqs(m, maxk):
            """sequences of 1..maxk subtrees with m nodes in total"""
            if m == 0:
                yield ()
                return
            if maxk == 0:
                return
            for a in range(1, m + 1):
                for t1 in trees(a, kinds):
                    for rest in seqs(m - a, maxk - 1):
                        yield (t1,) + rest
        for ch in seqs(n - 1, 3):
            if ch:
                yield ("B", ch)
    for t in trees(n - 1, kinds):
        if "W" in kinds:
            yield ("W", t)
        if "S" in kinds:
            yield ("S", t)
        if "I" in kinds:
            yield ("I", t, None)
    if "I" in kinds:
        for a in range(1, n - 2 + 1):
            for t1 in trees(a, kinds):
                for t2 in trees(n - 1 - a, kinds):
                    yield ("I", t1, t2)


def number(t, ctr):
    """attach unique ids to leaves ('c<i>') and conditions ('k<i>')"""
    k = t[0]
    if k == "L":
        ctr[0] += 1
        return ("L", "c%d" % ctr[0])
    if k == "B":
        return ("B", tuple(number(x, ctr) for x in t[1]))
    if k == "W":
        ctr[1] += 1
        kid = "k%d" % ctr[1]
        return ("W", kid, number(t[1], ctr))
    if k == "S":
        ctr[2] += 1
        sid = "s%d" % ctr[2]
        return ("S", sid, number(t[1], ctr))
    ctr[1] += 1
    kid = "k%d" % ctr[1]
    return ("I", kid, number(t[1], ctr), number(t[2], ctr) if t[2] is not None else None)


def conds(t):
    k = t[0]
    if k == "L":
        return []
    if k == "B":
        return [c for x in t[1] for c in conds(x)]
    if k == "W":
        return [(t[1], "W")] + conds(t[2])
    if k == "S":
        return conds(t[2])
    return [(t[1], "I")] + conds(t[2]) + (conds(t[3]) if t[3] is not None else [])


def leaves(t):
    k = t[0]
    if k == "L":
        return [t[1]]
    if k == "B":
        return [c for x in t[1] for c in leaves(x)]
    if k in ("W", "S"):
        return leaves(t[2])
    return leaves(t[2]) + (leaves(t[3]) if t[3] is not None else [])


def show(t):
    k = t[0]
    if k == "L":
        return t[1]
    if k == "B":
        return "[" + ", ".join(show(x) for x in t[1]) + "]"
    if k == "W":
        return "while %s %s" % (t[1], show(t[2]))
    if k == "S":
        return "scope%s" % show(t[2]) if t[2][0] == "B" else "scope[%s]" % show(t[2])
    return "if %s %s%s" % (t[1], show(t[2]), (" else " + show(t[3])) if t[3] is not None else "")


# ---------------------------------------------------------------- the reference: a structured program

class Fault(Exception):
    pass


class Ref_:
    def __init__(self, script, fault):
        self.script = {k: list(v) for k, v in script.items()}
        self.fault = fault            # (id, phase, occurrence) or None
        self.seen = {}
        self.trace = []
        self.iters = [None]           # one slot per open scope

    def ev(self, phase, ident):
        lvl = len(self.iters) - 1
        vis = next((x for x in reversed(self.iters) if x is not None), None)
        self.trace.append((phase, ident, lvl, vis))
        n = self.seen[(ident, phase)] = self.seen.get((ident, phase), 0) + 1
        if self.fault and self.fault[0] == ident and self.fault[1] == phase and self.fault[2] == n:
            raise Fault()

    def phase(self, t, ph):
        k = t[0]
        if k == "L":
            self.ev(ph, t[1])
        elif k == "B":
            for x in t[1]:
                self.phase(x, ph)
        elif k == "W":
            if ph == "init":
                self.iters[-1] = 0
            self.ev(ph, t[1])
            self.phase(t[2], ph)
        elif k == "I":
            self.ev(ph, t[1])
            self.phase(t[2], ph)
            if t[3] is not None:
                self.phase(t[3], ph)
        # a scope is not initialised / checked from outside

    def evaluate(self, kid):
        self.ev("evaluate", kid)
        s = self.script[kid]
        return s.pop(0) if s else False

    def execute(self, t):
        k = t[0]
        if k == "L":
            self.ev("execute", t[1])
        elif k == "B":
            for x in t[1]:
                self.execute(x)
        elif k == "W":
            self.ev("init", t[1])
            while self.evaluate(t[1]):
                self.execute(t[2])
                for i in range(len(self.iters) - 1, -1, -1):
                    if self.iters[i] is not None:
                        self.iters[i] += 1
                        break
                else:
                    raise Fault()
        elif k == "I":
            if self.evaluate(t[1]):
                self.execute(t[2])
            elif t[3] is not None:
                self.execute(t[3])
        elif k == "S":
            self.iters.append(None)
            try:
                self.ev("state_init", t[1])
                self.phase(t[2], "init")
                self.phase(t[2], "require")
                self.execute(t[2])
            finally:
                self.iters.pop()
            self.ev("merge", t[1])

    def run(self, t):
        try:
            self.phase(t, "init")
            self.phase(t, "require")
            self.execute(t)
            return "Ok"
        except Fault:
            return "Err"


# ---------------------------------------------------------------- the real code, interpreted

def build(F, t, heap):
    k = t[0]
    if k == "L":
        return Agg("adt", "leaf::component", t[1], [])
    if k == "B":
        vid = "blk%d" % len(heap)
        heap[vid] = ()
        heap[vid] = tuple(build(F, x, heap) for x in t[1])
        return Agg("adt", CF + "Block", "Block", [Vec(vid)])
    if k == "W":
        a = F.adt(CF + "Loop")
        f = {x["name"]: x["i"] for x in a["variants"][0]["fields"]}
        vals = [None] * len(f)
        vals[f["condition"]] = Agg("adt", "leaf::condition", t[1], [])
        vals[f["body"]] = build(F, t[2], heap)
        return Agg("adt", CF + "Loop", "Loop", vals)
    if k == "S":
        a = F.adt(CF + "Scope")
        f = {x["name"]: x["i"] for x in a["variants"][0]["fields"]}
        vals = [None] * len(f)
        vals[f["body"]] = build(F, t[2], heap)
        vals[f["state_init"]] = Sym("state_init:" + t[1])
        vals[f["states_merge"]] = Sym("states_merge:" + t[1])
        return Agg("adt", CF + "Scope", "Scope", vals)
    a = F.adt(CF + "Branch")
    f = {x["name"]: x["i"] for x in a["variants"][0]["fields"]}
    vals = [None] * len(f)
    vals[f["condition"]] = Agg("adt", "leaf::condition", t[1], [])
    vals[f["if_body"]] = build(F, t[2], heap)
    vals[f["else_body"]] = some(build(F, t[3], heap)) if t[3] is not None else NONE
    return Agg("adt", CF + "Branch", "Branch", vals)


def level_of(interp, env, v, depth=0):
    """scope level of the registry / state / requirements value a call receives"""
    if depth > 8:
        return None
    if isinstance(v, Sym) and v.tag.startswith("reg:"):
        return int(v.tag[4:])
    if isinstance(v, (Ref, HRef)):
        try:
            return level_of(interp, env, load(interp, env, v), depth + 1)
        except Exception:
            return None
    if isinstance(v, Agg):
        for x in v.fields:
            r = level_of(interp, env, x, depth + 1)
            if r is not None:
                return r
    return None


STATE_REG_FIELD = [0]
STATE_NFIELDS = [2]


def mk_state(reg):
    vals = [Sym("phantom")] * STATE_NFIELDS[0]
    vals[STATE_REG_FIELD[0]] = reg
    return Agg("adt", "mahf::state::State", "State", vals)


def mk_oracle(script, fault, store):
    def record(interp, env, phase, ident, lvl):
        v = store.visible_value(interp, env, ITER, lvl) if lvl is not None else None
        vis = (v.fields[0] if isinstance(v, Agg) and v.fields else v) if v is not None else None
        interp.mstate["trace"] = interp.mstate.get("trace", ()) + ((phase, ident, lvl, vis),)
        seen = dict(interp.mstate.get("seen", ()))
        n = seen[(ident, phase)] = seen.get((ident, phase), 0) + 1
        interp.mstate["seen"] = tuple(seen.items())
        return bool(fault and fault[0] == ident and fault[1] == phase and fault[2] == n)

    unit = Agg("tuple", None, None, [])

    def oracle(interp, env, f, args, t, bb, path):
        k = f.get("key", "")
        nm = f.get("name")
        a0 = load(interp, env, args[0]) if args else None
        # ---- leaves
        if k in (COMP + "::init", COMP + "::require", COMP + "::execute") and isinstance(a0, Agg) and a0.name == "leaf::component":
            lvl = level_of(interp, env, args[2]) if len(args) > 2 else None
            bad = record(interp, env, nm, a0.variant, lvl)
            return err(Sym("fault")) if bad else ok(unit)
        if k in (COND + "::init", COND + "::require", COND + "::evaluate") and isinstance(a0, Agg) and a0.name == "leaf::condition":
            lvl = level_of(interp, env, args[2]) if len(args) > 2 else None
            bad = record(interp, env, nm, a0.variant, lvl)
            if bad:
                return err(Sym("fault"))
            if nm == "evaluate":
                used = dict(interp.mstate.get("used", ()))
                i = used.get(a0.variant, 0)
                used[a0.variant] = i + 1
                interp.mstate["used"] = tuple(used.items())
                s = script.get(a0.variant, ())
                return ok(s[i] if i < len(s) else False)
            return ok(unit)
        if f.get("kind") == "fnptr" and isinstance(f.get("fnptr_value"), Sym):
            tag = f["fnptr_value"].tag
            kind, sid = tag.split(":", 1)
            lvl = level_of(interp, env, args[0]) if args else None
            bad = record(interp, env, "state_init" if kind == "state_init" else "merge", sid, lvl)
            return err(Sym("fault")) if bad else ok(unit)
        # ---- the registry, one symbol per scope level
        if k == "mahf::state::registry::StateRegistry::into_child":
            lvl = level_of(interp, env, args[0])
            if lvl is None or lvl + 1 >= MAXLVL:
                return TOP
            store.clear_level(interp, lvl + 1)
            interp.mstate["open"] = interp.mstate.get("open", 0) + 1
            return Sym("reg:%d" % (lvl + 1))
        if k == "mahf::state::registry::StateRegistry::into_parent":
            lvl = level_of(interp, env, args[0])
            if lvl is None or lvl == 0:
                return TOP
            store.clear_level(interp, lvl)
            interp.mstate["open"] = interp.mstate.get("open", 0) - 1
            return Agg("tuple", None, None, [some(Sym("reg:%d" % (lvl - 1))), Sym("child-registry")])
        if k in ("core::convert::Into::into", "core::convert::From::from") or nm in ("into", "from") and "convert" in k:
            ga = f.get("gargs") or ["", ""]
            src, dst = (ga[0], ga[-1]) if nm == "into" else (ga[-1], ga[0])
            if "StateRegistry" in src and dst.startswith("mahf::state::State"):
                return mk_state(a0)
            if src.startswith("mahf::state::State") and "StateRegistry" in dst and isinstance(a0, Agg) and a0.name == "mahf::state::State":
                return a0.fields[STATE_REG_FIELD[0]]
        if k in ("core::mem::take", "core::mem::replace") and isinstance(a0, Sym) and a0.tag.startswith("reg:") and isinstance(args[0], (Ref, HRef)):
            interp.write_ref(env, args[0], Sym("registry-placeholder"))
            return a0
        if k in ("mahf::state::registry::StateRegistry::new", "core::default::Default::default") and "StateRegistry" in (f.get("ret") or ""):
            return Sym("registry-placeholder")
        return TOP
    return oracle


def run_real(F, t, script, fault, max_visits=24):
    fn = F.fn("mahf::configuration::Configuration::run")
    heap = {}
    tree = build(F, t, heap)
    cfg = Agg("adt", "mahf::configuration::Configuration", "Configuration", [tree])
    sa = F.adt("mahf::state::State")
    sf = {x["name"]: x["i"] for x in sa["variants"][0]["fields"]}
    STATE_REG_FIELD[0] = sf["registry"]
    STATE_NFIELDS[0] = len(sf)
    state = mk_state(Sym("reg:0"))
    inl = lambda k: (k.startswith("mahf::components::control_flow::") or k.startswith("<mahf::components::control_flow::") or k.startswith("mahf::configuration::")
                     or k.startswith("mahf::state::State::") or k.startswith("<mahf::state::State") or k.startswith("mahf::state::registry::entry::Entry::") or k.startswith("<mahf::state::registry::entry::Entry") or k.startswith("<mahf::state::common::Iterations as core::default::Default>") or k.startswith("mahf::state::require::") or k.startswith("<mahf::state::require::"))
    import statemodel
    store = statemodel.Store(F, levels=MAXLVL, base=HOME, auto=lambda ty: {} if ty == ITER else None, outward=-1, level_of=level_of)
    inl0 = inl
    inl = lambda k: inl0(k) or (statemodel.inline(k) and not k.startswith("mahf::state::State::best_"))
    it = install(Interp(fn.body, chain(mk_oracle(script, fault, store), store, coll_oracle, std_oracle), [cfg, Sym("problem"), Ref(HOME - 1, [], frame="root")], facts=F, inline=inl, max_visits=max_visits, max_paths=40, max_depth=40))
    it.dispatch = True
    it.extra_env = {HOME - 1: state}
    it.init_state = {"heap": heap, "next_vec": 0}
    store.install(it)
    return it.run()


def compare(F, t, script, fault, max_visits=24):
    """None if Configuration::run on the tree behaves like the structured program, else what differs"""
    ref = Ref_(script, fault)
    want_res = ref.run(t)
    paths = run_real(F, t, script, fault, max_visits=max_visits)
    if len(paths) != 1:
        return "is not decided: %d paths (%s)" % (len(paths), sorted({p.end for p in paths}))
    p = paths[0]
    if p.end == "limit":
        return "is not decided: the evaluation bound was reached"
    got_res = p.ret.variant if (p.end == "return" and hasattr(p.ret, "variant")) else p.end
    got = list(p.mstate.get("trace", ()))
    if got != ref.trace:
        k = next((i for i, (a, b) in enumerate(zip(got, ref.trace)) if a != b), min(len(got), len(ref.trace)))
        return ("diverges from the structured program at step %d: real code does %s, the structured program does %s (phase, node, scope level, visible loop counter)"
                % (k, got[k] if k < len(got) else "nothing more", ref.trace[k] if k < len(ref.trace) else "nothing more"))
    if got_res != want_res:
        return "returns %s, the structured program ends with %s" % (got_res, want_res)
    if p.mstate.get("open", 0) != 0:
        return "leaves %d scope(s) open" % p.mstate.get("open", 0)
    return None
