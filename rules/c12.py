"""C12 — replacement merges the two top populations as its name says."""
import itertools

from core import expr_str, strip, subexprs, AnchorMissing
from absint import Interp, Sym, Agg, Ref, HRef, TOP, some, NONE, ok, err, std_oracle, chain
from collmodel import coll_oracle, Vec, install, load
from orderings import weak_orderings
import c07

EXPLANATION = (
    "Finite-domain abstract interpretation (K6): (R1) the replacement() driver pops the offspring first and the "
    "parents second, hands them to replace() in the roles (parents, offspring), propagates its error and pushes the "
    "result exactly once; (R2) every Replacement implementation in the crate (discovered from the fact base) is "
    "evaluated over parents of size 0..2, offspring of size 0..2, every weak ordering of all objective values "
    "involved and capacities 0..3: the result consists only of input individuals, each at most once (solution and "
    "objective kept together), and its content is what the operator is named for - all parents / all offspring / "
    "their concatenation / the mu best of both (as a multiset of objective ranks) / mu of them after a shuffle / "
    "index-wise the offspring iff it is strictly better than the parent, with an error (not a panic) on unequal "
    "sizes; an implementation without a named specification is held to the subset-without-duplication clause only. "
    "NOT decided: the uniformity of RandomReplacement's choice.")
EXPLANATION += " " + '(R1 revised) as C11.R2: real stack with populations underneath (parents = the one below the top), stack and generator owned by the current or the enclosing scope.'
ASSUMPTIONS = ["sort_unstable_by_key sorts by the given key; SliceRandom::shuffle permutes"]

REPL = "mahf::components::replacement::"
INL = c07.INLINE


def ids(interp_state_heap, v):
    if isinstance(v, Vec):
        return [c07.otag(x) for x in interp_state_heap.get(v.vid, ())]
    return None


def r1_driver(ctx, fn=None, rule="C12.R1"):
    """the driver on the REAL population stack (Populations methods inlined over c04's stack model), with 0..2 other
    populations underneath parents and offspring: replace() receives (parents = the population below the top,
    offspring = the top population), both are consumed, the result is pushed once on top of whatever was underneath,
    and everything underneath is untouched; a failing replace() returns the error and pushes nothing"""
    from c04 import StackModel
    from c10 import mk_oracle
    F = ctx.facts
    POP = "mahf::state::common::Populations"
    sf = F.field_index(POP, "stack")
    fn = fn or F.fn(REPL + "replacement")
    calls = []
    bad = []
    n = 0
    import statemodel
    # (population sizes: the operator decides what empty parents / empty offspring mean - the driver hands them over like any others)
    for (below, owner), (npar, noff) in [(bo, (1, 1)) for bo in (((), 0), (("b0",), 0), (("b0", "b1"), 0), (("b0",), 1))] + \
                                        [((("b0",), 0), sz) for sz in ((1, 0), (0, 1), (0, 0), (2, 1))]:
        for outcome, label in ((ok(Vec("result")), "ok"), (err(Sym("boom")), "err")):
            def repl(interp, env, f, args):
                got = (getattr(load(interp, env, args[1]), "vid", None), getattr(load(interp, env, args[2]), "vid", None))
                calls.append(got)
                interp.mstate["replace_args"] = interp.mstate.get("replace_args", ()) + (got,)
                return interp.mstate.get("outcome")
            cells, popsym, _sf = statemodel.stack_and_rng(F, owner)
            store = statemodel.Store(F, levels=2, auto=statemodel.by_prefix(F, cells))
            table = {REPL + "Replacement::replace": repl}
            it = install(Interp(fn.body, chain(mk_oracle(table), store, StackModel(sf), coll_oracle, std_oracle), [Sym("component"), Sym("problem"), Sym("state")], facts=F,
                                inline=lambda k: k.startswith(POP + "::") or INL(k) or statemodel.inline(k), max_visits=10))
            heap = {"parents": tuple(c07.ind(20 + i) for i in range(npar)), "offspring": tuple(c07.ind(30 + i) for i in range(noff)), "result": (c07.ind(2),)}
            for j, bname in enumerate(below):
                heap[bname] = (c07.ind(10 + j),)
            it.init_state = {"outcome": outcome, "stack": tuple(Vec(x) for x in below) + (Vec("parents"), Vec("offspring")), "heap": heap, "next_vec": 0}
            it.never_inline = lambda k_: k_.endswith(" as " + REPL + "Replacement>::replace")      # (the operator is answered by the scenario)
            store.install(it)
            n += 1
            where = "with %d other population(s) underneath%s, %d parent(s) and %d offspring, " % (len(below), " and the stack owned by the enclosing scope" if owner else "", npar, noff)
            for p in it.run():
                names = [getattr(x, "vid", repr(x)) for x in p.mstate.get("stack", ())]
                rargs = p.mstate.get("replace_args", ())
                held = {ty.split("<")[0].split("::")[-1]: store.holders(p, ty) for ty in store.types()}
                if any(ls != [owner] for ls in held.values()):
                    bad.append(where + "the driver leaves %s held by scope level(s) %s; the stack and the generator belong to scope level %d and stay there" % (sorted(held), sorted(held.values()), owner))
                    continue
                if p.mstate.get("unmodelled"):
                    bad.append(where + "the driver applies %s to the stack" % (p.mstate["unmodelled"],))
                    continue
                if len(rargs) != 1 or rargs[0] != ("parents", "offspring"):
                    bad.append(where + "replace() receives (parents, offspring) = %s; the offspring are the TOP population and the parents the one below it" % (list(rargs),))
                    continue
                if any([c07.otag(x) for x in p.mstate["heap"].get(k, ())] != [c07.otag(x) for x in heap[k]] for k in below):
                    bad.append(where + "the driver modifies a population underneath")
                    continue
                if label == "ok":
                    if p.end != "return" or not (isinstance(p.ret, Agg) and p.ret.variant == "Ok") or names != list(below) + ["result"]:
                        bad.append(where + "after a successful replace(): %s %s, stack %s (expected Ok and %s)" % (p.end, p.ret, names, list(below) + ["result"]))
                else:
                    if p.end != "return" or not (isinstance(p.ret, Agg) and p.ret.variant == "Err") or "result" in names or names[:len(below)] != list(below):
                        bad.append(where + "after a failing replace(): %s %s, stack %s (expected the error, nothing pushed, %s untouched)" % (p.end, p.ret, names, list(below)))
    ctx.count("driver_scenarios", n)
    ctx.check(not bad and calls, rule, fn.key, "pop-offspring-pop-parents-push-result", bad[0] if bad else "replace() is never called", loc=fn.loc())


def expected(name, par, off, order, mu):
    """returns ('exact', list) | ('ranks', sorted ranks) | ('subset', size) | ('err',) | ('generic',)"""
    rk = lambda t: order[int(t[2:])]
    if name == "DiscardOffspring":
        return ("exact", par)
    if name == "Generational":
        return ("exact", off)
    if name == "Merge":
        return ("exact", par + off)
    if name == "MuPlusLambda":
        return ("ranks", sorted(rk(t) for t in par + off)[:mu])
    if name == "RandomReplacement":
        return ("subset", min(mu, len(par) + len(off)))
    if name == "KeepBetterAtIndex":
        if len(par) != len(off):
            return ("err",)
        return ("exact", [o if rk(p) > rk(o) else p for p, o in zip(par, off)])
    return ("generic",)


def r2_operators(ctx):
    F = ctx.facts
    impls = [f for f in F.all_fns if f.impl_trait == REPL + "Replacement" and f.name == "replace"]
    ctx.floor("C12.R2", "Replacement implementations", len(impls), 6)
    total = 0
    for fn in impls:
        name = fn.impl_self_adt.split("::")[-1]
        adt = F.adts.get(fn.impl_self_adt)
        has_mu = adt and any(fd["name"] == "max_population_size" for fd in adt["variants"][0]["fields"])
        bad = []
        NS = 4 if ctx.tier == "thorough" else 3
        for npar in range(0, NS):
            for noff in range(0, NS if npar < 3 else 3):
                n = npar + noff
                for order in (weak_orderings(n) if n else [()]):
                    for mu in (range(0, 4 + (2 if ctx.tier == "thorough" else 0)) if has_mu else [None]):
                        par = ["o:%d" % i for i in range(npar)]
                        off = ["o:%d" % (npar + j) for j in range(noff)]
                        me = Sym("self", {0: mu} if has_mu else {})
                        it = install(Interp(fn.body, chain(coll_oracle, std_oracle), [me, Vec("par"), Vec("off"), Sym("rng")], facts=F, inline=INL, max_visits=10))
                        it.init_state = {"rank": {"o:%d" % i: r for i, r in enumerate(order)}, "next_vec": 0,
                                         "heap": {"par": tuple(c07.ind(i) for i in range(npar)), "off": tuple(c07.ind(npar + j) for j in range(noff))}}
                        total += 1
                        exp = expected(name, par, off, order, mu)
                        for p in it.run():
                            ctxs = (npar, noff, list(order), mu)
                            if p.end != "return":
                                bad.append(ctxs + ("does not return (%s)" % p.end,))
                                continue
                            r = p.ret
                            if exp[0] == "err":
                                if not (isinstance(r, Agg) and r.variant == "Err"):
                                    bad.append(ctxs + ("returns %s for populations of different size (an error is required)" % (r,),))
                                continue
                            if not (isinstance(r, Agg) and r.variant == "Ok" and isinstance(r.fields[0], Vec)):
                                bad.append(ctxs + ("returns %s" % (r,),))
                                continue
                            items = p.mstate["heap"].get(r.fields[0].vid, ())
                            got = [c07.otag(x) for x in items]
                            pool = par + off
                            # only input individuals, each at most once, solution and objective together
                            intact = all(isinstance(x, Agg) and c07.otag(x) and getattr(x.fields[0], "tag", "") == "s:" + c07.otag(x)[2:] for x in items)
                            if not intact or any(g not in pool for g in got) or len(set(got)) != len(got):
                                bad.append(ctxs + ("returns %s, which is not a duplicate-free selection of the input individuals %s" % (got, pool),))
                                continue
                            if exp[0] == "exact" and got != exp[1]:
                                bad.append(ctxs + ("returns %s, expected %s" % (got, exp[1]),))
                            elif exp[0] == "ranks":
                                gr = sorted(order[int(t[2:])] for t in got)
                                if gr != exp[1]:
                                    bad.append(ctxs + ("keeps objective ranks %s, the %d best of both are %s" % (gr, mu, exp[1]),))
                            elif exp[0] == "subset":
                                if len(got) != exp[1]:
                                    bad.append(ctxs + ("returns %d individuals, expected %d" % (len(got), exp[1]),))
                                elif exp[1] < len(pool) and not [e for e in p.events if e.kind == "shuffle"]:
                                    bad.append(ctxs + ("drops individuals without shuffling first (the survivors are not random)",))
        ctx.check(not bad, "C12.R2", fn.key, "content-as-named",
                  "%s parents, %s offspring, objective ranks %s, capacity %s: %s %s" % (bad[0][:4] + (name, bad[0][4]) if bad else ("", "", "", "", "", "")), detail="spec=%s" % expected(name, [], [], (), 0)[0], loc=fn.loc())
        # (that the operator executes through the driver - or through code that behaves like it - is C12.DRV)
    ctx.count("replacement_scenarios", total)


def run(ctx):
    ctx.guard("C12.DRV", "operators execute through their driver", lambda: __import__("initspec").check_delegations(ctx, "C12", 4))
    ctx.guard("C12.R4", "`better` is the numeric order of the objective values (ties incl. -0.0 / +0.0 are ties)", lambda: __import__("c09").r3_total_order(ctx, "C12.R4"))
    ctx.guard("C12.K17", "constructor fidelity", lambda: __import__("ctor").check_for(ctx, "C12", 13))
    ctx.guard("C12.R1", "driver", lambda: r1_driver(ctx))
    ctx.guard("C12.R2", "operators", lambda: r2_operators(ctx))
