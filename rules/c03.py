"""C03 — structured-program semantics and fixed lifecycle (DESIGN §6 C03)."""
from core import expr_str, op_place, strip, subexprs, callee_keys, AnchorMissing
from kinds import (FROM_RESIDUAL, TRY_BRANCH, bool_branch, edge_dominates, enclosing_loop,
                   is_call_to, loop_exits, must_pass, origin, result_disposition, self_field,
                   try_split, strip_bool)

EXPLANATION = (
    "(R9) bounded structured-program semantics by abstract interpretation of the MIR: every configuration tree with at most 4 nodes "
    "(5 in the thorough tier; sequences of up to 3 children, while, if / if-else, scope, opaque leaf components: 282 programs), every "
    "condition script (loops 0-2 passes, branches both ways) and every single fault (each leaf / condition failing in init, require, "
    "execute / evaluate) is evaluated on Configuration::run with the REAL Block / Loop / Branch / Scope / State::with_inner_state / "
    "StateReq code (virtual calls resolved by the abstract value's type, fn-pointer fields called, the registry one symbol per scope); "
    "the recorded trace (phase, node, scope level, loop counter visible to the node) equals the trace of the corresponding structured "
    "program, the result is Ok / the first error, and every opened scope is closed again. (R5, all paths of the CFG) with_inner_state "
    "restores the parent registry from into_parent() on every Ok and Err return. (R6, K6) every structuring method of the builder "
    "appends exactly the node it names, built from its condition and from what the body closures produced on a FRESH builder, if / else "
    "bodies in their roles; build() is the block of all components. (R7) no Result is dropped in the lifecycle files. (R8, K6) "
    "StateReq::require is Ok iff the state contains T. NOT decided: programs beyond the size bound (the node implementations are loops "
    "over children / straight-line code, larger programs add no new paths through them); what user components do. ")
EXPLANATION += " " + '(R9 revised) the loop counters of the bounded program semantics are cells of the typed store (K19), so a counter reset through insert, the entry API, set_value or an in-place write is judged by the scope that ends up holding which count.'
ASSUMPTIONS = ["leaf components and conditions are opaque: they record their call and return Ok / the scripted value / the injected error",
               "the reference structured-program interpreter in rules/progsem.py (40 lines) is the specification of the property statement"]

COMPONENT = "mahf::components::Component"
CONDITION = "mahf::conditions::Condition"
CF = "mahf::components::control_flow::"
LG = "mahf::conditions::logical::"
PHASE_KEYS = {
    COMPONENT + "::init": ("component", "init"),
    COMPONENT + "::require": ("component", "require"),
    COMPONENT + "::execute": ("component", "execute"),
    CONDITION + "::init": ("condition", "init"),
    CONDITION + "::require": ("condition", "require"),
    CONDITION + "::evaluate": ("condition", "evaluate"),
}


def phase_calls(body):
    """[(bb, kind, phase, receiver_expr, term)] for every trait-level lifecycle call in the body"""
    out = []
    for bb, t in body.calls():
        k = t["f"].get("key")
        if k in PHASE_KEYS:
            kind, phase = PHASE_KEYS[k]
            recv = body.expr_of_op(t["args"][0])
            out.append((bb, kind, phase, recv, t))
    return out


def err_blocks(body):
    """blocks that belong to an Err exit: Break arms of `?`, explicit Err aggregates into _0, and the `Err(..)` arm of a
    `match` / `if let` on a Result when that arm builds an Err value and no Ok value (`Err(e) => Err(e).wrap_err(..)`,
    `Err(e) => return Err(e.into())` - the hand-written forms of `?`)"""
    out = set()
    for b in body.normal_blocks():
        t = body.term(b)
        if is_call_to(t, FROM_RESIDUAL):
            out.add(b)
        for st in body.stmts(b):
            if st[0] == "=" and st[1] == [0, []] and st[2][0] == "agg" and st[2][1].get("vname") == "Err":
                out.add(b)
    for b in body.normal_blocks():
        t = body.term(b)
        if t["k"] != "switch":
            continue
        # the scrutinee: `_d = discriminant(place)` in this block, `place` a Result
        d_op = t["discr"]
        ty = ""
        if isinstance(d_op, list) and d_op[0] in ("move", "copy") and not d_op[1][1]:
            for st in body.stmts(b):
                if st[0] == "=" and st[1] == [d_op[1][0], []] and st[2][0] == "discr":
                    try:
                        ty = body.local_ty(st[2][1][0]) or ""
                    except Exception:
                        ty = ""
        if not ty.lstrip("&").replace("mut ", "").startswith("core::result::Result<"):
            continue
        arm = next((tb for (v, tb) in t["targets"] if v == 1), None)
        if arm is None and len(t["targets"]) == 1 and t["targets"][0][0] == 0:
            arm = t.get("otherwise")
        if arm is None:
            continue
        region = {x for x in body.reachable_from(arm) if body.dominates(arm, x)}
        builds = [st[2][1].get("vname") for x in region for st in body.stmts(x) if st[0] == "=" and st[2][0] == "agg" and st[2][1].get("vname") in ("Ok", "Err")]
        if "Err" in builds and "Ok" not in builds:
            out |= region
    return out


def on_every_ok_path(body, site_bb):
    """every path from entry to a return that does not go through an Err exit passes site_bb"""
    return must_pass(body, 0, lambda b: b == site_bb, excluded_blocks=err_blocks(body)) is None


def propagated(body, bb):
    return result_disposition(body, bb) in ("try", "returned")


def ok_dominates(body, call_bb, site_bb):
    """site is only reachable through the Ok continuation of the `?` applied to the call"""
    sp = try_split(body, call_bb)
    if sp is None:
        return False
    cont, brk = sp
    return body.dominates(cont, site_bb) and site_bb not in body.reachable_from(brk)


ITER_ADAPTERS_OK = {"iter", "into_iter", "next", "deref", "as_slice", "as_ref"}


def check_sequence(ctx, rule, fn, expected, in_loop_field=None):
    """expected: list of (field_index, kind, phase, optional).  Checks that the body's lifecycle calls
    are exactly these, in dominance order, each propagated, each on every Ok path (unless optional)."""
    body = fn.body
    calls = phase_calls(body)
    item = fn.key
    got = []
    for (bb, kind, phase, recv, t) in calls:
        got.append((self_field(recv), kind, phase, bb, recv))
    exp_keys = [(f, k, p) for (f, k, p, _o) in expected]
    got_keys = [(f, k, p) for (f, k, p, _bb, _r) in got]
    ctx.check(sorted(got_keys, key=str) == sorted(exp_keys, key=str), rule, item, "call-set",
              "lifecycle calls are %s, expected %s" % (got_keys, exp_keys), detail=str(got_keys), loc=fn.loc())
    prev_bb = None
    for (f, k, p, optional) in expected:
        m = [g for g in got if (g[0], g[1], g[2]) == (f, k, p)]
        if len(m) != 1:
            continue
        bb, recv = m[0][3], m[0][4]
        inst = "field%d.%s" % (f, p)
        line = body.term(bb).get("line")
        ctx.check(propagated(body, bb), rule, item, inst + ":propagated",
                  "Result of the child's %s is not propagated with `?`/return (%s)" % (p, result_disposition(body, bb)),
                  loc=fn.loc(line))
        lp = enclosing_loop(body, bb)
        if in_loop_field is not None and f == in_loop_field:
            leaf, cs, fields = origin(recv)
            bad = [c for c in cs if c not in ITER_ADAPTERS_OK]
            ctx.check(lp is not None and not bad, rule, item, inst + ":iteration",
                      "children are not visited by a plain iteration over the field (adapters: %s)" % cs,
                      detail="adapters=%s" % cs, loc=fn.loc(line))
            if lp is not None:
                # loop exits: exhaustion of the iterator or an Err exit
                errs = err_blocks(body)
                exits = loop_exits(body, lp[1])
                bad_exits = []
                for (s, d) in exits:
                    if d in errs:
                        continue
                    # exhaustion: the source block switches on the discriminant of `next()`
                    t = body.term(s)
                    okx = False
                    if t["k"] == "switch":
                        e = body.expr_of_op(t["discr"])
                        if e[0] == "discr":
                            inner = strip(e[1])
                            if inner[0] == "call" and inner[3]["f"].get("name") == "next":
                                okx = True
                    if not okx:
                        bad_exits.append((s, d))
                ctx.check(not bad_exits, rule, item, inst + ":loop-exits",
                          "the loop over the children has an exit that is neither exhaustion nor an error: %s" % bad_exits,
                          loc=fn.loc(line))
        else:
            ctx.check(lp is None, rule, item, inst + ":once",
                      "child phase call sits in a loop (not exactly once)", loc=fn.loc(line))
            if not optional:
                ctx.check(on_every_ok_path(body, bb), rule, item, inst + ":every-ok-path",
                          "a successful return of %s skips the child's %s" % (fn.name, p), loc=fn.loc(line))
        if prev_bb is not None:
            ctx.check(ok_dominates(body, prev_bb, bb), rule, item, inst + ":order",
                      "child's %s is not ordered after the Ok continuation of the preceding phase call" % p,
                      loc=fn.loc(line))
        if not optional or True:
            prev_bb = bb if not optional else prev_bb


def r1_run(ctx):
    f = ctx.facts.fn("mahf::configuration::Configuration::run")
    check_sequence(ctx, "C03.R1", f, [(0, "component", "init", False), (0, "component", "require", False),
                                     (0, "component", "execute", False)])
    # the requirements passed are those of the state argument
    body = f.body
    for (bb, kind, phase, recv, t) in phase_calls(body):
        if phase == "require":
            e = body.expr_of_op(t["args"][2])
            keys = [x[1] for x in subexprs(e) if x[0] == "call"]
            leaf, cs, fields = origin(e)
            ctx.check("mahf::state::State::requirements" in keys and leaf == ("arg", 3), "C03.R1", f.key, "requirements-of-state",
                      "require is not checked against state.requirements() of the run's state: %s" % expr_str(e),
                      loc=f.loc(t.get("line")))
    # optimize / optimize_with call run once, after their inserts, and propagate
    for nm in ("optimize", "optimize_with"):
        g = ctx.facts.fn("mahf::configuration::Configuration::" + nm)
        runs = g.body.call_sites(lambda c: c.get("key") == "mahf::configuration::Configuration::run")
        ok = len(runs) == 1 and propagated(g.body, runs[0][0]) and enclosing_loop(g.body, runs[0][0]) is None
        ctx.check(ok, "C03.R1", g.key, "runs-once", "%s does not call run exactly once with `?`" % nm, loc=g.loc())
        if len(runs) == 1:
            ins = g.body.call_sites(lambda c: c.get("key") == "mahf::state::registry::StateRegistry::insert")
            after = g.body.reachable_from(runs[0][0]) - {runs[0][0]}
            late = [b for b, _ in ins if b in after]
            early = [b for b, _ in ins if g.body.dominates(b, runs[0][0])]
            ctx.check(not late and len(early) >= 2, "C03.R1", g.key, "inserts-before-run",
                      "a state insert does not precede run()", loc=g.loc())
            ctx.check(on_every_ok_path(g.body, runs[0][0]), "C03.R1", g.key, "run-on-every-ok-path",
                      "a successful return skips run()", loc=g.loc())


def r2_delegation(ctx):
    F = ctx.facts
    block = CF + "Block"
    for ph in ("init", "require", "execute"):
        check_sequence(ctx, "C03.R2", F.method(block, ph, COMPONENT), [(0, "component", ph, False)], in_loop_field=0)
    lp = CF + "Loop"
    ci = F.field_index(lp, "condition")
    bi = F.field_index(lp, "body")
    check_sequence(ctx, "C03.R2", F.method(lp, "init", COMPONENT), [(ci, "condition", "init", False), (bi, "component", "init", False)])
    check_sequence(ctx, "C03.R2", F.method(lp, "require", COMPONENT), [(ci, "condition", "require", False), (bi, "component", "require", False)])
    br = CF + "Branch"
    c = F.field_index(br, "condition")
    i = F.field_index(br, "if_body")
    e = F.field_index(br, "else_body")
    for ph in ("init", "require"):
        fn = F.method(br, ph, COMPONENT)
        check_sequence(ctx, "C03.R2", fn, [(c, "condition", ph, False), (i, "component", ph, False), (e, "component", ph, True)])
        # the optional else child: its call is guarded only by the Some test of else_body
        body = fn.body
        for (bb, kind, phase, recv, t) in phase_calls(body):
            if self_field(recv) == e:
                # every Ok path on which else_body is Some passes the call: the only way around it is the None edge
                # find the switch on discriminant of self.else_body
                sw = [b for b in body.normal_blocks() if body.term(b)["k"] == "switch"
                      and body.expr_of_op(body.term(b)["discr"])[0] == "discr"
                      and self_field(body.expr_of_op(body.term(b)["discr"])[1]) == e]
                good = False
                if len(sw) == 1:
                    t2 = body.term(sw[0])
                    some = [b for v, b in t2["targets"] if v == 1] or [t2["otherwise"]]
                    path = must_pass(body, some[0], lambda b: b == bb, excluded_blocks=err_blocks(body))
                    good = path is None
                ctx.check(good, "C03.R2", fn.key, "else-when-some", "else_body's %s is skipped although else_body is Some" % ph,
                          loc=fn.loc(t.get("line")))
    # Scope: must not initialise or check its body in the parent state (body is initialised per entry)
    sc = CF + "Scope"
    for ph in ("init", "require"):
        k = "<%s as %s>::%s" % (sc, COMPONENT, ph)
        fs = F.fns.get(k)
        if not fs:
            ctx.ok("C03.R2", k, "absent", "Scope does not override %s" % ph)
        else:
            calls = phase_calls(fs[0].body)
            ctx.check(not calls, "C03.R2", k, "no-parent-phase",
                      "Scope::%s delegates to its body in the parent state (body must be initialised per entry, on the child state)" % ph,
                      loc=fs[0].loc())
    # default phases of the traits are no-ops
    for tr in (COMPONENT, CONDITION):
        for ph in ("init", "require"):
            d = F.fn_opt("%s::%s" % (tr, ph))
            if d is not None:
                ncalls = len(list(d.body.calls()))
                ctx.check(ncalls == 0, "C03.R2", d.key, "default-noop", "default %s performs calls" % ph, loc=d.loc())
    # logical conditions
    for nm in ("And", "Or"):
        adt = LG + nm
        for ph in ("init", "require"):
            check_sequence(ctx, "C03.R2", F.method(adt, ph, CONDITION), [(0, "condition", ph, False)], in_loop_field=0)
    nt = LG + "Not"
    for ph in ("init", "require", "evaluate"):
        check_sequence(ctx, "C03.R2", F.method(nt, ph, CONDITION), [(0, "condition", ph, False)])


def find_increment(body, counter_ty):
    """blocks that store (old + 1) into a value obtained from a registry accessor instantiated with
    counter_ty.  returns [(bb, const)]"""
    out = []
    for b in sorted(body.normal_blocks()):
        for st in body.stmts(b):
            if st[0] != "=" or "*" not in st[1][1]:
                continue
            tgt = body.expr_of_place(st[1])
            leaf, cs, _ = origin(tgt)
            calls = [x for x in subexprs(tgt) if x[0] == "call"]
            if not any(counter_ty in (c[3]["f"].get("gargs") or []) for c in calls):
                continue
            val = body.expr_of_rv(st[2])
            # (AddWithOverflow(x, c)).0  or Add(x, c)
            v = val
            if v[0] == "field" and v[2] == 0:
                v = v[1]
            if v[0] == "bin" and v[1] in ("Add", "AddWithOverflow", "AddUnchecked"):
                c = v[3] if v[3][0] == "const" else v[2] if v[2][0] == "const" else None
                out.append((b, c[2] if c else None))
            else:
                out.append((b, "non-increment:" + expr_str(val)))
    # set_value(get_value()+1) idiom
    for b, t in body.calls():
        if t["f"].get("name") == "set_value" and counter_ty in (t["f"].get("gargs") or []):
            val = body.expr_of_op(t["args"][-1])
            if val[0] == "field" and val[2] == 0:
                val = val[1]
            if val[0] == "bin" and val[1] in ("Add", "AddWithOverflow"):
                c = val[3] if val[3][0] == "const" else None
                out.append((b, c[2] if c else None))
            else:
                out.append((b, "non-increment:" + expr_str(val)))
    return out


def r3_loop_execute(ctx):
    F = ctx.facts
    lp = CF + "Loop"
    ci = F.field_index(lp, "condition")
    bi = F.field_index(lp, "body")
    fn = F.method(lp, "execute", COMPONENT)
    body = fn.body
    calls = phase_calls(body)
    sig = sorted((self_field(r), k, p) for (_b, k, p, r, _t) in calls)
    want = sorted([(ci, "condition", "init"), (ci, "condition", "evaluate"), (bi, "component", "execute")])
    if not ctx.check(sig == want, "C03.R3", fn.key, "call-set", "lifecycle calls in Loop::execute are %s, expected %s" % (sig, want), loc=fn.loc()):
        return
    A = [c for c in calls if c[2] == "init"][0]
    B = [c for c in calls if c[2] == "evaluate"][0]
    C = [c for c in calls if c[2] == "execute"][0]
    for c in (A, B, C):
        ctx.check(propagated(body, c[0]), "C03.R3", fn.key, c[2] + ":propagated", "Result of %s not propagated" % c[2], loc=fn.loc(c[4].get("line")))
    L = enclosing_loop(body, B[0])
    ctx.check(L is not None and A[0] not in (L[1] if L else ()) and ok_dominates(body, A[0], B[0]), "C03.R3", fn.key, "reinit-before-loop",
              "condition.init does not run exactly once before the loop test", loc=fn.loc(A[4].get("line")))
    if L is None:
        return
    header, blks = L
    # the loop test: the bool result of evaluate decides continue/exit
    sp = try_split(body, B[0])
    test_ok = False
    true_bb = false_bb = None
    sw_bb = None
    if sp:
        cont, brk = sp
        # the switch on the bool: first switch reachable from cont whose discriminant derives from B's result
        for b in sorted(body.reachable_from(cont)):
            bb_ = bool_branch(body, b)
            if bb_:
                e, tb, fb = bb_
                neg, inner = strip_bool(e)
                leaf, cs, _ = origin(inner)
                if "evaluate" in cs or any(x[0] == "call" and x[1] == CONDITION + "::evaluate" for x in subexprs(inner)):
                    true_bb, false_bb = (fb, tb) if neg else (tb, fb)
                    sw_bb = b
                    test_ok = True
                    break
    ctx.check(test_ok, "C03.R3", fn.key, "test-is-evaluate", "the loop is not controlled by condition.evaluate()", loc=fn.loc())
    if not test_ok:
        return
    ctx.check(edge_dominates(body, sw_bb, true_bb, C[0]) and C[0] in blks, "C03.R3", fn.key, "body-on-true-edge",
              "body.execute is not confined to the true edge of the loop test", loc=fn.loc(C[4].get("line")))
    ctx.check(false_bb not in blks or not (body.reachable_from(false_bb) & {C[0]}), "C03.R3", fn.key, "false-edge-exits",
              "the false edge of the loop test does not leave the loop", loc=fn.loc())
    errs = err_blocks(body)
    bad = [(s, d) for (s, d) in loop_exits(body, blks) if d not in errs and not (s == sw_bb and d == false_bb)]
    ctx.check(not bad, "C03.R3", fn.key, "only-exit-is-test", "the loop has an exit other than the failed test or an error: %s" % bad, loc=fn.loc())
    # the test happens before every pass: body.execute is not reachable from loop entry without the test
    ctx.check(body.dominates(sw_bb, C[0]), "C03.R3", fn.key, "test-before-every-pass", "body.execute can run without the test", loc=fn.loc())
    # counter
    incs = find_increment(body, "mahf::state::common::Iterations")
    ctx.check(len(incs) == 1 and incs[0][1] == 1, "C03.R3", fn.key, "increment-by-one",
              "Iterations is not incremented by exactly the constant 1 at exactly one site: %s" % incs, detail=str(incs), loc=fn.loc())
    if len(incs) == 1:
        d = incs[0][0]
        ctx.check(d in blks and ok_dominates(body, C[0], d), "C03.R3", fn.key, "increment-after-body",
                  "the counter increment is not ordered after the successful body execution inside the loop", loc=fn.loc())
        spc = try_split(body, C[0])
        if spc:
            path = must_pass(body, spc[0], lambda b: b == d, goal=lambda b: b == header, excluded_blocks=errs)
            ctx.check(path is None, "C03.R3", fn.key, "increment-every-pass", "a completed pass reaches the next test without incrementing Iterations (path %s)" % path, loc=fn.loc())
        inner = enclosing_loop(body, d)
        ctx.check(inner is not None and inner[0] == header, "C03.R3", fn.key, "increment-once-per-pass", "increment sits in an inner loop", loc=fn.loc())
    # Loop::init inserts Iterations(0) into the top scope
    ini = F.method(lp, "init", COMPONENT)
    ins = ini.body.call_sites(lambda c: c.get("key") == "mahf::state::registry::StateRegistry::insert" and c.get("gargs") == ["mahf::state::common::Iterations"])
    good = False
    if len(ins) == 1:
        v = strip(ini.body.expr_of_op(ins[0][1]["args"][1]))
        good = v[0] == "agg" and v[2] == "mahf::state::common::Iterations" and v[4] and v[4][0][0] == "const" and v[4][0][2] == 0
        pc = phase_calls(ini.body)
        good = good and all(ini.body.dominates(ins[0][0], c[0]) for c in pc)
    ctx.check(good, "C03.R3", ini.key, "insert-zero-counter", "Loop::init does not insert Iterations(0) (top scope) before initialising its children", loc=ini.loc())


def r4_branch_execute(ctx):
    F = ctx.facts
    br = CF + "Branch"
    c = F.field_index(br, "condition")
    i = F.field_index(br, "if_body")
    e = F.field_index(br, "else_body")
    fn = F.method(br, "execute", COMPONENT)
    body = fn.body
    calls = phase_calls(body)
    sig = sorted((self_field(r), k, p) for (_b, k, p, r, _t) in calls)
    want = sorted([(c, "condition", "evaluate"), (i, "component", "execute"), (e, "component", "execute")])
    if not ctx.check(sig == want, "C03.R4", fn.key, "call-set", "lifecycle calls in Branch::execute are %s, expected %s" % (sig, want), loc=fn.loc()):
        return
    B = [x for x in calls if x[2] == "evaluate"][0]
    IF = [x for x in calls if self_field(x[3]) == i][0]
    EL = [x for x in calls if self_field(x[3]) == e][0]
    for x in (B, IF, EL):
        ctx.check(propagated(body, x[0]), "C03.R4", fn.key, "field%s:propagated" % self_field(x[3]), "Result not propagated", loc=fn.loc(x[4].get("line")))
        ctx.check(enclosing_loop(body, x[0]) is None, "C03.R4", fn.key, "field%s:once" % self_field(x[3]), "call sits in a loop", loc=fn.loc())
    sp = try_split(body, B[0])
    found = None
    if sp:
        for b in sorted(body.reachable_from(sp[0])):
            bb_ = bool_branch(body, b)
            if bb_:
                ex, tb, fb = bb_
                neg, inner = strip_bool(ex)
                if any(x[0] == "call" and x[1] == CONDITION + "::evaluate" for x in subexprs(inner)):
                    found = (b, fb, tb) if neg else (b, tb, fb)
                    break
    if not ctx.check(found is not None, "C03.R4", fn.key, "test-is-evaluate", "no branch on condition.evaluate()", loc=fn.loc()):
        return
    sw, tb, fb = found
    ctx.check(edge_dominates(body, sw, tb, IF[0]), "C03.R4", fn.key, "if-on-true-edge", "if_body.execute is not confined to the true edge", loc=fn.loc(IF[4].get("line")))
    ctx.check(edge_dominates(body, sw, fb, EL[0]), "C03.R4", fn.key, "else-on-false-edge", "else_body.execute is not confined to the false edge", loc=fn.loc(EL[4].get("line")))
    errs = err_blocks(body)
    ctx.check(must_pass(body, tb, lambda b: b == IF[0], excluded_blocks=errs) is None, "C03.R4", fn.key, "if-always-on-true",
              "the true edge can return Ok without executing if_body", loc=fn.loc())
    # on the false edge: else_body runs whenever it is Some
    sws = [b for b in body.reachable_from(fb) if body.term(b)["k"] == "switch"
           and body.expr_of_op(body.term(b)["discr"])[0] == "discr"
           and self_field(body.expr_of_op(body.term(b)["discr"])[1]) == e]
    good = False
    if len(sws) == 1:
        t2 = body.term(sws[0])
        some = [b for v, b in t2["targets"] if v == 1] or [t2["otherwise"]]
        good = must_pass(body, some[0], lambda b: b == EL[0], excluded_blocks=errs) is None and body.dominates(sws[0], EL[0])
    ctx.check(good, "C03.R4", fn.key, "else-when-some", "else_body is not executed exactly when present on the false edge", loc=fn.loc())


def r5_scopes(ctx):
    F = ctx.facts
    fn = F.fn("mahf::state::State::with_inner_state")
    body = fn.body
    reg = F.field_index("mahf::state::State", "registry")

    def is_self_registry(p):
        return p[0] == 1 and len(p[1]) >= 2 and p[1][0] == "*" and p[1][1][0] == "f" and p[1][1][1] == reg and len(p[1]) == 2

    # take-out events: mem::take/replace/swap on &mut self.registry, or a move out of it
    takes = []
    for bb, t in body.calls():
        if t["f"].get("key") in ("core::mem::take", "core::mem::replace", "core::mem::swap"):
            e = body.expr_of_op(t["args"][0])
            if self_field(e) == reg:
                takes.append(bb)
    for b in sorted(body.normal_blocks()):
        for st in body.stmts(b):
            if st[0] == "=" and st[2][0] == "use" and st[2][1][0] == "move":
                p = st[2][1][1]
                if is_self_registry(p):
                    takes.append(b)
    if not ctx.check(len(takes) >= 1, "C03.R5", fn.key, "take-out", "no site takes the parent registry out of self (anchor)", kind="anchor-missing", loc=fn.loc()):
        return

    def restores(b):
        for st in body.stmts(b):
            if st[0] == "=" and is_self_registry(st[1]):
                return True
        t = body.term(b)
        return t["k"] == "call" and is_self_registry(t["dest"])

    for tk in takes:
        start = body.term(tk)["target"] if body.term(tk)["k"] == "call" else tk
        path = must_pass(body, start, restores)
        cls = ""
        if path:
            cls = "Err" if any(b in err_blocks(body) for b in path) else "Ok"
        ctx.check(path is None, "C03.R5", fn.key, "restore-parent-on-every-return",
                  "after the parent registry is taken out of self (bb%d) a path returns (%s exit) without assigning self.registry back: blocks %s — "
                  "a failing scope body leaves the caller with an empty state" % (tk, cls, path), loc=fn.loc())
    # restored value is the parent half of into_parent()
    for b in sorted(body.normal_blocks()):
        for st in body.stmts(b):
            if st[0] == "=" and is_self_registry(st[1]) and not body.is_cleanup(b):
                e = body.expr_of_rv(st[2])
                keys = [x[1] for x in subexprs(e) if x[0] == "call"]
                ctx.check("mahf::state::registry::StateRegistry::into_parent" in keys, "C03.R5", fn.key, "restored-from-into_parent",
                          "self.registry is restored from %s, not from into_parent()" % expr_str(e), loc=fn.loc(st[3]))
    # the closure runs on the child: f's argument derives from into_child(take(self.registry))
    fcalls = [(bb, t) for bb, t in body.calls() if t["f"].get("name") in ("call_once", "call_mut", "call") and t["f"].get("trait", "").startswith("core::ops::function")]
    okc = False
    if len(fcalls) == 1:
        e = body.expr_of_op(fcalls[0][1]["args"][1])
        keys = [x[1] for x in subexprs(e) if x[0] == "call"]
        okc = "mahf::state::registry::StateRegistry::into_child" in keys
    ctx.check(okc, "C03.R5", fn.key, "body-runs-on-child", "the scope body is not called on a state built by into_child()", loc=fn.loc())

    # Scope::execute itself (order, state_init first, merge after, child level) is decided semantically by R9


def r6_builder(ctx):
    """K6 on every structuring method of ConfigurationBuilder (the real builder, Loop / Branch / Scope / Block constructors
    inlined): starting from a builder holding [c0], each method appends exactly one node (or the given components) at
    the end, built from the condition it was given and from the components the body closure(s) produced on a FRESH
    builder, with if-body and else-body in their roles."""
    from absint import Interp, Sym, Agg, TOP, some, NONE, std_oracle, chain
    from collmodel import coll_oracle, install, Vec, load, new_vec
    F = ctx.facts
    CB = "mahf::configuration::ConfigurationBuilder"
    comp_i = F.field_index(CB, "components")
    nfields = len(F.adt(CB)["variants"][0]["fields"])
    from_impl = F.fn_opt("<alloc::boxed::Box as core::convert::From>::from")
    if from_impl is None:
        raise AnchorMissing("impl From<I: IntoIterator<Item = Box<dyn Component>>> for Box<dyn Component> not found")

    def builder(vid):
        vals = [Sym("phantom")] * nfields
        vals[comp_i] = Vec(vid)
        return Agg("adt", CB, "ConfigurationBuilder", vals)

    def describe(p, v, depth=0):
        """structure of a component value: leaf symbols, and Block / Loop / Branch / Scope with their parts"""
        h = p.mstate.get("heap", {})
        if depth > 8:
            return "?"
        if isinstance(v, Sym):
            return v.tag
        if isinstance(v, Vec):
            return [describe(p, x, depth + 1) for x in h.get(v.vid, ())]
        if isinstance(v, Agg) and v.name == CF + "Block":
            inner = describe(p, v.fields[0], depth + 1)
            return inner if isinstance(inner, list) else ["?"]
        if isinstance(v, Agg) and v.name in (CF + "Loop", CF + "Branch", CF + "Scope"):
            f = {x["name"]: x["i"] for x in F.adt(v.name)["variants"][0]["fields"]}
            out = {"node": v.name.split("::")[-1]}
            for k in ("condition", "body", "if_body", "else_body"):
                if k in f:
                    out[k] = describe(p, v.fields[f[k]], depth + 1)
            return out
        if isinstance(v, Agg) and v.name == "core::option::Option":
            return describe(p, v.fields[0], depth + 1) if v.variant == "Some" else None
        return "?"

    def run(method, args, bodies):
        fn = F.fn(CB + "::" + method)
        fresh = []

        def oracle(interp, env, f, args_, t, bb, path):
            k = f.get("key", "")
            nm = f.get("name")
            if nm in ("call_once", "call") and args_ and isinstance(load(interp, env, args_[0]), Sym) and load(interp, env, args_[0]).tag in bodies:
                tag = load(interp, env, args_[0]).tag
                b = load(interp, env, args_[1])
                if isinstance(b, Agg) and b.kind == "tuple" and b.fields:
                    b = b.fields[0]
                inner = describe_env(interp, b)
                fresh.append((tag, inner))
                v = new_vec(interp, [Sym("from:" + tag)])
                vals = [Sym("phantom")] * nfields
                vals[comp_i] = v
                return Agg("adt", CB, "ConfigurationBuilder", vals)
            if k in ("core::convert::Into::into", "core::convert::From::from") and "dyn mahf::components::Component<" in ((f.get("gargs") or ["", ""])[-1 if nm == "into" else 0]):
                src = ((f.get("cgargs") or f.get("gargs")) or ["", ""])[0 if nm == "into" else -1]
                a0v = load(interp, env, args_[0])
                if "dyn mahf::components::Component<" in src or isinstance(a0v, Sym) or (isinstance(a0v, Agg) and (a0v.name or "").startswith(CF)):
                    return args_[0]        # a component already (`impl Into<Box<dyn Component>>` instantiated with one): the reflexive conversion
                outs = interp.call_body(from_impl, [args_[0]])
                if len(outs) == 1 and outs[0][2] == "return":
                    interp.mstate.clear()
                    interp.mstate.update(outs[0][3])
                    return outs[0][0]
            return TOP

        def describe_env(interp, b):
            if isinstance(b, Agg) and b.name == CB and isinstance(b.fields[comp_i], Vec):
                return list(interp.mstate.get("heap", {}).get(b.fields[comp_i].vid, ()))
            return None
        inl = lambda k: k.startswith("mahf::configuration::ConfigurationBuilder::") or k.startswith(CF) or k.startswith("<" + CF) or k == from_impl.key
        it = install(Interp(fn.body, chain(oracle, coll_oracle, std_oracle), [builder("comps")] + args, facts=F, inline=inl, max_visits=12))
        it.init_state = {"heap": {"comps": (Sym("c0"),), "many": (Sym("m1"), Sym("m2"))}, "next_vec": 0}
        outs = []
        for p in it.run():
            if p.end != "return" or not (isinstance(p.ret, Agg) and p.ret.name == CB):
                outs.append(("%s %s" % (p.end, p.ret), None))
                continue
            outs.append((describe(p, p.ret.fields[comp_i]), list(fresh)))
        return fn, outs

    cases = [
        ("do_", [Sym("x")], {}, ["c0", "x"]),
        ("do_many_", [Vec("many")], {}, ["c0", "m1", "m2"]),
        ("do_if_some_", [some(Sym("x"))], {}, ["c0", "x"]),
        ("do_if_some_", [NONE], {}, ["c0"]),
        ("while_", [Sym("cond"), Sym("bodyfn")], {"bodyfn"}, ["c0", {"node": "Loop", "condition": "cond", "body": ["from:bodyfn"]}]),
        ("if_", [Sym("cond"), Sym("bodyfn")], {"bodyfn"}, ["c0", {"node": "Branch", "condition": "cond", "if_body": ["from:bodyfn"], "else_body": None}]),
        ("if_else_", [Sym("cond"), Sym("iffn"), Sym("elsefn")], {"iffn", "elsefn"},
         ["c0", {"node": "Branch", "condition": "cond", "if_body": ["from:iffn"], "else_body": ["from:elsefn"]}]),
        ("scope_", [Sym("bodyfn")], {"bodyfn"}, ["c0", {"node": "Scope", "body": ["from:bodyfn"]}]),
    ]
    n = 0
    for method, args, bodies, want in cases:
        fn, outs = run(method, args, bodies)
        n += 1
        bad = None
        if len(outs) != 1:
            bad = "is not decided (%d outcomes)" % len(outs)
        else:
            got, fresh = outs[0]
            if got != want:
                bad = "yields the components %s, expected %s" % (got, want)
            elif fresh is not None and any(inner != [] for (_t, inner) in fresh):
                bad = "hands a body closure a builder that is not fresh: %s" % (fresh,)
            elif fresh is not None and sorted(t for t, _ in fresh) != sorted(bodies):
                bad = "calls the body closures %s, expected each of %s once" % ([t for t, _ in fresh], sorted(bodies))
        ctx.check(bad is None, "C03.R6", fn.key, "appends-the-node-it-names:%s" % ("none" if args and args[0] is NONE else "some" if method == "do_if_some_" else method),
                  "%s(%s) on a builder holding [c0] %s" % (method, ", ".join(getattr(a, "tag", "…") if not (isinstance(a, Agg)) else a.variant for a in args), bad), loc=fn.loc())
    # build(): the configuration runs the block of all components, in order
    fn = F.fn(CB + "::build")
    it = install(Interp(fn.body, chain(coll_oracle, std_oracle), [builder("comps")], facts=F,
                        inline=lambda k: k.startswith("mahf::configuration::") or k.startswith(CF) or k.startswith("<mahf::configuration::"), max_visits=8))
    it.init_state = {"heap": {"comps": (Sym("c0"), Sym("c1"))}, "next_vec": 0}
    outs = []
    for p in it.run():
        r = p.ret
        root = r.fields[0] if isinstance(r, Agg) and r.name == "mahf::configuration::Configuration" and r.fields else None
        outs.append(describe(p, root) if root is not None else "%s %s" % (p.end, r))
    ctx.check(outs == [["c0", "c1"]], "C03.R6", fn.key, "build-is-the-block-of-all-components", "build() on components [c0, c1] yields %s" % outs, loc=fn.loc())
    ctx.count("builder_methods_evaluated", n + 1)


LIFECYCLE_FILES = ("src/components/control_flow.rs", "src/configuration.rs", "src/state/mod.rs", "src/state/require.rs",
                   "src/conditions/logical.rs", "src/components/mod.rs", "src/conditions/mod.rs")


def dropped_results(facts, files=None):
    out = []
    n = 0
    for f in facts.all_fns:
        if files is not None and f.file not in files:
            continue
        if f.from_expansion:
            continue
        for bb, t in f.body.calls():
            ret = t["f"].get("ret", "")
            if not ret.startswith("core::result::Result<"):
                continue
            if len(t.get("line", [])) > 1 and t["line"][1] not in ("Desugaring(QuestionMark)",):
                # macro-generated call (ensure!, derive): judged with the macro's own plumbing
                pass
            n += 1
            d = result_disposition(f.body, bb)
            if d == "dropped":
                out.append((f, bb, t))
    return n, out


def r7_no_dropped_result(ctx):
    n, bad = dropped_results(ctx.facts, LIFECYCLE_FILES)
    ctx.count("result_call_sites_checked", n)
    ctx.floor("C03.R7", "Result-returning call sites in the lifecycle files", n, 25)
    for f, bb, t in bad:
        ctx.violation("C03.R7", f.key, "%s@%s" % (t["f"].get("name"), _ordinal(f.body, bb, t)),
                      "the Result of %s is discarded (neither `?`, returned, matched nor passed on)" % t["f"].get("key"), loc=f.loc(t.get("line")))
    if not bad:
        ctx.ok("C03.R7", "lifecycle files", "no-dropped-result", "%d Result-returning calls, none discarded" % n)


def _ordinal(body, bb, t):
    k = t["f"].get("key")
    same = [b for b, tt in body.calls() if tt["f"].get("key") == k]
    return same.index(bb)


def r8_require(ctx):
    """K6: require::<_, T>() is Ok exactly when the state contains T, an error otherwise (both answers of contains)"""
    from absint import Interp, Sym, Agg, TOP, std_oracle, chain
    F = ctx.facts
    fn = F.fn("mahf::state::require::StateReq::require")
    bad = []
    asked = []
    for present in (True, False):
        def oracle(interp, env, f, args, t, bb, path, present=present):
            k = f.get("key", "")
            if k in ("mahf::state::registry::StateRegistry::contains", "mahf::state::registry::StateRegistry::has", "mahf::state::State::contains", "mahf::state::State::has"):
                asked.append((f.get("gargs") or [None])[0])
                return present
            if k.startswith("mahf::state::registry::StateRegistry::find") or k.startswith("mahf::state::registry::StateRegistry::try_"):
                asked.append((f.get("gargs") or [None])[0])
                return Agg("adt", "core::result::Result", "Ok" if present else "Err", [Sym("found" if present else "missing")])
            return TOP
        it = Interp(fn.body, chain(oracle, std_oracle), [Sym("self", boxlike=True)], facts=F, inline=lambda k: k.startswith("mahf::state::require::") or k.startswith("<mahf::state::require::") or k.startswith("<mahf::state::State as core::ops::deref"), max_visits=4)
        outs = {(p.end, p.ret.variant if isinstance(p.ret, Agg) else None) for p in it.run()}
        want = {("return", "Ok" if present else "Err")}
        if outs != want:
            bad.append((present, sorted(map(str, outs))))
    gen = [p["name"] for p in (fn.generics or {}).get("params", []) if p.get("kind") != "lifetime"]
    ctx.check(not bad, "C03.R8", fn.key, "missing-is-error", "state contains the required type: %s -> require() yields %s (Ok iff present is required)" % (bad[0] if bad else ("", "")), loc=fn.loc())
    ctx.check(bool(asked) and all(a == "T" for a in asked), "C03.R8", fn.key, "contains-T", "require::<_, T> does not test the presence of T (asks for %s)" % sorted(set(map(str, asked))), loc=fn.loc())
    # visibility through scopes: with the REAL registry code on a three-scope chain, require is Ok iff any enclosing scope holds T
    import c01
    from collmodel import install as _cm_install
    reg_idx = F.field_index("mahf::state::State", "registry")
    for placement, holders in c01.HOLDERS.items():
        scopes, holder, oracle = c01.scope_model(F, placement)
        st = Sym("state", {reg_idx: scopes["self"]})
        req = Agg("adt", "mahf::state::require::StateReq", None, [st])
        it = _cm_install(Interp(fn.body, oracle, [req], facts=F, inline=lambda k: k.startswith("mahf::state::") or k.startswith("<mahf::state::"), max_visits=6))
        outs = {(p.end, p.ret.variant if isinstance(p.ret, Agg) else None) for p in it.run()}
        want = {("return", "Ok" if holders else "Err")}
        ctx.check(outs == want, "C03.R8", fn.key, "sees-every-enclosing-scope:" + placement,
                  "with T %s in the chain scope -> parent -> grandparent, require() yields %s (expected %s: a requirement is met by state of any enclosing scope)"
                  % (c01.PLACEMENT_TEXT[placement], sorted(map(str, outs)), sorted(want)), loc=fn.loc())


def run(ctx):
    ctx.borrow("C03.R5", "a scope pushed by with_inner_state is popped on every exit (K6; replaces the path rule over the CFG)", "c01", "r7_inner_state", "C01.R7")
    ctx.guard("C03.R6", "builder", lambda: r6_builder(ctx))
    ctx.guard("C03.R7", "dropped results", lambda: r7_no_dropped_result(ctx))
    ctx.guard("C03.R8", "StateReq::require", lambda: r8_require(ctx))
    ctx.guard("C03.R9", "bounded program semantics", lambda: r9_program_semantics(ctx))


# ------------------------------------------------------------------ R9: bounded structured-program semantics

def r9_program_semantics(ctx):
    """Every configuration tree with at most N nodes (sequence, while, if/else, scope, opaque leaves; N = 4 quick / 5
    thorough), every condition script (loops 0..2 passes, branches both ways) and every single fault (each leaf / condition
    failing in init, require, execute / evaluate; scope init and merge failing): the trace that the MIR of
    Configuration::run produces - with the real Block / Loop / Branch / Scope / with_inner_state code and virtual calls
    resolved by the abstract value's type - equals the trace of the corresponding structured program, the result is Ok /
    the first error, every opened scope is closed again, and the loop counters seen by the components are those of the
    structured program (fresh in a scope, restored after it)."""
    import itertools
    import progsem
    F = ctx.facts
    N = 5 if ctx.tier == "thorough" else 4
    bad = []
    n_prog = n_run = 0
    for size in range(1, N + 1):
        for shape in progsem.trees(size):
            t = progsem.number(shape, [0, 0, 0])
            n_prog += 1
            cs = progsem.conds(t)
            script_sets = []
            for kid, kind in cs:
                script_sets.append([(kid, s) for s in ([(False,), (True, False), (True, True, False)] if kind == "W" else [(True,), (False,)])])
            lf = progsem.leaves(t)
            for combo in (itertools.product(*script_sets) if script_sets else [()]):
                script = {kid: list(s) for kid, s in combo}
                # multiply nested loop scripts: an inner loop re-reads its script from the start only once; keep scripts short
                faults = [None] + [(l, ph, 1) for l in lf for ph in ("init", "require", "execute")] + [(kid, ph, 1) for kid, _ in cs for ph in ("init", "evaluate")]
                if size >= 4 and ctx.tier != "thorough":
                    faults = faults[:1] + faults[1::3]
                for fault in faults:
                    n_run += 1
                    label = (progsem.show(t), {k: v for k, v in script.items()}, fault)
                    why = progsem.compare(F, t, script, fault)
                    if why:
                        bad.append(label + (why,))
                    if len(bad) > 5:
                        break
                if len(bad) > 5:
                    break
            if len(bad) > 5:
                break
    cfgrun = F.fn("mahf::configuration::Configuration::run")
    ctx.check(not bad, "C03.R9", cfgrun.key, "trace-equals-structured-program",
              "program `%s`, condition scripts %s, fault %s: the configuration %s" % (bad[0] if bad else ("", "", "", "")),
              detail="%d programs up to %d nodes, %d runs" % (n_prog, N, n_run), loc=cfgrun.loc())
    ctx.count("programs", n_prog)
    ctx.count("program_runs", n_run)
    ctx.floor("C03.R9", "program runs", n_run, 300)
