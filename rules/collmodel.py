"""Bounded collection model for K6: vectors (heap cells holding tuples of abstract values), element
references, and iterator values, with the std operations the crate's operators use.  Objective values are
opaque symbols related only by a scenario-supplied weak ordering (a finite set of orderings), so every
comparison is decided and nothing else about them is known."""
from absint import Agg, HRef, Ref, Sym, TOP, some, NONE, Event, href_get, href_set


import os as _os
_DEBUG = bool(_os.environ.get("MAHF_SA_DEBUG"))


class Vec:
    """handle of a heap vector"""

    def __init__(self, vid, borrowed=False, lo=None, hi=None):
        self.vid = vid
        self.borrowed = borrowed   # the handle stands for `&[T]` / `&Vec<T>`: iterating it yields references
        self.lo = lo               # sub-slice view [lo, hi) of the heap vector (None: the whole vector)
        self.hi = hi

    def __repr__(self):
        return "Vec(%s%s%s)" % ("&" if self.borrowed else "", self.vid, "" if self.lo is None else "[%d..%d]" % (self.lo, self.hi))

    def __eq__(self, o):
        return isinstance(o, Vec) and (o.vid, o.lo, o.hi) == (self.vid, self.lo, self.hi)

    def __hash__(self):
        return hash(("Vec", self.vid, self.lo, self.hi))


class Undecided(Exception):
    """a lazily mapped item could not be evaluated to a single outcome"""


import absint as _absint
_CUR = _absint.CURRENT      # the interpreter on whose behalf the collection model is currently answering (set by the interpreter itself)


class LazyItems:
    """the items of `iter.map(f)`: f is applied when an item is taken - in iteration order, one item at a time, so a consumer
    that stops early (collect into a Result, find, any, all, position, a `for` loop with `break` / `?`) never runs f on the
    rest, exactly as the real lazy adapter.  Nothing is cached: every element access applies the closures once."""

    def __init__(self, base, fns, owner=None):
        self.base = tuple(base)
        self.fns = tuple(fns)
        self.owner = owner or _CUR[0]     # the interpreter that built the adapter (used when a rule's own oracle takes the items)

    def _get(self, i):
        x = self.base[i]
        for fv in self.fns:
            x = _call1(_CUR[0] or self.owner, fv, [x])
            if x is None:
                raise Undecided()
        return x

    def __len__(self):
        return len(self.base)

    def __bool__(self):
        return bool(self.base)

    def __iter__(self):
        for i in range(len(self.base)):
            yield self._get(i)

    def __getitem__(self, k):
        if isinstance(k, slice):
            return LazyItems(self.base[k], self.fns, self.owner)
        return self._get(k)

    def __add__(self, other):
        return tuple(self) + tuple(other)

    def __radd__(self, other):
        return tuple(other) + tuple(self)


class It:
    """iterator value: the remaining items"""

    def __init__(self, items, adapters=(), extra=None):
        self.items = items if isinstance(items, LazyItems) else tuple(items)
        self.adapters = tuple(adapters)
        self.extra = extra or {}     # e.g. the remainder of chunks_exact

    def __repr__(self):
        return "It%s" % (self.items,)


def heap(interp):
    return interp.mstate.setdefault("heap", {})


def heap_get(interp, vid):
    return interp.mstate.get("heap", {}).get(vid, ())


def heap_set(interp, vid, items):
    h = dict(interp.mstate.get("heap", {}))
    h[vid] = tuple(items)
    interp.mstate["heap"] = h


def view_get(interp, v):
    items = heap_get(interp, v.vid)
    return items if v.lo is None else items[v.lo:v.hi]


def view_set(interp, v, new):
    """replace what the handle denotes (a view keeps its length)"""
    if v.lo is None:
        heap_set(interp, v.vid, new)
        return
    full = list(heap_get(interp, v.vid))
    new = list(new)
    if len(new) == v.hi - v.lo:
        full[v.lo:v.hi] = new
        heap_set(interp, v.vid, full)


def store_ref(interp, env, r, val):
    """write through an element / local reference"""
    if isinstance(r, HRef):
        return href_set(interp, env, r, val)
    if isinstance(r, Ref):
        interp.write_ref(env, r, val)
        return True
    return False


def new_vec(interp, items=()):
    n = interp.mstate.get("next_vec", 0)
    interp.mstate["next_vec"] = n + 1
    vid = "tmp%d" % n
    heap_set(interp, vid, items)
    return Vec(vid)


def load(interp, env, v, depth=0):
    """follow references to the value they denote"""
    while depth < 8:
        depth += 1
        if isinstance(v, Ref):
            v = interp.read_ref(env, v)
        elif isinstance(v, HRef):
            v = href_get(interp, env, v)
        else:
            return v
    return v


def load1(interp, env, v):
    """one dereference step (`&T -> T`): an element reference yields the element, which may itself be a reference"""
    if isinstance(v, Ref):
        return interp.read_ref(env, v)
    if isinstance(v, HRef):
        return href_get(interp, env, v)
    return v


def veq(interp, env, a, b):
    a, b = load(interp, env, a), load(interp, env, b)
    if a is TOP or b is TOP:
        return TOP
    if isinstance(a, Agg) and isinstance(b, Agg):
        if (a.kind, a.name, a.variant, len(a.fields)) != (b.kind, b.name, b.variant, len(b.fields)):
            return False
        for x, y in zip(a.fields, b.fields):
            r = veq(interp, env, x, y)
            if r is TOP:
                return TOP
            if not r:
                return False
        return True
    if isinstance(a, Sym) and isinstance(b, Sym):
        # objective symbols are equal exactly when their ranks are
        ra, rb = rank(interp, env, a), rank(interp, env, b)
        if ra is not None and rb is not None:
            return ra == rb
        return a.tag == b.tag
    if isinstance(a, Vec) and isinstance(b, Vec):
        ia, ib = view_get(interp, a), view_get(interp, b)
        if len(ia) != len(ib):
            return False
        for x, y in zip(ia, ib):
            r = veq(interp, env, x, y)
            if r is not True:
                return r
        return True
    try:
        return a == b
    except Exception:
        return TOP


def new_ref(interp, x):
    """a reference to a temporary holding x (for closures that take their argument by reference)"""
    if isinstance(x, (Ref, HRef)):
        return x
    tmp = new_vec(interp, [x])
    return HRef(tmp.vid, 0)


def rank(interp, env, v):
    v = load(interp, env, v)
    if isinstance(v, Sym):
        r = interp.mstate.get("rank", {}).get(v.tag)
        if r is not None:
            return r
        if "inner" in v.fields:
            return rank(interp, env, v.fields["inner"])
        return None
    if isinstance(v, Agg) and v.name == "core::cmp::Reverse" and v.fields:
        r = rank(interp, env, v.fields[0])
        return None if r is None else -r
    if isinstance(v, Agg) and v.fields and len(v.fields) == 1:
        return rank(interp, env, v.fields[0])
    if isinstance(v, (int, float)) and not isinstance(v, bool):
        return v
    return None


def _call1(interp, fv, args):
    """call a function value; single deterministic outcome or None"""
    outs = interp.call_value(fv, args)
    if _DEBUG and outs:
        for o in outs:
            print("    [closure %s] -> %s %s" % (getattr(fv, "name", fv), o[2], o[0]))
            for e in o[1]:
                if e.kind == "call" and e.data[3] is TOP:
                    print("        TOP %s %s" % (e.data[0], e.data[2]))
    if not outs:
        return None
    rets = [o for o in outs if o[2] == "return"]
    if len(outs) != 1 or len(rets) != 1:
        return None
    ms = dict(rets[0][3])
    interp.mstate.clear()
    interp.mstate.update(ms)
    return rets[0][0]


def iter_items(interp, env, v):
    """items an iterable value yields (elements of vectors by reference)"""
    v0 = v
    v = load(interp, env, v) if not isinstance(v, (Vec, It)) else v
    if isinstance(v, It):
        prev = _CUR[0]
        _CUR[0] = interp
        try:
            return list(v.items)
        except Undecided:
            return None
        finally:
            _CUR[0] = prev
    if isinstance(v, Vec):
        by_value = isinstance(v0, Vec) and not v0.borrowed
        items = view_get(interp, v)
        if by_value:
            return list(items)
        return [HRef(v.vid, (v.lo or 0) + i) for i in range(len(items))]
    if isinstance(v, Agg) and v.kind in ("array", "tuple", "slice"):
        return list(v.fields)
    if isinstance(v, Agg) and v.name in ("core::ops::range::Range", "core::ops::range::RangeInclusive") and len(v.fields) >= 2 \
            and all(isinstance(x, int) and not isinstance(x, bool) for x in v.fields[:2]):
        hi = v.fields[1] + (1 if v.name.endswith("Inclusive") else 0)
        return list(range(v.fields[0], hi)) if hi - v.fields[0] <= 4096 else None
    if isinstance(v, Agg) and v.name == "core::option::Option":
        return list(v.fields[:1]) if v.variant == "Some" else []
    if isinstance(v, Agg) and v.name == "core::result::Result":
        return list(v.fields[:1]) if v.variant == "Ok" else []
    return None


def vec_slice_len(interp, env, v):
    v = load(interp, env, v)
    if isinstance(v, Vec):
        return len(view_get(interp, v))
    if isinstance(v, Agg) and v.kind in ("array", "slice"):
        return len(v.fields)
    return TOP


def vec_index(interp, env, v, e):
    """hook for `v[i]` / constant-index patterns on heap vectors"""
    v = load(interp, env, v)
    if isinstance(v, Vec):
        items = view_get(interp, v)
        if e[0] == "ci":
            idx = (len(items) - e[1]) if e[2] else e[1]
        elif e[0] == "i":
            idx = env.get(e[1], TOP)
        elif e[0] == "sub":
            lo_ = (v.lo or 0) + e[1]
            hi_ = (v.lo or 0) + ((len(items) - e[2]) if e[3] else e[2])
            return Vec(v.vid, True, lo_, hi_)
        else:
            return TOP
        if isinstance(idx, int) and not isinstance(idx, bool) and 0 <= idx < len(items):
            return items[idx]
    return TOP


def _split_top(s):
    out, depth, cur = [], 0, ""
    for ch in s:
        if ch in "<([":
            depth += 1
        elif ch in ">)]":
            depth -= 1
        if ch == "," and depth == 0:
            if cur.strip():
                out.append(cur.strip())
            cur = ""
        else:
            cur += ch
    if cur.strip():
        out.append(cur.strip())
    return out


def _range_bounds(r, n):
    """[lo, hi) denoted by a range value over a sequence of length n (integer bounds only)"""
    nm = r.name.rsplit("::", 1)[-1]
    fs = r.fields
    isint = lambda x: isinstance(x, int) and not isinstance(x, bool)
    if nm == "Range" and len(fs) >= 2 and isint(fs[0]) and isint(fs[1]):
        return fs[0], fs[1]
    if nm == "RangeInclusive" and len(fs) >= 2 and isint(fs[0]) and isint(fs[1]):
        return fs[0], fs[1] + 1
    if nm == "RangeFrom" and len(fs) >= 1 and isint(fs[0]):
        return fs[0], max(n, fs[0]) if fs[0] > n else n
    if nm == "RangeTo" and len(fs) >= 1 and isint(fs[0]):
        return 0, fs[0]
    if nm == "RangeToInclusive" and len(fs) >= 1 and isint(fs[0]):
        return 0, fs[0] + 1
    if nm == "RangeFull":
        return 0, n
    return None


def install(interp):
    interp.slice_len = vec_slice_len
    interp.index_hook = vec_index
    return interp


def coll_oracle(interp, env, f, args, t, bb, path):
    prev = _CUR[0]
    _CUR[0] = interp
    try:
        return _coll_oracle(interp, env, f, args, t, bb, path)
    except Undecided:
        return TOP
    finally:
        _CUR[0] = prev


def _coll_oracle(interp, env, f, args, t, bb, path):
    k = f.get("resolved", {}).get("key") or f.get("key", "")
    dk = f.get("key", "")
    nm = f.get("name")
    a0 = args[0] if args else TOP
    v0 = load(interp, env, a0) if args else TOP
    sa = f.get("self_adt") or ""
    sty = f.get("self_ty") or ""
    unit = Agg("tuple", None, None, [])

    # ---- the free functions core::cmp::{min, max}_by_key(a, b, key): the first argument wins a tie for min, the second for max
    if dk in ("core::cmp::min_by_key", "core::cmp::max_by_key") and len(args) == 3:
        tmp_ = new_vec(interp, [args[0], args[1]])
        ka = _call1(interp, args[2], [HRef(tmp_.vid, 0)])
        kb = _call1(interp, args[2], [HRef(tmp_.vid, 1)])
        ra, rb = (rank(interp, env, ka) if ka is not None else None), (rank(interp, env, kb) if kb is not None else None)
        if ra is None or rb is None or ra != ra or rb != rb:
            return TOP
        if dk.endswith("min_by_key"):
            return args[0] if ra <= rb else args[1]
        return args[1] if rb >= ra else args[0]
    # ---- comparisons decided by the scenario's ordering
    if dk in ("core::cmp::PartialOrd::lt", "core::cmp::PartialOrd::le", "core::cmp::PartialOrd::gt", "core::cmp::PartialOrd::ge") and len(args) == 2:
        ra, rb = rank(interp, env, args[0]), rank(interp, env, args[1])
        if ra is not None and rb is not None:
            return {"lt": ra < rb, "le": ra <= rb, "gt": ra > rb, "ge": ra >= rb}[nm]
        return TOP
    if dk in ("core::cmp::PartialEq::eq", "core::cmp::PartialEq::ne") and len(args) == 2:
        r = veq(interp, env, args[0], args[1])
        if r is TOP:
            return TOP
        return r if nm == "eq" else (not r)
    if dk in ("core::cmp::Ord::cmp", "core::cmp::PartialOrd::partial_cmp") and len(args) == 2:
        ra, rb = rank(interp, env, args[0]), rank(interp, env, args[1])
        if ra is not None and rb is not None:
            if ra != ra or rb != rb:          # NaN is unordered: partial_cmp is None, a total order does not exist
                return NONE if nm == "partial_cmp" else TOP
            o = Agg("adt", "core::cmp::Ordering", "Less" if ra < rb else "Greater" if ra > rb else "Equal", [])
            return o if nm == "cmp" else some(o)
        return TOP
    if dk in ("core::cmp::Ord::min", "core::cmp::Ord::max", "core::cmp::min", "core::cmp::max") and len(args) == 2:
        ra, rb = rank(interp, env, args[0]), rank(interp, env, args[1])
        if ra is not None and rb is not None:
            if nm == "min":
                return args[0] if ra <= rb else args[1]
            return args[1] if rb >= ra else args[0]
        return TOP

    # ---- a one-element slice over a place (`slice::from_mut(&mut x)`, `array::from_mut`): the element is held by reference
    if dk in ("core::slice::from_mut", "core::slice::from_ref", "core::array::from_mut", "core::array::from_ref", "core::slice::raw::from_mut", "core::slice::raw::from_ref") and len(args) == 1 \
            and isinstance(a0, (Ref, HRef)):
        return Agg("slice", None, None, [a0])

    # ---- vectors
    if k in ("alloc::vec::Vec::new", "alloc::vec::Vec::with_capacity"):
        return new_vec(interp)
    if k in ("alloc::collections::btree::set::BTreeSet::new", "std::collections::hash::set::HashSet::new", "std::collections::HashSet::new",
             "std::collections::hash::set::HashSet::with_capacity", "std::collections::hash::set::HashSet::default") or \
            (dk == "core::default::Default::default" and ((f.get("ret") or "").startswith("std::collections::hash::set::HashSet<") or (f.get("ret") or "").startswith("alloc::collections::btree::set::BTreeSet<"))):
        return new_vec(interp)     # a set is modelled as the vector of its distinct members (insertion order)
    if isinstance(v0, Vec) and sa in ("alloc::collections::btree::set::BTreeSet", "std::collections::hash::set::HashSet", "std::collections::HashSet") and nm in ("insert", "contains", "remove") and len(args) == 2:
        items = list(view_get(interp, v0))
        x = load(interp, env, args[1])
        hit = None
        for i, y in enumerate(items):
            r = veq(interp, env, y, x)
            if r is TOP:
                return TOP
            if r:
                hit = i
                break
        if nm == "contains":
            return hit is not None
        if nm == "insert":
            if hit is None:
                view_set(interp, v0, items + [x])
            return hit is None
        if hit is not None:
            del items[hit]
            view_set(interp, v0, items)
        return hit is not None
    if isinstance(v0, Vec):
        items = list(view_get(interp, v0))
        off = v0.lo or 0

        # ---- sub-slices, rotations and bulk moves (views keep their length)
        rng_arg = load(interp, env, args[1]) if len(args) > 1 else None
        if isinstance(rng_arg, Agg) and (rng_arg.name or "").startswith("core::ops::range::Range") and \
                (dk in ("core::ops::index::Index::index", "core::ops::index::IndexMut::index_mut") or nm in ("get", "get_mut", "drain", "splice")):
            b = _range_bounds(rng_arg, len(items))
            if b is None:
                return TOP
            lo, hi = b
            bad = lo > hi or hi > len(items)
            if nm in ("get", "get_mut"):
                return NONE if bad else some(Vec(v0.vid, True, off + lo, off + hi))
            if bad:
                return "DIVERGE"
            if nm == "drain":
                view_set(interp, v0, items[:lo] + items[hi:])
                return It(items[lo:hi])
            if nm == "splice" and len(args) == 3:
                ins = iter_items(interp, env, args[2])
                if ins is None:
                    return TOP
                view_set(interp, v0, items[:lo] + [load(interp, env, x) if isinstance(x, Ref) else x for x in ins] + items[hi:])
                return It(items[lo:hi])
            return Vec(v0.vid, True, off + lo, off + hi)
        if nm in ("rotate_left", "rotate_right") and len(args) == 2 and isinstance(args[1], int) and not isinstance(args[1], bool):
            k_ = args[1]
            if k_ > len(items):
                return "DIVERGE"
            if nm == "rotate_right":
                k_ = len(items) - k_
            view_set(interp, v0, items[k_:] + items[:k_])
            return unit
        if nm in ("swap_with_slice", "clone_from_slice", "copy_from_slice") and len(args) == 2:
            src = load(interp, env, args[1])
            if not isinstance(src, Vec):
                return TOP
            other = list(view_get(interp, src))
            if len(other) != len(items):
                return "DIVERGE"
            view_set(interp, v0, other)
            if nm == "swap_with_slice":
                view_set(interp, src, items)
            return unit
        if nm in ("split_last", "split_first", "split_last_mut", "split_first_mut") and len(args) == 1:
            if not items:
                return NONE
            if nm.startswith("split_last"):
                return some(Agg("tuple", None, None, [HRef(v0.vid, off + len(items) - 1), Vec(v0.vid, True, off, off + len(items) - 1)]))
            return some(Agg("tuple", None, None, [HRef(v0.vid, off), Vec(v0.vid, True, off + 1, off + len(items))]))
        if nm in ("split_at", "split_at_mut") and len(args) == 2 and isinstance(args[1], int) and not isinstance(args[1], bool):
            m_ = args[1]
            if m_ > len(items):
                return "DIVERGE"
            return Agg("tuple", None, None, [Vec(v0.vid, True, off, off + m_), Vec(v0.vid, True, off + m_, off + len(items))])
        if nm == "fill" and len(args) == 2:
            view_set(interp, v0, [args[1]] * len(items))
            return unit
        if nm in ("len",) and (sa == "alloc::vec::Vec" or sty.startswith("[")):
            return len(items)
        if nm == "is_empty":
            return len(items) == 0
        if k == "alloc::vec::Vec::push":
            view_set(interp, v0, items + [load(interp, env, args[1]) if isinstance(args[1], Ref) else args[1]])
            return unit
        if k == "alloc::vec::Vec::split_off" and len(args) == 2 and isinstance(args[1], int) and not isinstance(args[1], bool):
            if args[1] > len(items):
                return "DIVERGE"          # `at > len` panics
            view_set(interp, v0, items[:args[1]])
            return new_vec(interp, items[args[1]:])
        if k == "alloc::vec::Vec::pop":
            if items:
                view_set(interp, v0, items[:-1])
                return some(items[-1])
            return NONE
        if k == "alloc::vec::Vec::truncate" and isinstance(args[1], int):
            view_set(interp, v0, items[:args[1]])
            return unit
        if k == "alloc::vec::Vec::truncate":
            # an unknown length: what is left is not known - the contents become one undecided element rather than staying as they were
            view_set(interp, v0, [TOP])
            return unit
        if nm in ("reserve", "reserve_exact", "shrink_to_fit", "shrink_to") and sa == "alloc::vec::Vec":
            return unit          # capacity only
        if k == "alloc::vec::Vec::clear":
            view_set(interp, v0, [])
            return unit
        if k == "alloc::vec::Vec::resize" and len(args) == 3 and isinstance(args[1], int) and not isinstance(args[1], bool):
            n_ = args[1]
            fill_ = load(interp, env, args[2]) if isinstance(args[2], Ref) else args[2]
            view_set(interp, v0, items[:n_] + [fill_] * max(0, n_ - len(items)))
            return unit
        if k == "alloc::vec::Vec::resize_with" and len(args) == 3 and isinstance(args[1], int) and not isinstance(args[1], bool):
            n_ = args[1]
            new_ = list(items[:n_])
            for _ in range(max(0, n_ - len(items))):
                r_ = _call1(interp, args[2], [])
                if r_ is None:
                    return TOP
                new_.append(r_)
                items = list(view_get(interp, v0))      # (the closure may have advanced other model state, not this vector)
            view_set(interp, v0, new_)
            return unit
        if k == "alloc::vec::Vec::extend_from_slice":
            src = load(interp, env, args[1])
            if isinstance(src, Agg) and src.kind in ("slice", "array"):
                # a modelled sub-slice holds its elements BY REFERENCE (places of the underlying vector): they are copied out;
                # an array literal holds its elements themselves (which may be references: `&[individual, best]`)
                view_set(interp, v0, items + [load1(interp, env, x) if (src.kind == "slice" and isinstance(x, (HRef, Ref))) else x for x in src.fields])
                return unit
            if isinstance(src, Vec):
                view_set(interp, v0, items + list(view_get(interp, src)))
                return unit
            return TOP
        if nm in ("extend", "append") and len(args) == 2:
            its = iter_items(interp, env, args[1])
            if its is None:
                return TOP
            by_copy = "Extend<&" in k          # `impl Extend<&'a T> for Vec<T>` copies out of the references
            src_v = load(interp, env, args[1])
            from_iter = isinstance(src_v, It)           # an iterator's items are what they are (possibly references kept as such)
            view_set(interp, v0, items + [load1(interp, env, x) if by_copy else (x if (from_iter and isinstance(x, HRef) and nm == "extend") else load(interp, env, x)) for x in its])
            if nm == "append":
                src = load(interp, env, args[1])
                if isinstance(src, Vec):
                    heap_set(interp, src.vid, [])
            return unit
        if nm in ("first", "last") and sty.startswith("["):
            if not items:
                return NONE
            return some(HRef(v0.vid, off + (0 if nm == "first" else len(items) - 1)))
        if nm in ("first_mut", "last_mut"):
            if not items:
                return NONE
            return some(HRef(v0.vid, off + (0 if nm == "first_mut" else len(items) - 1)))
        if nm in ("get", "get_mut") and isinstance(args[1], int) and not isinstance(args[1], bool):
            return some(HRef(v0.vid, off + args[1])) if 0 <= args[1] < len(items) else NONE
        if dk in ("core::ops::index::Index::index", "core::ops::index::IndexMut::index_mut") and isinstance(args[1], int) and not isinstance(args[1], bool):
            return HRef(v0.vid, off + args[1]) if 0 <= args[1] < len(items) else "DIVERGE"
        if nm == "contains" and len(args) == 2:
            res = False
            for x in items:
                r = veq(interp, env, x, args[1])
                if r is TOP:
                    return TOP
                res = res or r
            return res
        if nm in ("sort_unstable_by_key", "sort_by_key", "sort_by_cached_key") and len(args) == 2:
            keys = []
            for i, x in enumerate(items):
                kv = _call1(interp, args[1], [HRef(v0.vid, off + i)])
                r = rank(interp, env, kv) if kv is not None else None
                if r is None:
                    return TOP
                keys.append(r)
            order = sorted(range(len(items)), key=lambda i: keys[i])
            view_set(interp, v0, [items[i] for i in order])
            return unit
        if nm in ("sort_by", "sort_unstable_by") and len(args) == 2:
            # stable insertion sort driven by the comparator closure (an unstable sort may order ties differently:
            # rules that compare results must treat tied members as interchangeable)
            out = []
            for x_i, x in enumerate(items):
                pos = len(out)
                for j in range(len(out)):
                    # element references are handed to the comparator through a scratch vector
                    tmp = new_vec(interp, [out[j], x])
                    o = _call1(interp, args[1], [HRef(tmp.vid, 0), HRef(tmp.vid, 1)])
                    if not (isinstance(o, Agg) and o.name == "core::cmp::Ordering"):
                        return TOP
                    if o.variant == "Greater":
                        pos = j
                        break
                out.insert(pos, x)
            view_set(interp, v0, out)
            return unit
        if nm in ("sort", "sort_unstable") and len(args) == 1:
            keys = [rank(interp, env, x) for x in items]
            if any(r is None for r in keys):
                return TOP
            order = sorted(range(len(items)), key=lambda i: keys[i])
            view_set(interp, v0, [items[i] for i in order])
            return unit
        if nm in ("reverse",):
            view_set(interp, v0, items[::-1])
            return unit
        if nm == "shuffle" or (nm == "partial_shuffle" and len(args) == 3 and isinstance(args[2], int) and args[2] >= len(items) - 1):
            # (`partial_shuffle(rng, amount)` with amount >= len - 1 runs the very loop of `shuffle`)
            path.events.append(Event("shuffle", bb, v0.vid))
            interp.mstate["shuffled"] = interp.mstate.get("shuffled", ()) + (v0.vid,)
            return unit if nm == "shuffle" else Agg("tuple", None, None, [TOP, TOP])
        by_ref = (f.get("resolved", {}).get("key") or "").startswith("<&") or ((f.get("gargs") or [""])[0].startswith("&")) or not isinstance(a0, Vec) or a0.borrowed
        if nm in ("retain", "retain_mut") and len(args) == 2 and sa == "alloc::vec::Vec" and v0.lo is None:
            # the predicate may be a stateful FnMut (a counter captured by value): it lives in a cell and is called through a reference
            # (its captures by reference point into the CALLER's frame: tagged with it before the closure moves into the cell)
            cell = new_vec(interp, [interp.freeze(env, args[1])])
            keep = []
            for i_ in range(len(items)):
                r_ = _call1(interp, HRef(cell.vid, 0), [HRef(v0.vid, off + i_)])
                if not isinstance(r_, bool):
                    return TOP
                if r_:
                    keep.append(heap_get(interp, v0.vid)[off + i_])
            view_set(interp, v0, keep)
            return unit
        if nm in ("chunks", "chunks_exact", "chunks_mut", "chunks_exact_mut", "windows", "rchunks", "rchunks_mut") and len(args) == 2 and isinstance(args[1], int) and not isinstance(args[1], bool) and args[1] == 0:
            return "DIVERGE"        # std panics: the chunk / window size must be non-zero
        if nm in ("chunks", "chunks_exact", "chunks_mut", "chunks_exact_mut") and isinstance(args[1], int) and args[1] > 0:
            c = args[1]
            refs = [HRef(v0.vid, off + i) for i in range(len(items))]
            out = [Agg("slice", None, None, refs[i:i + c]) for i in range(0, len(refs), c)]
            if nm.startswith("chunks_exact"):
                rem = [x for x in out if len(x.fields) != c]
                out = [x for x in out if len(x.fields) == c]
                return It(out, extra={"remainder": rem[0] if rem else Agg("slice", None, None, [])})
            return It(out)
        if nm == "windows" and isinstance(args[1], int) and args[1] > 0:
            refs = [HRef(v0.vid, off + i) for i in range(len(items))]
            return It([Agg("slice", None, None, refs[i:i + args[1]]) for i in range(0, len(refs) - args[1] + 1)])
        if nm in ("iter", "iter_mut") or (nm == "into_iter" and by_ref):
            return It([HRef(v0.vid, off + i) for i in range(len(items))])
        if nm == "into_iter":
            return It(items)
        if nm in ("to_vec", "to_owned", "clone") and (sa == "alloc::vec::Vec" or sty.startswith("[") or dk == "core::clone::Clone::clone"):
            return new_vec(interp, items)
        if nm in ("into_boxed_slice", "into_vec") and not by_ref:
            return v0           # Vec<T> <-> Box<[T]>: the same elements, owned
        if nm in ("deref", "deref_mut", "as_slice", "as_mut_slice", "as_ref", "as_mut", "borrow", "borrow_mut"):
            if nm in ("deref", "deref_mut") and isinstance(a0, Ref) and not sty.startswith("alloc::vec::Vec") and isinstance(interp.read_ref(env, a0), (Ref, HRef)):
                # a guard / smart pointer around the vector (RefMut<Vec<_>>, &mut &mut Vec<_>): its target is the place the vector lives in
                return interp.read_ref(env, a0)
            return Vec(v0.vid, True, v0.lo, v0.hi)
        if nm == "swap" and all(isinstance(x, int) for x in args[1:3]):
            i, j = args[1], args[2]
            if max(i, j) >= len(items):
                return "DIVERGE"
            items[i], items[j] = items[j], items[i]
            view_set(interp, v0, items)
            return unit
        if nm in ("remove", "swap_remove") and isinstance(args[1], int):
            i = args[1]
            if i >= len(items):
                return "DIVERGE"
            x = items[i]
            if nm == "remove":
                del items[i]
            else:
                items[i] = items[-1]
                items.pop()
            view_set(interp, v0, items)
            return x
        if nm == "insert" and isinstance(args[1], int):
            if args[1] > len(items):
                return "DIVERGE"
            items.insert(args[1], args[2])
            view_set(interp, v0, items)
            return unit

    if isinstance(v0, Agg) and v0.kind in ("array", "slice") and v0.name is None:
        rng_arg = load(interp, env, args[1]) if len(args) > 1 else None
        if isinstance(rng_arg, Agg) and (rng_arg.name or "").startswith("core::ops::range::Range") and \
                (dk in ("core::ops::index::Index::index", "core::ops::index::IndexMut::index_mut") or nm in ("get", "get_mut")):
            b = _range_bounds(rng_arg, len(v0.fields))
            if b is None:
                return TOP
            lo, hi = b
            if lo > hi or hi > len(v0.fields):
                return NONE if nm in ("get", "get_mut") else "DIVERGE"
            sub = Agg("slice" if v0.kind == "slice" else "array", None, None, v0.fields[lo:hi])
            return some(sub) if nm in ("get", "get_mut") else sub
        if dk in ("core::ops::index::Index::index", "core::ops::index::IndexMut::index_mut") and isinstance(rng_arg, int) and not isinstance(rng_arg, bool):
            if not (0 <= rng_arg < len(v0.fields)):
                return "DIVERGE"
            x_ = v0.fields[rng_arg]
            return x_ if isinstance(x_, HRef) else x_
        if nm in ("sort", "sort_unstable", "reverse", "swap", "rotate_left", "rotate_right") and isinstance(a0, Ref) and v0.kind == "array":
            flds = list(v0.fields)
            if nm in ("sort", "sort_unstable"):
                ks = [rank(interp, env, x) for x in flds]
                if any(k_ is None for k_ in ks):
                    return TOP
                flds = [flds[i] for i in sorted(range(len(flds)), key=lambda i: ks[i])]
            elif nm == "reverse":
                flds = flds[::-1]
            elif nm == "swap" and all(isinstance(x, int) and not isinstance(x, bool) for x in args[1:3]):
                if max(args[1], args[2]) >= len(flds):
                    return "DIVERGE"
                flds[args[1]], flds[args[2]] = flds[args[2]], flds[args[1]]
            elif nm in ("rotate_left", "rotate_right") and isinstance(args[1], int):
                k_ = args[1]
                if k_ > len(flds):
                    return "DIVERGE"
                if nm == "rotate_right":
                    k_ = len(flds) - k_
                flds = flds[k_:] + flds[:k_]
            else:
                return TOP
            interp.write_ref(env, a0, Agg(v0.kind, v0.name, v0.variant, flds))
            return unit
        if nm in ("reverse", "swap", "rotate_left", "rotate_right") and v0.kind == "slice" and v0.fields and all(isinstance(x, HRef) for x in v0.fields):
            # a mutable sub-slice of a vector (chunks_mut, split_at_mut, ...): permute the contents of the cells it refers to
            vals_ = [href_get(interp, env, x) for x in v0.fields]
            if nm == "reverse":
                nv_ = vals_[::-1]
            elif nm == "swap" and all(isinstance(x, int) and not isinstance(x, bool) for x in args[1:3]):
                if max(args[1], args[2]) >= len(vals_):
                    return "DIVERGE"
                nv_ = list(vals_)
                nv_[args[1]], nv_[args[2]] = nv_[args[2]], nv_[args[1]]
            elif nm in ("rotate_left", "rotate_right") and isinstance(args[1], int) and not isinstance(args[1], bool):
                k_ = args[1]
                if k_ > len(vals_):
                    return "DIVERGE"
                if nm == "rotate_right":
                    k_ = len(vals_) - k_
                nv_ = vals_[k_:] + vals_[:k_]
            else:
                return TOP
            for r_, x_ in zip(v0.fields, nv_):
                href_set(interp, env, r_, x_)
            return unit
        if nm in ("first", "last") and len(args) == 1:
            return (some(v0.fields[0 if nm == "first" else -1]) if v0.fields else NONE)
        if nm == "is_empty":
            return len(v0.fields) == 0
        if nm == "contains" and len(args) == 2:
            res = False
            for x in v0.fields:
                r = veq(interp, env, x, args[1])
                if r is TOP:
                    return TOP
                res = res or r
            return res
        if nm in ("iter", "into_iter", "iter_mut"):
            return It(v0.fields)
        if nm == "len":
            return len(v0.fields)
        if nm == "map" and len(args) == 2 and v0.kind == "array" and sty.startswith("["):
            out_ = []
            for x in v0.fields:                     # `[T; N]::map(f)`: f applied to every element in order
                r_ = _call1(interp, args[1], [x])
                if r_ is None:
                    return TOP
                out_.append(r_)
            return Agg("array", None, None, out_)
        if nm in ("split_first", "split_last", "split_first_mut", "split_last_mut") and len(args) == 1:
            if not v0.fields:
                return NONE
            if nm.startswith("split_first"):
                return some(Agg("tuple", None, None, [v0.fields[0], Agg("slice", None, None, v0.fields[1:])]))
            return some(Agg("tuple", None, None, [v0.fields[-1], Agg("slice", None, None, v0.fields[:-1])]))
        if nm in ("split_at", "split_at_mut") and len(args) == 2 and isinstance(args[1], int) and not isinstance(args[1], bool):
            if args[1] > len(v0.fields):
                return "DIVERGE"
            return Agg("tuple", None, None, [Agg("slice", None, None, v0.fields[:args[1]]), Agg("slice", None, None, v0.fields[args[1]:])])
        if nm in ("chunks", "chunks_exact", "chunks_mut", "chunks_exact_mut") and len(args) == 2 and isinstance(args[1], int) and args[1] > 0:
            c_ = args[1]
            out_ = [Agg("slice", None, None, v0.fields[i_:i_ + c_]) for i_ in range(0, len(v0.fields), c_)]
            if "exact" in nm:
                rem_ = [x for x in out_ if len(x.fields) != c_]
                out_ = [x for x in out_ if len(x.fields) == c_]
                return It(out_, extra={"remainder": rem_[0] if rem_ else Agg("slice", None, None, [])})
            return It(out_)
        if nm == "windows" and len(args) == 2 and isinstance(args[1], int) and args[1] > 0:
            return It([Agg("slice", None, None, v0.fields[i_:i_ + args[1]]) for i_ in range(0, len(v0.fields) - args[1] + 1)])
    # ---- integer ranges and repeat
    if isinstance(v0, Agg) and v0.name in ("core::ops::range::Range", "core::ops::range::RangeInclusive") and len(v0.fields) >= 2 \
            and all(isinstance(x, int) and not isinstance(x, bool) for x in v0.fields[:2]):
        lo, hi = v0.fields[0], v0.fields[1] + (1 if v0.name.endswith("Inclusive") else 0)
        if nm == "into_iter":
            return v0
        if nm == "next" and isinstance(a0, Ref):
            if lo >= hi:
                return NONE
            nf = list(v0.fields)
            nf[0] = lo + 1
            interp.write_ref(env, a0, Agg(v0.kind, v0.name, v0.variant, nf))
            return some(lo)
        if nm in ("len", "count"):
            return max(0, hi - lo)
        if nm in ("map", "filter", "collect", "rev", "skip", "take", "zip", "enumerate", "for_each", "all", "any", "cloned", "step_by", "chain", "sum", "min", "max", "flat_map", "filter_map", "fold", "try_fold", "reduce", "position", "find", "count", "last", "nth", "min_by_key", "max_by_key", "product") and hi - lo <= 64:
            v0 = It(list(range(lo, hi)))
    if dk in ("core::iter::sources::once::once", "core::iter::once") and args:
        return It([args[0]])
    if dk in ("core::iter::sources::empty::empty", "core::iter::empty"):
        return It([])
    if dk in ("core::iter::sources::successors::successors", "core::iter::successors") and len(args) == 2:
        out = []
        cur = args[0]
        for _ in range(64):
            cur = load(interp, env, cur) if isinstance(cur, Ref) else cur
            if not (isinstance(cur, Agg) and cur.name == "core::option::Option"):
                return TOP
            if cur.variant == "None":
                return It(out)
            out.append(cur.fields[0])
            tmp = new_vec(interp, [cur.fields[0]])
            cur = _call1(interp, args[1], [HRef(tmp.vid, 0)])
            if cur is None:
                return TOP
        # no end within the bound: an unbounded generator - only a bounding adapter (`take_while`, `take`) gives it items
        return Agg("successors", None, None, [args[0], args[1]])
    if isinstance(v0, Agg) and v0.kind == "successors" and nm in ("take_while", "take") and len(args) == 2:
        out = []
        cur = v0.fields[0]
        for _ in range(512):
            cur = load(interp, env, cur) if isinstance(cur, Ref) else cur
            if not (isinstance(cur, Agg) and cur.name == "core::option::Option"):
                return TOP
            if cur.variant == "None":
                return It(out)
            x = cur.fields[0]
            if nm == "take":
                if not (isinstance(args[1], int) and not isinstance(args[1], bool)):
                    return TOP
                if len(out) >= args[1]:
                    return It(out)
            else:
                tmp0 = new_vec(interp, [x])
                keep = _call1(interp, args[1], [HRef(tmp0.vid, 0)])
                if not isinstance(keep, bool):
                    return TOP
                if not keep:
                    return It(out)
            out.append(x)
            tmp = new_vec(interp, [x])
            cur = _call1(interp, v0.fields[1], [HRef(tmp.vid, 0)])
            if cur is None:
                return TOP
        return TOP
    if dk in ("core::iter::sources::repeat::repeat", "core::iter::repeat"):
        return Agg("repeat", None, None, [args[0]])
    if dk in ("core::iter::sources::repeat_with::repeat_with", "core::iter::repeat_with"):
        return Agg("repeat_with", None, None, [args[0]])
    if isinstance(v0, Agg) and v0.kind == "repeat_with":
        if nm == "take" and isinstance(args[1], int):
            out = []
            for _ in range(args[1]):
                r = _call1(interp, v0.fields[0], [])
                if r is None:
                    return TOP
                out.append(r)
            return It(out)
        return TOP
    if isinstance(v0, Agg) and v0.kind == "repeat":
        if nm == "take" and isinstance(args[1], int):
            return It([v0.fields[0]] * args[1])
        if nm == "by_ref":
            return v0        # an endless stateless generator: taken by reference it is the same generator
        return TOP
    if dk in ("alloc::vec::from_elem", "alloc::vec::spec_from_elem::SpecFromElem::from_elem") and len(args) >= 2 and isinstance(args[1], int):
        return new_vec(interp, [args[0]] * args[1])
    if dk in ("core::iter::traits::collect::FromIterator::from_iter",) and args and (f.get("ret") or "").startswith("alloc::vec::Vec<"):
        src = load(interp, env, args[0])
        if isinstance(src, Agg) and src.name in ("core::ops::range::Range", "core::ops::range::RangeInclusive") and all(isinstance(x, int) and not isinstance(x, bool) for x in src.fields[:2]):
            hi = src.fields[1] + (1 if src.name.endswith("Inclusive") else 0)
            return new_vec(interp, list(range(src.fields[0], hi)))
        its = iter_items(interp, env, args[0])
        if its is None:
            return TOP
        return new_vec(interp, its)
    if nm in ("box_assume_init_into_vec_unsafe", "into_vec") and args:
        a = load(interp, env, args[0])
        if isinstance(a, Agg) and a.kind in ("array", "tuple"):
            return new_vec(interp, a.fields)
        # vec![a, b] = Box::new_uninit(); write the array through the raw pointer; box_assume_init_into_vec_unsafe(box)
        for ev in reversed(path.events):
            if ev.kind == "store" and ev.bb == bb - 0 and isinstance(ev.data[1], Agg) and ev.data[1].kind == "array":
                return new_vec(interp, ev.data[1].fields)
            if ev.kind == "store" and isinstance(ev.data[1], Agg) and ev.data[1].kind == "array":
                return new_vec(interp, ev.data[1].fields)
            if ev.kind in ("call", "inlined"):
                break
        return TOP
    if dk in ("core::mem::take", "core::mem::replace") and isinstance(a0, Vec) and a0.borrowed and a0.lo is None and (dk.endswith("take") or (len(args) == 2 and isinstance(load(interp, env, args[1]), Vec))):
        # through a `&mut Vec<_>` handle: the old contents move out, the vector is left empty / with the replacement's elements
        old_items = list(heap_get(interp, a0.vid))
        repl = list(view_get(interp, load(interp, env, args[1]))) if dk.endswith("replace") else []
        heap_set(interp, a0.vid, repl)
        return new_vec(interp, old_items)
    if dk in ("core::mem::swap",) and len(args) == 2 and all(isinstance(x, Vec) and x.borrowed and x.lo is None for x in args):
        xa, xb = list(heap_get(interp, args[0].vid)), list(heap_get(interp, args[1].vid))
        heap_set(interp, args[0].vid, xb)
        heap_set(interp, args[1].vid, xa)
        return unit
    if dk in ("core::mem::swap",) and len(args) == 2 and all(isinstance(x, (Ref, HRef)) for x in args):
        a_, b_ = load(interp, env, args[0]), load(interp, env, args[1])
        if store_ref(interp, env, args[0], b_) and store_ref(interp, env, args[1], a_):
            return unit
        return TOP
    if dk in ("core::mem::replace",) and len(args) == 2 and isinstance(args[0], (Ref, HRef)):
        old = load(interp, env, args[0])
        if store_ref(interp, env, args[0], args[1]):
            return old
        return TOP
    # ---- iterators
    if nm == "into_iter" and isinstance(v0, It):
        return v0
    if nm == "into_iter" and isinstance(v0, Agg) and v0.kind in ("array", "tuple"):
        return It(v0.fields)
    if nm == "into_iter" and isinstance(v0, Agg) and v0.name in ("core::option::Option", "core::result::Result"):
        return It(v0.fields[:1] if v0.variant in ("Some", "Ok") else [])
    if nm in ("iter", "iter_mut") and sa in ("core::option::Option", "core::result::Result") and isinstance(v0, Agg) and v0.name == sa:
        if v0.variant not in ("Some", "Ok"):
            return It([])
        inner = v0.fields[0]
        if nm == "iter_mut" and isinstance(a0, (Ref, HRef)) and not isinstance(inner, (Ref, HRef)):
            vi = 1 if v0.variant == "Some" else 0
            ext = [["d", vi, v0.variant], ["f", 0, None]]
            inner = Ref(a0.local, list(a0.proj) + ext, frame=a0.frame) if isinstance(a0, Ref) else HRef(a0.vid, a0.idx, tuple(a0.proj) + tuple(tuple(x) for x in ext))
        return It([inner])
    if nm == "multizip" and isinstance(v0, Agg) and v0.kind == "tuple":
        tys = _split_top(((f.get("gargs") or ["", ""])[-1] or "")[1:-1])
        flds = list(v0.fields)
        for i_, x in enumerate(flds):
            if isinstance(x, Vec) and not x.borrowed and i_ < len(tys) and tys[i_].startswith("&"):
                flds[i_] = Vec(x.vid, True, x.lo, x.hi)
        lists = [iter_items(interp, env, x) for x in flds]
        if any(l is None for l in lists):
            return TOP
        return It([Agg("tuple", None, None, list(xs)) for xs in zip(*lists)])
    if isinstance(v0, Agg) and v0.kind == "itertools-chunks" and nm == "into_iter":
        return It(v0.fields)
    if isinstance(v0, It):
        it = v0
        if dk == "itertools::Itertools::chunks" and len(args) == 2 and isinstance(args[1], int) and args[1] > 0:
            xs_ = list(it.items)
            return Agg("itertools-chunks", None, None, [It(xs_[i_:i_ + args[1]]) for i_ in range(0, len(xs_), args[1])])
        if dk == "itertools::Itertools::collect_vec":
            return new_vec(interp, list(it.items))
        if dk in ("itertools::Itertools::dedup", "itertools::Itertools::unique") and len(args) == 1:
            out_ = []
            for x in list(it.items):
                dup_ = False
                for y in (out_[-1:] if dk.endswith("dedup") else out_):
                    r_ = veq(interp, env, y, x)
                    if r_ is TOP:
                        return TOP
                    dup_ = dup_ or r_
                if not dup_:
                    out_.append(x)
            return It(out_)
        if dk in ("itertools::Itertools::exactly_one", "itertools::Itertools::at_most_one") and len(args) == 1:
            xs_ = list(it.items)
            if dk.endswith("exactly_one"):
                return Agg("adt", "core::result::Result", "Ok", [xs_[0]]) if len(xs_) == 1 else Agg("adt", "core::result::Result", "Err", [Sym("not-exactly-one")])
            return Agg("adt", "core::result::Result", "Ok", [some(xs_[0]) if xs_ else NONE]) if len(xs_) <= 1 else Agg("adt", "core::result::Result", "Err", [Sym("more-than-one")])
        if dk in ("itertools::Itertools::sorted_by_key", "itertools::Itertools::sorted_by_cached_key", "itertools::Itertools::sorted_unstable_by_key") and len(args) == 2:
            xs_ = list(it.items)
            ks_ = []
            for x in xs_:
                k_ = _call1(interp, args[1], [new_ref(interp, x)])
                r_ = rank(interp, env, k_) if k_ is not None else None
                if r_ is None:
                    return TOP
                ks_.append(r_)
            return It([xs_[i_] for i_ in sorted(range(len(xs_)), key=lambda i_: ks_[i_])])      # stable, as itertools' sorted_by_key
        if dk in ("itertools::Itertools::sorted", "itertools::Itertools::sorted_unstable") and len(args) == 1:
            xs_ = list(it.items)
            ks_ = [rank(interp, env, x) for x in xs_]
            if any(k_ is None for k_ in ks_):
                return TOP
            return It([xs_[i_] for i_ in sorted(range(len(xs_)), key=lambda i_: ks_[i_])])
        if dk in ("itertools::Itertools::group_by", "itertools::Itertools::chunk_by") and len(args) == 2:
            groups_ = []          # consecutive items with equal keys
            for x in it.items:
                k_ = _call1(interp, args[1], [new_ref(interp, x)])
                if k_ is None:
                    return TOP
                if groups_:
                    same_ = veq(interp, env, groups_[-1][0], k_)
                    if same_ is TOP:
                        return TOP
                    if same_:
                        groups_[-1][1].append(x)
                        continue
                groups_.append((k_, [x]))
            return Agg("itertools-chunks", None, None, [Agg("tuple", None, None, [k_, It(g_)]) for k_, g_ in groups_])
        if nm in ("remainder", "into_remainder") and "remainder" in it.extra:
            return it.extra["remainder"]
        if nm == "by_ref":
            return a0
        if nm == "next" and isinstance(a0, Ref):
            if not it.items:
                return NONE
            r_ = a0
            for _ in range(4):          # `&mut &mut iterator`: advance the iterator itself
                tgt_ = interp.read_ref(env, r_)
                if isinstance(tgt_, Ref):
                    r_ = tgt_
                else:
                    break
            interp.write_ref(env, r_, It(it.items[1:], extra=it.extra))
            return some(it.items[0])
        if nm == "next":
            return some(it.items[0]) if it.items else NONE
        if nm == "next_back" and isinstance(a0, Ref):
            if not it.items:
                return NONE
            r_ = a0
            for _ in range(4):
                tgt_ = interp.read_ref(env, r_)
                if isinstance(tgt_, Ref):
                    r_ = tgt_
                else:
                    break
            interp.write_ref(env, r_, It(it.items[:-1], extra=it.extra))
            return some(it.items[-1])
        if nm == "next_back":
            return some(it.items[-1]) if it.items else NONE
        if nm in ("cloned", "copied"):
            return It([load1(interp, env, x) for x in it.items])
        if nm in ("circular_tuple_windows", "tuple_windows"):
            import re as _re
            m_ = _re.search(r"TupleWindows<.*, \((.*)\)>$", f.get("ret") or "")
            ar = len(_split_top(m_.group(1))) if m_ else 0
            if ar < 2:
                return TOP
            xs = list(it.items)
            if nm == "tuple_windows":
                return It([Agg("tuple", None, None, xs[i:i + ar]) for i in range(0, len(xs) - ar + 1)])
            if not xs:
                return It([])
            return It([Agg("tuple", None, None, [xs[(i + j) % len(xs)] for j in range(ar)]) for i in range(len(xs))])
        if nm == "chain" and len(args) == 2:
            other = iter_items(interp, env, args[1])
            if other is None:
                return TOP
            return It(list(it.items) + other)
        if nm == "unzip" and len(args) == 1:
            xs = [load(interp, env, x) for x in it.items]
            if all(isinstance(x, Agg) and x.kind == "tuple" and len(x.fields) == 2 for x in xs):
                return Agg("tuple", None, None, [new_vec(interp, [x.fields[0] for x in xs]), new_vec(interp, [x.fields[1] for x in xs])])
            return TOP
        if nm == "zip" and len(args) == 2:
            o_ = load(interp, env, args[1])
            if isinstance(o_, Agg) and o_.name == "core::ops::range::RangeFrom" and o_.fields and isinstance(o_.fields[0], int):
                return It([Agg("tuple", None, None, [a, o_.fields[0] + i]) for i, a in enumerate(it.items)])
            other = iter_items(interp, env, args[1])
            if other is None:
                return TOP
            return It([Agg("tuple", None, None, [a, b]) for a, b in zip(it.items, other)])
        if nm == "enumerate":
            return It([Agg("tuple", None, None, [i, x]) for i, x in enumerate(it.items)])
        if nm == "rev":
            return It(it.items[::-1])
        if nm in ("skip", "take", "step_by") and isinstance(args[1], int):
            n = args[1]
            return It(it.items[n:] if nm == "skip" else it.items[:n] if nm == "take" else it.items[::max(1, n)])
        if nm == "map" and len(args) == 2:
            if isinstance(it.items, LazyItems):
                return It(LazyItems(it.items.base, it.items.fns + (args[1],)), extra=it.extra)
            return It(LazyItems(it.items, (args[1],)), extra=it.extra)
        if nm in ("flat_map", "flatten"):
            out = []
            for x in it.items:
                r = _call1(interp, args[1], [x]) if nm == "flat_map" else x
                if r is None:
                    return TOP
                sub = iter_items(interp, env, r)
                if sub is None:
                    return TOP
                out.extend(sub)
            return It(out)
        if nm == "fold" and len(args) == 3:
            acc = args[1]
            for x in it.items:
                acc = _call1(interp, args[2], [acc, x])
                if acc is None:
                    return TOP
            return acc
        if nm == "reduce" and len(args) == 2:
            if not it.items:
                return NONE
            acc = it.items[0]
            for x in it.items[1:]:
                acc = _call1(interp, args[1], [acc, x])
                if acc is None:
                    return TOP
            return some(acc)
        if nm == "try_fold" and len(args) == 3:
            acc = args[1]
            for x in it.items:
                r = _call1(interp, args[2], [acc, x])
                if not (isinstance(r, Agg) and r.variant in ("Ok", "Some", "Err", "None", "Continue", "Break")):
                    return TOP
                if r.variant in ("Err", "None", "Break"):
                    return r
                acc = r.fields[0]
            import re as _re2
            ret = f.get("ret") or ""
            if ret.startswith("core::result::Result"):
                from absint import ok as _ok2
                return _ok2(acc)
            if ret.startswith("core::option::Option"):
                return some(acc)
            return TOP
        if nm == "filter_map" and len(args) == 2:
            out = []
            for x in it.items:
                r = _call1(interp, args[1], [x])
                if isinstance(r, Agg) and r.variant == "Some":
                    out.append(r.fields[0])
                elif not (isinstance(r, Agg) and r.variant == "None"):
                    return TOP
            return It(out)
        if nm == "filter" and len(args) == 2:
            out = []
            for x in it.items:
                r = _call1(interp, args[1], [x])
                if not isinstance(r, bool):
                    return TOP
                if r:
                    out.append(x)
            return It(out)
        if nm in ("min_by_key", "max_by_key") and len(args) == 2:
            best = None
            for x in it.items:
                kv = _call1(interp, args[1], [x])
                r = rank(interp, env, kv) if kv is not None else None
                if r is None:
                    return TOP
                if best is None or (nm == "min_by_key" and r < best[0]) or (nm == "max_by_key" and r >= best[0]):
                    best = (r, x)
            return some(best[1]) if best else NONE
        if nm in ("max_by", "min_by") and len(args) == 2:
            best = None
            for x in it.items:
                if best is None:
                    best = x
                    continue
                o = _call1(interp, args[1], [best, x])
                if not (isinstance(o, Agg) and o.name == "core::cmp::Ordering"):
                    return TOP
                if nm == "max_by" and o.variant != "Greater":
                    best = x
                if nm == "min_by" and o.variant == "Greater":
                    best = x
            return some(best) if best is not None else NONE
        if nm in ("min", "max") and len(args) == 1:
            best = None
            for x in it.items:
                r = rank(interp, env, x)
                if r is None:
                    return TOP
                if best is None or (nm == "min" and r < best[0]) or (nm == "max" and r >= best[0]):
                    best = (r, x)
            return some(best[1]) if best else NONE
        if nm == "collect":
            ret = f.get("ret", "")
            if ret.startswith("alloc::vec::Vec<"):
                return new_vec(interp, [x for x in it.items])
            if ret.startswith("core::result::Result<(),") or ret.startswith("core::option::Option<()>"):
                good = "Ok" if ret.startswith("core::result") else "Some"
                for x in it.items:          # stops at the first failure: later items are never produced
                    x = load(interp, env, x)
                    if not isinstance(x, Agg) or x.variant is None:
                        return TOP
                    if x.variant != good:
                        return x
                from absint import ok as _ok
                return _ok(unit) if good == "Ok" else some(unit)
            if ret.startswith("core::result::Result<alloc::vec::Vec<") or ret.startswith("core::option::Option<alloc::vec::Vec<"):
                good = "Ok" if ret.startswith("core::result") else "Some"
                inner = []
                for x in it.items:
                    x = load(interp, env, x)
                    if not isinstance(x, Agg) or x.variant is None:
                        return TOP
                    if x.variant != good:
                        return x
                    inner.append(x.fields[0])
                from absint import ok as _ok
                v = new_vec(interp, inner)
                return _ok(v) if good == "Ok" else some(v)
            return TOP
        if nm in ("count", "len"):
            return len(it.items)
        if nm in ("position", "find", "find_map") and len(args) == 2:
            for i, x in enumerate(it.items):
                r = _call1(interp, args[1], [x])
                if nm == "find_map":
                    if isinstance(r, Agg) and r.variant == "Some":
                        return r
                    if not (isinstance(r, Agg) and r.variant == "None"):
                        return TOP
                    continue
                if not isinstance(r, bool):
                    return TOP
                if r:
                    return some(i) if nm == "position" else some(x)
            return NONE
        if nm == "product":
            vals = [load(interp, env, x) for x in it.items]
            if all(isinstance(x, (int, float)) and not isinstance(x, bool) for x in vals):
                r = 1.0 if "f64" in (f.get("ret") or "") or any(isinstance(x, float) for x in vals) else 1
                for x in vals:
                    r = r * x
                return r
            return TOP
        if nm == "sum":
            vals = [load(interp, env, x) for x in it.items]
            if all(isinstance(x, (int, float)) and not isinstance(x, bool) for x in vals):
                isf = "f64" in (f.get("ret") or "") or any(isinstance(x, float) for x in vals)
                return float(sum(vals)) if isf else sum(vals)
            return TOP
        if nm in ("all", "any") and len(args) == 2:
            res = nm == "all"
            for x in it.items:
                r = _call1(interp, args[1], [x])
                if not isinstance(r, bool):
                    return TOP
                if nm == "all" and not r:
                    return False
                if nm == "any" and r:
                    return True
            return res
        if nm == "try_for_each" and len(args) == 2:
            ret = f.get("ret") or ""
            for x in it.items:
                r = _call1(interp, args[1], [x])
                if not (isinstance(r, Agg) and r.variant in ("Ok", "Some", "Err", "None", "Continue", "Break")):
                    return TOP
                if r.variant in ("Err", "None", "Break"):
                    return r
            from absint import ok as _ok3
            if ret.startswith("core::result::Result"):
                return _ok3(unit)
            if ret.startswith("core::option::Option"):
                return some(unit)
            return TOP
        if nm == "for_each" and len(args) == 2:
            for x in it.items:
                if _call1(interp, args[1], [x]) is None:
                    return TOP
            return unit
        if nm == "last":
            return some(it.items[-1]) if it.items else NONE
        if nm == "nth" and isinstance(args[1], int):
            return some(it.items[args[1]]) if args[1] < len(it.items) else NONE
    if dk in ("core::convert::TryInto::try_into", "core::convert::TryFrom::try_from") and isinstance(v0, Vec) and "; " in (f.get("ret") or ""):
        import re as _re
        m = _re.search(r"; (\d+)\]", f.get("ret") or "")
        items = view_get(interp, v0)
        if m:
            from absint import ok as _ok, err as _err
            return _ok(Agg("array", None, None, list(items))) if len(items) == int(m.group(1)) else _err(v0)
    if dk == "core::default::Default::default" and (f.get("ret") or "").startswith("alloc::vec::Vec<"):
        return new_vec(interp)
    if dk == "core::option::Option::cloned" or dk == "core::option::Option::copied":
        if isinstance(v0, Agg) and v0.variant == "Some":
            return some(load(interp, env, v0.fields[0]))
        if isinstance(v0, Agg) and v0.variant == "None":
            return NONE
    if dk == "core::clone::Clone::clone":
        if isinstance(v0, (Agg, Sym, int, float, bool)):
            return v0
    return TOP
