"""C14 — initialisation and boundary repair keep every coordinate inside the domain."""
import itertools

from core import expr_str, strip, subexprs, AnchorMissing
from absint import Interp, Sym, Agg, Ref, HRef, TOP, some, NONE, ok, err, std_oracle, chain
from collmodel import coll_oracle, Vec, install, load, It, heap_get, new_vec
from c10 import mk_oracle
import c07

EXPLANATION = (
    "Boundary repair is decided by finite-domain abstract interpretation (K6) of every BoundaryConstraint::constrain "
    "in the crate over the regions of a coordinate against its domain [a, b]: far below, just below, exactly a, "
    "inside, exactly b, just above, far above (several widths), for two different domains side by side (so a "
    "neighbouring dimension's range cannot be used by mistake): the evaluation must terminate (no self-loop: every "
    "loop iteration outside the domain assigns a different value; resampling operators are driven with a sample "
    "sequence that first overshoots and then lands inside), the stored coordinate lies in [a, b], and a coordinate "
    "that already was inside (bounds included) is stored unchanged. The driver visits every solution of the current "
    "population exactly once through solution_mut. Initialisation: the driver wraps exactly the solutions "
    "initialize() produced as unevaluated individuals and pushes them once; random_spread draws one value per domain "
    "entry from exactly that entry's range, population_size times; random_permutation shuffles 0..dimension; "
    "random_bitstring has `dimension` bits. Every Initialization::initialize wrapper yields the requested number of solutions of the problem's dimension (generators inlined). NOT decided: floating-point rounding of the bound arithmetic beyond the "
    "sampled regions, termination probability of resampling for arbitrary sample sequences.")
EXPLANATION += " " + "(R3/R4 revised) the boundary and initialisation drivers on the real stack (populations underneath, members with and without objective value), stack and generator owned by the current or the enclosing scope: a stack of the driver's own would hide the new population from the heuristic."
ASSUMPTIONS = ["rand's gen_range(range) returns a member of the range; Normal::sample returns a finite value"]

BC = "mahf::components::boundary::BoundaryConstraint"
DOMAINS = [(-1.0, 1.0), (10.0, 12.5)]
INL = c07.INLINE


def regions(a, b):
    w = b - a
    return [("far-below", a - 2.75 * w), ("one-width-below", a - w), ("just-below", a - 0.25 * w), ("at-lower-bound", a), ("inside", a + 0.25 * w),
            ("at-upper-bound", b), ("just-above", b + 0.25 * w), ("one-width-above", b + w), ("far-above", b + 2.75 * w)]


def r1_constrain(ctx):
    F = ctx.facts
    impls = [f for f in F.all_fns if f.impl_trait == BC and f.name == "constrain"]
    ctx.floor("C14.R1", "BoundaryConstraint implementations", len(impls), 4)
    total = 0
    for fn in impls:
        bad = []
        regs = [regions(a, b) for (a, b) in DOMAINS]
        for (n0, x0), (n1, x1) in itertools.product(regs[0], regs[1]):
            # only vary one coordinate away from "inside" at a time plus the diagonal: 2*9 + 9 cases
            if not (n0 == "inside" or n1 == "inside" or n0 == n1):
                continue
            for samples in ([0.1], [2.5, 0.1], [0.0]):
                def domain(interp, env, f, args):
                    return new_vec(interp, [Agg("adt", "core::ops::range::Range", "Range", [a, b]) for (a, b) in DOMAINS])

                def sample(interp, env, f, args, samples=samples):
                    i = interp.mstate.get("draws", 0)
                    interp.mstate["draws"] = i + 1
                    # scaled to the width of the distribution's domain: samples are multiples of the std-dev*3 = width
                    w = interp.mstate.get("width", 1.0)
                    return samples[min(i, len(samples) - 1)] * w

                def normal_new(interp, env, f, args):
                    sd = load(interp, env, args[1])
                    interp.mstate["width"] = sd * 3.0 if isinstance(sd, float) else 1.0
                    return ok(Sym("normal"))
                table = {"mahf::problems::LimitedVectorProblem::domain": domain, "rand::distributions::distribution::Distribution::sample": sample,
                         "rand_distr::normal::Normal::new": normal_new, "rand::rng::Rng::sample": sample}
                it = install(Interp(fn.body, chain(mk_oracle(table), coll_oracle, std_oracle), [Sym("self"), Vec("sol", borrowed=True), Sym("problem"), Sym("rng")], facts=F, inline=INL, max_visits=40, max_paths=200))
                it.init_state = {"heap": {"sol": (x0, x1)}, "next_vec": 0}
                total += 1
                for p in it.run():
                    ctxs = ((n0, x0), (n1, x1), samples)
                    if p.end != "return":
                        bad.append(ctxs + ("the repair does not terminate / complete (%s%s)" % (p.end, ": a coordinate on this path keeps its value while the loop guard still holds" if p.end == "limit" else ""),))
                        continue
                    after = p.mstate["heap"].get("sol", ())
                    for d, ((a, b), xin) in enumerate(zip(DOMAINS, (x0, x1))):
                        xo = after[d] if d < len(after) else None
                        if not isinstance(xo, float):
                            bad.append(ctxs + ("coordinate %d becomes %s" % (d, xo),))
                        elif not (a - 1e-9 <= xo <= b + 1e-9):
                            bad.append(ctxs + ("coordinate %d = %s is stored as %s, outside its domain [%s, %s]" % (d, xin, xo, a, b),))
                        elif a <= xin <= b and xo != xin:
                            bad.append(ctxs + ("coordinate %d = %s already was inside [%s, %s] but is changed to %s" % (d, xin, a, b, xo),))
        # resampling operators only: ignore the sample variations for deterministic ones (identical results)
        ctx.check(not bad, "C14.R1", fn.key, "inside-after-identity-inside-terminates",
                  "coordinates %s / %s (samples %s): %s" % (bad[0] if bad else ("", "", "", "")), detail="%d region combinations x sample sequences" % total, loc=fn.loc())
        # (that the operator executes through the driver - or through code that behaves like it - is C14.DRV)
    ctx.count("constrain_evaluations", total)


def r3_driver(ctx, fn=None, rule="C14.R3"):
    """the boundary driver on the REAL population stack (another population underneath), the stack and the generator owned by
    the current or the enclosing scope: every solution of the TOP population is repaired exactly once, the repaired
    individuals carry no objective value any more, nothing else on the stack is touched, and stack and generator stay in the
    scope that owns them"""
    import statemodel
    from c04 import StackModel
    F = ctx.facts
    fn = fn or F.fn("mahf::components::boundary::boundary_constraint")
    POP = statemodel.POPULATIONS
    bad = []
    for owner in (0, 1):
        for size in range(0, 4):
            seen = []

            def constrain(interp, env, f, args):
                s = load(interp, env, args[1])
                seen.append(getattr(s, "tag", repr(s)))
                return Agg("tuple", None, None, [])
            cells, popsym, sf = statemodel.stack_and_rng(F, owner)
            store = statemodel.Store(F, levels=2, auto=statemodel.by_prefix(F, cells))
            table = {BC + "::constrain": constrain}
            it = install(Interp(fn.body, chain(mk_oracle(table), store, StackModel(sf), coll_oracle, std_oracle), [Sym("component"), Sym("problem"), Sym("state")], facts=F,
                                inline=lambda k: k.startswith(POP + "::") or INL(k) or statemodel.inline(k), max_visits=12))
            it.never_inline = lambda k_: k_.endswith(" as " + BC + ">::constrain")      # (the operator is answered by the scenario)
            # members 0, 2 carry an objective value from an earlier evaluation, member 1 has none (freshly modified)
            it.init_state = {"heap": {"cur": tuple(c07.ind(i) if i != 1 else Agg("adt", c07.IND, "Individual", [Sym("s:1"), NONE]) for i in range(size)), "below": (c07.ind("b"),)},
                             "next_vec": 0, "stack": (Vec("below"), Vec("cur"))}
            store.install(it)
            where = "%d%s" % (size, ", the stack owned by the enclosing scope" if owner else "")
            for p in it.run():
                if p.end != "return" or not (isinstance(p.ret, Agg) and p.ret.variant == "Ok"):
                    bad.append((where, "%s %s" % (p.end, p.ret)))
                    continue
                held = {ty.split("<")[0].split("::")[-1]: store.holders(p, ty) for ty in store.types()}
                if any(ls != [owner] for ls in held.values()):
                    bad.append((where, "leaves %s held by scope level(s) %s; they belong to scope level %d and stay there" % (sorted(held), sorted(held.values()), owner)))
                    continue
                want = ["s:%d" % i for i in range(size)]
                if sorted(seen) != want:
                    bad.append((where, "repairs solutions %s, expected every member once: %s" % (seen, want)))
                names = [getattr(x, "vid", repr(x)) for x in p.mstate.get("stack", ())]
                if p.mstate.get("unmodelled") or names != ["below", "cur"] or [c07.otag(x) for x in p.mstate["heap"].get("below", ())] != ["o:b"]:
                    bad.append((where, "leaves the stack as %s / changes the population underneath" % (p.mstate.get("unmodelled") or names)))
                stale = [c07.otag(x) for x in p.mstate["heap"].get("cur", ()) if isinstance(x.fields[1], Agg) and x.fields[1].variant == "Some"]
                if stale:
                    bad.append((where, "leaves objective values on repaired individuals: %s" % stale))
    ctx.check(not bad, rule, fn.key, "every-solution-once", "population of %s: the driver %s" % (bad[0] if bad else ("", "")), loc=fn.loc())


def r4_initialization(ctx, fn=None, rule="C14.R4"):
    """the initialization driver on the REAL population stack (0..1 populations already there): afterwards exactly one
    more population lies on top - the produced solutions, in order, each as an unevaluated individual - and whatever was
    underneath is untouched"""
    from c04 import StackModel
    F = ctx.facts
    delegated = fn is None
    fn = fn or F.fn("mahf::components::initialization::initialization")
    POP = "mahf::state::common::Populations"
    sf = F.field_index(POP, "stack")
    bad = []
    import statemodel
    for below, owner in (((), 0), (("b0",), 0), (("b0",), 1), ((), 1)):
        for size in range(0, 4):
            def initialize(interp, env, f, args, size=size):
                return new_vec(interp, [Sym("s:%d" % i) for i in range(size)])
            # the stack and the generator are cells of the typed store, owned by the scope the driver runs in (0) or by the
            # enclosing scope (1: an initialisation inside a Scope fills its surroundings' stack)
            cells, popsym, _sf = statemodel.stack_and_rng(F, owner)
            store = statemodel.Store(F, levels=2, auto=statemodel.by_prefix(F, cells))
            table = {"mahf::components::initialization::Initialization::initialize": initialize}
            it = install(Interp(fn.body, chain(mk_oracle(table), store, StackModel(sf), coll_oracle, std_oracle), [Sym("component"), Sym("problem"), Sym("state")], facts=F,
                                inline=lambda k: k.startswith(POP + "::") or INL(k) or statemodel.inline(k), max_visits=12))
            it.init_state = {"stack": tuple(Vec(x) for x in below), "heap": {x: (c07.ind(x),) for x in below}, "next_vec": 0}
            it.never_inline = lambda k_: k_.endswith(" as mahf::components::initialization::Initialization>::initialize")      # (answered by the scenario)
            store.install(it)
            for p in it.run():
                st = list(p.mstate.get("stack", ()))
                names = [getattr(x, "vid", repr(x)) for x in st]
                ctxs = "%d, %d population(s) already on the stack%s" % (size, len(below), ", the stack owned by the enclosing scope" if owner else "")
                held = {ty.split("<")[0].split("::")[-1]: store.holders(p, ty) for ty in store.types()}
                if any(ls != [owner] for ls in held.values()):
                    bad.append((ctxs, "leaves %s held by scope level(s) %s; the stack and the generator belong to scope level %d (0 = the scope the driver runs in, 1 = the enclosing one): a stack of its own hides the new population from the heuristic" % (
                        sorted(held), sorted(held.values()), owner)))
                    continue
                if p.mstate.get("unmodelled"):
                    bad.append((ctxs, "applies %s to the stack" % (p.mstate["unmodelled"],)))
                    continue
                if p.end != "return" or not (isinstance(p.ret, Agg) and p.ret.variant == "Ok") or len(st) != len(below) + 1 or names[:len(below)] != list(below):
                    bad.append((ctxs, "%s, stack %s (expected Ok and one new population on top of %s)" % (p.end, names, list(below))))
                    continue
                if any([c07.otag(x) for x in p.mstate["heap"].get(x_, ())] != ["o:%s" % x_] for x_ in below):
                    bad.append((ctxs, "modifies the population underneath"))
                    continue
                items = p.mstate["heap"].get(st[-1].vid, ()) if isinstance(st[-1], Vec) else ()
                got = [(getattr(x.fields[0], "tag", "?"), x.fields[1].variant if isinstance(x.fields[1], Agg) else "?") if isinstance(x, Agg) and x.name == c07.IND else ("?", "?") for x in items]
                want = [("s:%d" % i, "None") for i in range(size)]
                if got != want:
                    bad.append((ctxs, "pushes %s, expected the %d produced solutions as unevaluated individuals" % (got, size)))
    ctx.check(not bad, rule, fn.key, "pushes-unevaluated-once", "initialize() producing %s solutions: the driver %s" % (bad[0] if bad else ("", "")), loc=fn.loc())
    if not delegated:
        return
    impls = [f for f in F.all_fns if f.impl_trait == "mahf::components::initialization::Initialization" and f.name == "initialize"]
    ctx.floor("C14.R4", "Initialization implementations", len(impls), 3)
    FU = "mahf::components::initialization::functional::"
    # the components' initialize(): the requested number of solutions of the PROBLEM's dimension (the generators below are
    # inlined, so swapped / wrong arguments show in the shape of what comes out)
    for f in impls:
        a = F.adt(f.impl_self_adt)
        fields = {x["name"]: x["i"] for x in a["variants"][0]["fields"]}
        bad = []
        for dim, size in ((3, 2), (1, 3), (2, 0), (0, 2)):
            me = Sym("self", {fields["population_size"]: size, **({fields["p"]: 0.5} if "p" in fields else {})})
            doms = tuple(Agg("adt", "core::ops::range::Range", "Range", [float(10 * k), float(10 * k + 1)]) for k in range(dim))

            def gen_range2(interp, env, f_, args):
                r = load(interp, env, args[1])
                return Sym("x in [%s,%s)" % (r.fields[0], r.fields[1])) if isinstance(r, Agg) and len(r.fields) >= 2 else TOP
            table = {"mahf::problems::VectorProblem::dimension": dim, "mahf::problems::LimitedVectorProblem::domain": Vec("dom"), "rand::rng::Rng::gen_range": gen_range2,
                     "rand::rng::Rng::sample_iter": Agg("repeat", None, None, [Sym("bit")]), "rand::distributions::distribution::Distribution::sample_iter": Agg("repeat", None, None, [Sym("bit")]),
                     "rand::distributions::distribution::Distribution::sample": Sym("bit"), "rand::rng::Rng::sample": Sym("bit"), "rand::rng::Rng::gen_bool": Sym("bit"),
                     "rand::distributions::bernoulli::Bernoulli::new": ok(Sym("bernoulli"))}
            it = install(Interp(f.body, chain(mk_oracle(table), coll_oracle, std_oracle), [me, Sym("problem"), Sym("rng")], facts=F,
                                inline=lambda k: k.startswith(FU) or k.startswith("mahf::components::initialization::") or k.startswith("<mahf::components::initialization::"), max_visits=14))
            it.init_state = {"heap": {"dom": doms}, "next_vec": 0}
            for p in it.run():
                r = p.ret
                if p.end != "return" or not isinstance(r, Vec):
                    bad.append((dim, size, "%s %s" % (p.end, r)))
                    continue
                lens = [len(p.mstate["heap"].get(s_.vid, ())) if isinstance(s_, Vec) else -1 for s_ in p.mstate["heap"].get(r.vid, ())]
                if lens != [dim] * size:
                    bad.append((dim, size, "yields solutions of lengths %s, expected %d solutions of length %d" % (lens, size, dim)))
        ctx.check(not bad, "C14.R4", f.key, "requested-number-of-problem-dimension", "problem dimension %s, population_size %s: initialize %s" % (bad[0] if bad else ("", "", "")), loc=f.loc())
    # random_spread
    fn = F.fn(FU + "random_spread")
    bad = []
    for dim in range(0, 3):
        for n in range(0, 3):
            doms = [(-1.0, 1.0), (10.0, 12.5)][:dim]
            drawn = []

            def gen_range(interp, env, f, args):
                r = load(interp, env, args[1])
                lo, hi = (r.fields[0], r.fields[1]) if isinstance(r, Agg) and len(r.fields) >= 2 else (None, None)
                drawn.append((lo, hi))
                return Sym("x in [%s,%s)" % (lo, hi))
            it = install(Interp(fn.body, chain(mk_oracle({"rand::rng::Rng::gen_range": gen_range}), coll_oracle, std_oracle), [Vec("dom", borrowed=True), n, Sym("rng")], facts=F, inline=lambda k: k.startswith(FU), max_visits=12))
            it.init_state = {"heap": {"dom": tuple(Agg("adt", "core::ops::range::Range", "Range", [a, b]) for a, b in doms)}, "next_vec": 0}
            for p in it.run():
                r = p.ret
                if p.end != "return" or not isinstance(r, Vec):
                    bad.append((dim, n, "%s %s" % (p.end, r)))
                    continue
                sols = p.mstate["heap"].get(r.vid, ())
                shapes = [[getattr(x, "tag", "?") for x in p.mstate["heap"].get(s.vid, ())] if isinstance(s, Vec) else "?" for s in sols]
                want = [["x in [%s,%s)" % d for d in doms]] * n
                if shapes != want:
                    bad.append((dim, n, "yields %s, expected %d solutions with one draw from each domain entry: %s" % (shapes, n, want[:1])))
    ctx.check(not bad, "C14.R4", fn.key, "one-draw-per-domain-entry", "dimension %s, population_size %s: random_spread %s" % (bad[0] if bad else ("", "", "")), loc=fn.loc())
    # random_permutation
    fn = F.fn(FU + "random_permutation")
    bad = []
    for dim in range(0, 4):
        for n in range(0, 3):
            it = install(Interp(fn.body, chain(coll_oracle, std_oracle), [dim, n, Sym("rng")], facts=F, inline=lambda k: k.startswith(FU), max_visits=12))
            it.init_state = {"next_vec": 0}
            for p in it.run():
                r = p.ret
                if p.end != "return" or not isinstance(r, Vec):
                    bad.append((dim, n, "%s %s" % (p.end, r)))
                    continue
                sols = [list(p.mstate["heap"].get(s.vid, ())) if isinstance(s, Vec) else None for s in p.mstate["heap"].get(r.vid, ())]
                if len(sols) != n or any(s is None or sorted(s) != list(range(dim)) for s in sols):
                    bad.append((dim, n, "yields %s, expected %d permutations of 0..%d" % (sols, n, dim)))
                elif dim > 1 and n > 0 and len(p.mstate.get("shuffled", ())) != n:
                    bad.append((dim, n, "shuffles %d of %d solutions" % (len(p.mstate.get("shuffled", ())), n)))
    ctx.check(not bad, "C14.R4", fn.key, "shuffled-identity-permutations", "dimension %s, population_size %s: random_permutation %s" % (bad[0] if bad else ("", "", "")), loc=fn.loc())
    # random_bitstring
    fn = F.fn(FU + "random_bitstring")
    bad = []
    for dim in range(0, 4):
        for n in range(0, 3):
            table = {"rand::rng::Rng::sample_iter": Agg("repeat", None, None, [Sym("bit")]), "rand::distributions::distribution::Distribution::sample_iter": Agg("repeat", None, None, [Sym("bit")]),
                     "rand::distributions::distribution::Distribution::sample": Sym("bit"), "rand::rng::Rng::sample": Sym("bit"), "rand::rng::Rng::gen_bool": Sym("bit"), "rand::distributions::bernoulli::Bernoulli::new": ok(Sym("bernoulli"))}
            it = install(Interp(fn.body, chain(mk_oracle(table), coll_oracle, std_oracle), [dim, 0.5, n, Sym("rng")], facts=F, inline=lambda k: k.startswith(FU), max_visits=12))
            it.init_state = {"next_vec": 0}
            for p in it.run():
                r = p.ret
                if p.end != "return" or not isinstance(r, Vec):
                    bad.append((dim, n, "%s %s" % (p.end, r)))
                    continue
                lens = [len(p.mstate["heap"].get(s.vid, ())) if isinstance(s, Vec) else -1 for s in p.mstate["heap"].get(r.vid, ())]
                if lens != [dim] * n:
                    bad.append((dim, n, "yields bitstrings of lengths %s, expected %d of length %d" % (lens, n, dim)))
    ctx.check(not bad, "C14.R4", fn.key, "dimension-bits", "dimension %s, population_size %s: random_bitstring %s" % (bad[0] if bad else ("", "", "")), loc=fn.loc())


def run(ctx):
    ctx.guard("C14.DRV", "operators execute through their driver", lambda: __import__("initspec").check_delegations(ctx, "C14", 5))
    ctx.guard("C14.K17", "constructor fidelity", lambda: __import__("ctor").check_for(ctx, "C14", 17))
    ctx.guard("C14.R1", "constrain", lambda: r1_constrain(ctx))
    ctx.guard("C14.R3", "driver", lambda: r3_driver(ctx))
    ctx.guard("C14.R4", "initialization", lambda: r4_initialization(ctx))
