"""K6 — finite-domain evaluation of one MIR body.

A small abstract interpreter: locals hold members of a finite domain (booleans, small integers,
floats from a stated finite set, role-tagged symbols, aggregates of those) or TOP (unknown).
Calls are answered by a rule-supplied *oracle* (a fixed transfer table of std predicates and the
rule's own abstract answers for the anchors); unknown calls return TOP.  A switch on TOP forks.
Nothing of the crate is executed: the interpreter walks the CFG of the fact base.

Used to compute *action tables*: for each abstract input (e.g. the three orderings of two objective
values, the five regions of a coordinate, the three placements of a state type in the scope chain)
the set of events (calls, stores, returns) that can happen — compared with the property's table.
"""
import math


import os as _os
_TOPS = set() if _os.environ.get("MAHF_SA_TOPS") else None
CURRENT = [None]     # the interpreter whose oracle is being consulted right now (shared with collmodel)
BOXLIKE = ("alloc::boxed::Box", "core::ptr::unique::Unique", "core::ptr::non_null::NonNull")


class _Top:
    def __repr__(self):
        return "TOP"


TOP = _Top()


class Sym:
    """an opaque role-tagged symbol (e.g. 'self', 'candidate'); equality is identity of the tag"""

    def __init__(self, tag, fields=None, boxlike=False):
        self.tag = tag
        self.fields = fields if fields is not None else {}
        self.boxlike = boxlike  # unknown field projections (Box -> Unique -> NonNull -> pointer) stay on the symbol

    def __repr__(self):
        return "Sym(%s)" % self.tag

    def __eq__(self, o):
        return isinstance(o, Sym) and o.tag == self.tag

    def __hash__(self):
        return hash(("Sym", self.tag))


class Ref:
    def __init__(self, local, proj, frame=None):
        self.local = local
        self.proj = list(proj)
        self.frame = frame

    def __repr__(self):
        return "Ref(%s_%s%s)" % (("f%s:" % self.frame) if self.frame is not None else "", self.local, self.proj)


class HRef:
    """reference to element idx of heap vector vid (heap = mstate['heap']), optionally to a part of it (proj: field /
    downcast projections applied to the element, e.g. `&mut population[i].objective`)"""

    def __init__(self, vid, idx, proj=()):
        self.vid = vid
        self.idx = idx
        self.proj = tuple(tuple(x) if isinstance(x, list) else x for x in proj)

    def __repr__(self):
        return "HRef(%s[%d]%s)" % (self.vid, self.idx, "".join(".%s" % (x[1],) if isinstance(x, tuple) and x[0] == "f" else "" for x in self.proj))

    def __eq__(self, o):
        return isinstance(o, HRef) and (o.vid, o.idx, o.proj) == (self.vid, self.idx, self.proj)

    def __hash__(self):
        return hash(("HRef", self.vid, self.idx, self.proj))


def href_get(interp, env, h):
    """the value an element reference denotes"""
    items = interp.mstate.get("heap", {}).get(h.vid, ())
    if h.idx >= len(items):
        return TOP
    v = items[h.idx]
    if h.proj:
        v = interp._project(env, v, [list(x) if isinstance(x, tuple) else x for x in h.proj])
    return v


def href_set(interp, env, h, val, extra=()):
    """store through an element reference (with further projections `extra`)"""
    heap = dict(interp.mstate.get("heap", {}))
    items = list(heap.get(h.vid, ()))
    if h.idx >= len(items):
        return False
    path = [list(x) if isinstance(x, tuple) else x for x in h.proj] + list(extra)
    items[h.idx] = interp._store(env, items[h.idx], path, val) if path else val
    heap = dict(interp.mstate.get("heap", {}))      # _store may have updated other vectors
    cur = list(heap.get(h.vid, ()))
    if h.idx < len(cur):
        cur[h.idx] = items[h.idx]
    heap[h.vid] = tuple(cur)
    interp.mstate["heap"] = heap
    if h.vid == "__stack" and "stack" in interp.mstate:
        interp.mstate["stack"] = heap[h.vid]      # the population stack's mirror (c04.StackModel): a slot written through `last_mut()` / `current_mut()`
    return True


class Agg:
    def __init__(self, kind, name, variant, fields, gargs=None):
        self.kind = kind
        self.name = name
        self.variant = variant
        self.fields = list(fields)
        if gargs is not None:
            self.gargs = gargs     # instantiated generic arguments of the ADT, where the constructing code is known

    def with_fields(self, fields):
        """a copy with other fields (keeps the instantiated generic arguments)"""
        c = Agg(self.kind, self.name, self.variant, fields, getattr(self, "gargs", None))
        if hasattr(self, "tsubst"):
            c.tsubst = self.tsubst
        return c

    def __repr__(self):
        return "%s::%s%s" % (self.name, self.variant, self.fields) if self.name else "(%s)" % (self.fields,)


class Event:
    def __init__(self, kind, bb, data):
        self.kind = kind
        self.bb = bb
        self.data = data

    def __repr__(self):
        return "%s@bb%d:%s" % (self.kind, self.bb, self.data)


class Path:
    def __init__(self):
        self.events = []
        self.ret = TOP
        self.end = None  # 'return' | 'panic' | 'diverge' | 'limit'
        self.blocks = []
        self.mstate = {}
        self.env = {}


_FID = [0]
_STEPS = [0]                 # basic blocks interpreted for the current top-level evaluation (all nested frames)
_STEP_BUDGET = [400000]


def tsub(ty, mapping):
    """type text with the generic parameter names of the enclosing (inlined) body replaced by their instantiation"""
    if not mapping or not isinstance(ty, str):
        return ty
    import re as _re
    return _re.sub(r"\b[A-Za-z_][A-Za-z0-9_]*\b", lambda m: mapping.get(m.group(0), m.group(0)), ty)


# keys of the function bodies the interpreter has entered (root or inlined) in this process: reported as coverage
EVALUATED_BODIES = set()


from core import helper_file as _helper_file


class Interp:
    def __init__(self, body, oracle, args, max_visits=10, max_paths=4000, facts=None, inline=None, depth=0, max_depth=12):
        """args: list of initial values for _1.._argc (TOP for unknown).
        facts + inline(key) -> bool: crate-local callees for which inline(key) holds are interpreted
        too (bounded by max_depth), as are closures / fn items handed to Option/Result combinators."""
        self.body = body
        self.oracle = oracle
        self.args = args
        self.max_visits = max_visits
        self.max_paths = max_paths
        self.paths = []
        self.facts = facts
        self.inline = inline
        self.depth = depth
        self.max_depth = max_depth
        _FID[0] += 1
        self.fid = _FID[0]
        _fn = getattr(body, "fn", None)
        if _fn is not None:
            EVALUATED_BODIES.add(_fn.key)
        self.init_state = {}
        self.mstate = {}   # model state of the path being executed (oracles may read and update it)
        self.inline_siblings = True
        self.never_inline = None     # optional predicate(key): callees a rule wants answered by its oracle although they are helpers
        self.root_files = None
        self.dispatch = False    # resolve calls on trait objects by the abstract value's type (virtual dispatch)
        self.tsubst = {}         # generic parameter name -> type text it is instantiated with in this frame (inlined bodies)
        self._call_gargs = None  # instantiated generic arguments of the call being inlined
        self.slice_len = None    # hook: length of a modelled slice value
        self.index_hook = None   # hook: indexing into a modelled collection

    def frame_env(self, env, ref):
        """the environment a reference's target lives in"""
        fr = getattr(ref, "frame", None)
        if fr is None or fr == self.fid or (fr == "root" and self.depth == 0):
            return env
        return self.mstate.get("frames", {}).get(fr, env)

    def _tag(self, v, fid, depth=0):
        """untagged references found inside a foreign frame belong to that frame"""
        if depth > 6:
            return v
        if isinstance(v, Ref) and getattr(v, "frame", None) is None:
            return Ref(v.local, v.proj, frame=fid)
        if isinstance(v, Agg) and any(isinstance(x, (Ref, Agg)) for x in v.fields):
            return v.with_fields([self._tag(x, fid, depth + 1) for x in v.fields])
        return v

    def read_ref(self, env, ref):
        e2 = self.frame_env(env, ref)
        v = self._project(e2, e2.get(ref.local, TOP), ref.proj)
        fr = getattr(ref, "frame", None)
        if fr is not None and fr != self.fid:
            v = self._tag(v, fr)
        return v

    def write_ref(self, env, ref, val, extra_proj=()):
        e2 = self.frame_env(env, ref)
        self.write_place(e2, [ref.local, list(ref.proj) + list(extra_proj)], val)

    def freeze(self, env, v, depth=0):
        """values crossing a frame boundary: references into this frame's locals are tagged with the frame
        (the callee reads and writes through them; the caller's environment is registered in the model state)"""
        if depth > 6:
            return TOP
        if isinstance(v, Ref):
            tgt = self.read_ref(env, v)
            if isinstance(tgt, Sym) or (hasattr(tgt, "vid") and not isinstance(tgt, HRef)):
                return tgt       # symbols and heap handles are reference-like themselves
            if isinstance(tgt, Ref):
                return self.freeze(env, tgt, depth + 1)
            if getattr(v, "frame", None) is None:
                fr = dict(self.mstate.get("frames", {}))
                fr[self.fid] = env
                self.mstate["frames"] = fr
                return Ref(v.local, v.proj, frame=self.fid)
            return v
        if isinstance(v, Agg):
            return v.with_fields([self.freeze(env, x, depth + 1) for x in v.fields])
        if type(v).__name__ == "It" and type(getattr(v, "items", None)).__name__ == "LazyItems":
            # a lazy adapter chain handed to a callee (`f(xs.iter().map(|x| x + captured))`): its closures' captures are
            # references into THIS frame and must stay valid while the callee takes the items
            lz = v.items
            v2 = type(v)(type(lz)([self.freeze(env, x, depth + 1) for x in lz.base], [self.freeze(env, fv, depth + 1) for fv in lz.fns], lz.owner), v.adapters, v.extra)
            return v2
        return v

    def resolve_own(self, env, v, depth=0):
        """a value leaving this frame: references to this frame's own locals are replaced by their targets"""
        if depth > 6:
            return TOP
        if isinstance(v, Ref) and (getattr(v, "frame", None) in (None, self.fid)) and not (self.depth == 0):
            return self.resolve_own(env, self._project(env, env.get(v.local, TOP), v.proj), depth + 1)
        if isinstance(v, Agg):
            return v.with_fields([self.resolve_own(env, x, depth + 1) for x in v.fields])
        return v

    def sibling(self, key):
        """a private helper function defined in the same source file as the function under evaluation (an extracted
        helper is part of the code being evaluated, whatever the rule's inlining predicate says)"""
        if not self.inline_siblings or not key:
            return False
        if self.never_inline is not None and self.never_inline(key):
            return False
        rf = self.root_files
        if rf is None:
            fn0 = getattr(self.body, "fn", None)
            rf = self.root_files = {fn0.file} if fn0 is not None else set()
        cf = self.facts.fn_opt(key)
        here = getattr(getattr(self.body, "fn", None), "file", None)
        return self.facts.is_private_helper(cf, set(rf) | ({here} if here else set()))

    def promoted_value(self, idx):
        """value of a promoted constant of this body's function (`&(0.0..=1.0)`, `&[1, 2]`): its small body is
        interpreted; the result is the referenced value (references to plain values are transparent)"""
        fn = getattr(self.body, "fn", None)
        proms = getattr(fn, "promoted", None) or []
        if idx >= len(proms) or self.depth >= self.max_depth:
            return TOP
        cache = getattr(fn, "_prom_cache", None)
        if cache is None:
            cache = fn._prom_cache = {}
        if idx in cache:
            return cache[idx]
        sub = Interp(proms[idx], self.oracle, [], 3, 16, self.facts, self.inline, self.depth + 1, self.max_depth)
        sub.variant_index = self.variant_index
        saved = self.mstate
        sub.init_state = {}
        val = TOP
        try:
            paths = sub.run()
            if len(paths) == 1 and paths[0].end == "return":
                v = paths[0].ret
                hops = 0
                while isinstance(v, Ref) and hops < 4:
                    v = sub._project(paths[0].env, paths[0].env.get(v.local, TOP), v.proj)
                    hops += 1
                if not _contains_ref(v):
                    val = v
        finally:
            self.mstate = saved
        cache[idx] = val
        return val

    # ---- nested interpretation
    def call_body(self, fn, args):
        """outcomes [(ret, events, end)] of interpreting crate function `fn` on args"""
        if self.depth >= self.max_depth:
            return [(TOP, [], "limit", dict(self.mstate))]
        a = list(args)
        if getattr(self, "cur_env", None) is not None:
            a = [self.freeze(self.cur_env, x) for x in a]
        body = fn.body
        if body.argc != len(a):
            if len(a) < body.argc:
                a = a + [TOP] * (body.argc - len(a))
            else:
                a = a[:body.argc]
        sub = Interp(body, self.oracle, a, self.max_visits, self.max_paths, self.facts, self.inline, self.depth + 1, self.max_depth)
        sub.variant_index = self.variant_index
        sub.dispatch = self.dispatch
        cg = self._call_gargs
        self._call_gargs = None
        if isinstance(cg, dict):
            sub.tsubst = cg
        elif cg is not None:
            names = [p_["name"] for p_ in (fn.generics or {}).get("params", []) if p_.get("kind") != "lifetime"]
            if len(names) == len(cg):
                sub.tsubst = dict(zip(names, cg))
        sub.inline_siblings = self.inline_siblings
        sub.never_inline = self.never_inline
        sub.root_files = self.root_files if self.root_files is not None else ({self.body.fn.file} if getattr(self.body, "fn", None) is not None else set())
        sub.slice_len = self.slice_len
        sub.index_hook = self.index_hook
        sub.init_state = dict(self.mstate)
        outs = []
        for p in sub.run():
            outs.append((sub.resolve_own(p.env, p.ret) if p.end == "return" else p.ret, [Event("enter", -1, fn.key)] + p.events, p.end, p.mstate))
        return outs or [(TOP, [], "diverge", dict(self.mstate))]

    def call_value(self, fv, args, rust_call=False):
        """call a function value (closure aggregate or fn item) on args; rust_call: args is the single
        argument tuple of a call through the Fn* traits"""
        if self.facts is None:
            return None
        if rust_call and len(args) == 1 and isinstance(args[0], Agg) and args[0].kind == "tuple":
            args = list(args[0].fields)
        hops = 0
        self_ref = None
        while isinstance(fv, (Ref, HRef)) and hops < 4:      # `&mut closure` / `&fn item`
            self_ref = fv
            if isinstance(fv, Ref):
                fv = self.read_ref(getattr(self, "cur_env", None) or {}, fv)
            else:
                fv = href_get(self, getattr(self, "cur_env", None) or {}, fv)
            hops += 1
        if isinstance(fv, Sym) and self.oracle is not None:
            # an opaque function value (a fn-pointer field modelled as a symbol): the rule's oracle answers the call
            env_ = getattr(self, "cur_env", None) or {}
            fdesc = {"kind": "fnptr", "fnptr_value": fv, "key": "fnptr", "name": "fnptr"}
            res = self.oracle(self, env_, fdesc, list(args), {"target": 0, "dest": [0, []], "args": [], "f": fdesc}, -1, Path())
            if res is not TOP and res != "DIVERGE":
                return [(res, [], "return", dict(self.mstate))]
            return None
        if isinstance(fv, Agg) and fv.kind == "closure":
            fn = self.facts.fn_opt(fv.name)
            if fn is None:
                return None
            ts = getattr(fv, "tsubst", None)
            if ts:
                self._call_gargs = dict(ts)      # a closure body names its creator's type parameters
            # called through `&mut closure`: the body's `self` is that reference, so state captured BY VALUE persists between calls
            return self.call_body(fn, [self_ref if self_ref is not None and fv.fields else fv] + list(args))
        if isinstance(fv, tuple) and fv and fv[0] == "fn":
            key = fv[1].get("resolved", {}).get("key") or fv[1].get("key")
            fn = self.facts.fn_opt(key)
            if fn is not None and (self.inline is None or self.inline(key) or self.sibling(key)):
                if not fv[1].get("resolved", {}).get("key"):
                    self._call_gargs = fv[1].get("gargs_inst") or fv[1].get("gargs")
                return self.call_body(fn, list(args))
            # not a crate function (`Vec::as_slice`, `Clone::clone`, ... used as a function value): ask the oracle
            if self.oracle is not None:
                env_ = getattr(self, "cur_env", None) or {}
                res = self.oracle(self, env_, fv[1], list(args), {"target": 0, "dest": [0, []], "args": [], "f": fv[1]}, -1, Path())
                if res is not TOP and res != "DIVERGE":
                    return [(res, [], "return", dict(self.mstate))]
            return None
        return None

    COMBINATORS = {
        # (adt, method) -> (variant that triggers the call, how the result is wrapped)
        ("core::option::Option", "map"): ("Some", "some"),
        ("core::option::Option", "and_then"): ("Some", "id"),
        ("core::option::Option", "unwrap_or_else"): ("None", "id"),
        ("core::option::Option", "or_else"): ("None", "id"),
        ("core::option::Option", "ok_or_else"): ("None", "err"),
        ("core::result::Result", "map"): ("Ok", "ok"),
        ("core::result::Result", "and_then"): ("Ok", "id"),
        ("core::result::Result", "map_err"): ("Err", "err"),
        ("core::result::Result", "unwrap_or_else"): ("Err", "id"),
        ("core::result::Result", "or_else"): ("Err", "id"),
    }

    def combinator(self, f, args):
        """Option/Result combinators applied to a known variant: [(ret, events, end)] or None"""
        key = (f.get("self_adt"), f.get("name"))
        a0 = args[0] if args else None
        if key[0] in ("core::option::Option", "core::result::Result") and isinstance(a0, Agg) and a0.name == key[0]:
            hit = a0.variant in ("Some", "Ok")
            inner = list(a0.fields[:1])
            nm = key[1]
            if nm == "map_or" and len(args) == 3:
                if hit:
                    return self.call_value(args[2], inner)
                return [(args[1], [], "return", dict(self.mstate))]
            if nm == "map_or_else" and len(args) == 3:
                if hit:
                    return self.call_value(args[2], inner)
                return self.call_value(args[1], [] if key[0].endswith("Option") else inner)
            if nm in ("is_some_and", "is_ok_and") and len(args) == 2:
                if hit:
                    return self.call_value(args[1], inner)
                return [(False, [], "return", dict(self.mstate))]
            if nm == "is_none_or" and len(args) == 2:
                if hit:
                    return self.call_value(args[1], inner)
                return [(True, [], "return", dict(self.mstate))]
            if nm == "unwrap_or" and len(args) == 2:
                return [(inner[0] if hit else args[1], [], "return", dict(self.mstate))]
            if nm == "filter" and key[0].endswith("Option") and len(args) == 2:
                if not hit:
                    return [(NONE, [], "return", dict(self.mstate))]
                # the predicate receives a reference to the payload; a plain value stands for its own reference
                outs = self.call_value(args[1], inner)
                if outs is None:
                    return None
                res = []
                for (r, ev, e, ms) in outs:
                    if e != "return":
                        res.append((r, ev, e, ms))
                    elif isinstance(r, bool):
                        res.append((a0 if r else NONE, ev, e, ms))
                    else:
                        res.append((a0, ev, e, ms))
                        res.append((NONE, ev, e, ms))
                return res
            if nm == "zip" and key[0].endswith("Option") and len(args) == 2 and isinstance(args[1], Agg) and args[1].name == key[0]:
                both = hit and args[1].variant == "Some"
                return [(some(Agg("tuple", None, None, [inner[0], args[1].fields[0]])) if both else NONE, [], "return", dict(self.mstate))]
            if nm in ("or", "xor") and key[0].endswith("Option") and len(args) == 2 and isinstance(args[1], Agg) and args[1].name == key[0]:
                o_hit = args[1].variant == "Some"
                if nm == "or":
                    return [(a0 if hit else args[1], [], "return", dict(self.mstate))]
                return [((a0 if hit else args[1]) if hit != o_hit else NONE, [], "return", dict(self.mstate))]
        if f.get("key") in ("bool::then_some", "bool::then") and len(args) == 2 and a0 is TOP:
            # undecided condition: both outcomes
            res = [(NONE, [], "return", dict(self.mstate))]
            if f.get("key") == "bool::then_some":
                res.append((some(args[1]), [], "return", dict(self.mstate)))
            else:
                outs = self.call_value(args[1], [])
                if outs is None:
                    return None
                res += [(some(r) if e == "return" else r, ev, e, ms) for (r, ev, e, ms) in outs]
            return res
        if f.get("key") == "bool::then_some" and len(args) == 2 and isinstance(a0, bool):
            return [(some(args[1]) if a0 else NONE, [], "return", dict(self.mstate))]
        if f.get("key") == "bool::then" and len(args) == 2 and isinstance(a0, bool):
            if not a0:
                return [(NONE, [], "return", dict(self.mstate))]
            outs = self.call_value(args[1], [])
            if outs is None:
                return None
            return [(some(r) if e == "return" else r, ev, e, ms) for (r, ev, e, ms) in outs]
        if key not in self.COMBINATORS or len(args) < 2:
            return None
        a0 = args[0]
        if not (isinstance(a0, Agg) and a0.name == key[0]):
            return None
        trig, wrap = self.COMBINATORS[key]
        if a0.variant != trig:
            return None  # the std oracle knows the pass-through cases
        inner = list(a0.fields[:1])
        if trig == "None":
            inner = []
        outs = self.call_value(args[1], inner)
        if outs is None:
            return None
        res = []
        for (ret, evs, end, ms) in outs:
            if end != "return":
                res.append((ret, evs, end, ms))
                continue
            w = {"some": some, "ok": ok, "err": err, "id": lambda x: x}[wrap](ret)
            res.append((w, evs, end, ms))
        return res

    # ---- places
    def read_place(self, env, place):
        v = env.get(place[0], TOP)
        return self._project(env, v, place[1])

    def _project(self, env, v, proj):
        for i, e in enumerate(proj):
            if v is TOP:
                return TOP
            if e == "*":
                if isinstance(v, Ref):
                    v = self.read_ref(env, v)
                elif isinstance(v, HRef):
                    v = href_get(self, env, v)
                elif isinstance(v, Sym):
                    v = v.fields.get("*", v)
                else:
                    pass  # references to plain values are transparent
            elif e[0] == "f" and len(e) > 3 and e[3] in BOXLIKE and not (isinstance(v, Agg) and v.name == e[3]):
                continue       # Box / Unique / NonNull are transparent: the boxed value stands for the box
            elif e[0] == "f":
                if isinstance(v, Agg):
                    v = v.fields[e[1]] if e[1] < len(v.fields) else TOP
                elif isinstance(v, Sym):
                    v = v.fields.get(e[1], v if v.boxlike else TOP)
                else:
                    return TOP
            elif e[0] == "d":
                # downcast keeps the value; a mismatching variant is an impossible path
                if isinstance(v, Agg) and v.variant is not None and e[2] is not None and v.variant != e[2]:
                    return TOP
            elif e[0] == "ci" and isinstance(v, Agg) and v.kind in ("array", "slice", "tuple"):
                idx = (len(v.fields) - e[1]) if e[2] else e[1]
                was_slice = v.kind == "slice"
                v = v.fields[idx] if 0 <= idx < len(v.fields) else TOP
                if was_slice and isinstance(v, HRef):     # a modelled sub-slice holds its elements by reference: the place IS the element
                    v = self._project(env, v, ["*"])
            elif e[0] == "i" and isinstance(v, Agg) and v.kind in ("array", "slice"):
                idx = env.get(e[1], TOP)
                was_slice = v.kind == "slice"
                v = v.fields[idx] if isinstance(idx, int) and not isinstance(idx, bool) and 0 <= idx < len(v.fields) else TOP
                if was_slice and isinstance(v, HRef):
                    v = self._project(env, v, ["*"])
            elif e[0] == "sub" and isinstance(v, Agg) and v.kind in ("array", "slice"):
                hi_ = (len(v.fields) - e[2]) if e[3] else e[2]
                v = Agg("slice", None, None, v.fields[e[1]:hi_])
            elif e[0] in ("i", "ci", "sub"):
                if isinstance(v, Sym) and "[]" in v.fields:
                    v = v.fields["[]"]
                elif self.index_hook is not None:
                    v = self.index_hook(self, env, v, e)
                else:
                    return TOP
            else:
                return TOP
        return v

    def write_place(self, env, place, val):
        l, proj = place
        if not proj:
            env[l] = val
            return
        env[l] = self._store(env, env.get(l, TOP), list(proj), val)

    def _store(self, env, base, proj, val):
        """value of `base` after storing val at base.proj (writes through references as a side effect)"""
        if not proj:
            return val
        e = proj[0]
        if e == "*":
            if isinstance(base, Ref):
                self.write_ref(env, base, val, proj[1:])
                return base
            if isinstance(base, HRef):
                href_set(self, env, base, val, proj[1:])
                return base
            if isinstance(base, Sym):
                return base  # stores into opaque symbols are visible as events only
            if len(proj) == 1 and getattr(base, "borrowed", False) and hasattr(base, "vid") and hasattr(val, "vid") and not isinstance(val, HRef) \
                    and getattr(base, "lo", None) is None:
                # `*v = w` through a `&mut Vec<_>` handle of the collection model: the vector takes over w's elements
                h = dict(self.mstate.get("heap", {}))
                items = list(h.get(val.vid, ()))
                if getattr(val, "lo", None) is not None:
                    items = items[val.lo:val.hi]
                h[base.vid] = tuple(items)
                self.mstate["heap"] = h
                return base
            # transparent reference to a plain value
            return self._store(env, base, proj[1:], val)
        if isinstance(e, list) and e[0] == "d":
            return self._store(env, base, proj[1:], val)
        if isinstance(e, list) and e[0] in ("i", "ci") and isinstance(base, Agg) and base.kind == "slice":
            idx = env.get(e[1], TOP) if e[0] == "i" else ((len(base.fields) - e[1]) if e[2] else e[1])
            if isinstance(idx, int) and not isinstance(idx, bool) and 0 <= idx < len(base.fields) and isinstance(base.fields[idx], HRef):
                self._store(env, base.fields[idx], ["*"] + list(proj[1:]), val)
                return base
        if isinstance(e, list) and e[0] in ("i", "ci") and hasattr(base, "vid") and not isinstance(base, HRef):
            h = dict(self.mstate.get("heap", {}))
            items = list(h.get(base.vid, ()))
            lo_ = getattr(base, "lo", None) or 0
            n_ = (base.hi - lo_) if getattr(base, "lo", None) is not None else len(items)
            idx = env.get(e[1], TOP) if e[0] == "i" else ((n_ - e[1]) if e[2] else e[1])
            if isinstance(idx, int) and not isinstance(idx, bool) and 0 <= idx < n_:
                idx += lo_
                items[idx] = self._store(env, items[idx], proj[1:], val)
                h[base.vid] = tuple(items)
                self.mstate["heap"] = h
                if base.vid == "__stack" and "stack" in self.mstate:
                    self.mstate["stack"] = h[base.vid]
            return base
        if isinstance(e, list) and e[0] == "f" and len(e) > 3 and e[3] in BOXLIKE and not (isinstance(base, Agg) and base.name == e[3]):
            return self._store(env, base, proj[1:], val)
        if isinstance(e, list) and e[0] == "f":
            if isinstance(base, Agg):
                nb = base.with_fields(base.fields)
                while len(nb.fields) <= e[1]:
                    nb.fields.append(TOP)
                nb.fields[e[1]] = self._store(env, nb.fields[e[1]], proj[1:], val)
                return nb
            if isinstance(base, Sym):
                return base
            return TOP
        return base if isinstance(base, Sym) else TOP

    def operand(self, env, op):
        if op[0] in ("copy", "move"):
            return self.read_place(env, op[1])
        if op[0] == "const":
            c = op[1]
            if "fn" in c:
                fd = c["fn"]
                if self.tsubst and fd.get("gargs"):
                    fd = dict(fd)
                    fd["gargs_inst"] = [tsub(g, self.tsubst) for g in fd["gargs"]]     # a function item named inside a generic body
                return ("fn", fd)
            if "f" in c:
                return float(c["f"])
            if "v" in c:
                if c["ty"] == "bool":
                    return bool(c["v"])
                return c["v"]
            if c.get("text") == "()" or c["ty"] == "()":
                return Agg("tuple", None, None, [])
            if "promoted" in c:
                return self.promoted_value(c["promoted"])
            if "variant" in c and "adt" in c:
                return Agg("adt", c["adt"], c["variant"], [])
            return TOP
        return TOP

    # ---- rvalues
    def binop(self, op, a, b):
        if a is TOP or b is TOP:
            # comparisons of identical symbols are decided
            return TOP
        try:
            if isinstance(a, Sym) or isinstance(b, Sym):
                if op == "Eq":
                    return a == b if (isinstance(a, Sym) and isinstance(b, Sym)) else TOP
                if op == "Ne":
                    return a != b if (isinstance(a, Sym) and isinstance(b, Sym)) else TOP
                return TOP
            if op in ("Add", "AddWithOverflow", "AddUnchecked"):
                r = a + b
                # (integers are unbounded here; the widest machine integer the crate computes with is 64 bits: a sum that
                # leaves it overflows whatever the operand type is)
                ov = isinstance(r, int) and not isinstance(r, bool) and (r >= 2 ** 64 or r < -2 ** 63)
                return Agg("tuple", None, None, [r, ov]) if op == "AddWithOverflow" else r
            if op in ("Sub", "SubWithOverflow", "SubUnchecked"):
                r = a - b
                if op == "SubWithOverflow":
                    return Agg("tuple", None, None, [r, isinstance(r, int) and r < 0])
                return r
            if op in ("Mul", "MulWithOverflow", "MulUnchecked"):
                r = a * b
                ov = isinstance(r, int) and not isinstance(r, bool) and (r >= 2 ** 64 or r < -2 ** 63)
                return Agg("tuple", None, None, [r, ov]) if op == "MulWithOverflow" else r
            if op == "Div":
                if isinstance(a, float) or isinstance(b, float):
                    if b == 0:
                        return math.nan if a == 0 or a != a else math.copysign(math.inf, a) * math.copysign(1.0, b)
                    return a / b
                return a // b if b != 0 else TOP
            if op == "Rem":
                if isinstance(a, float) or isinstance(b, float):
                    return math.fmod(a, b) if b != 0 else math.nan
                return a % b if b != 0 else TOP
            if op == "Eq":
                return a == b
            if op == "Ne":
                return a != b
            if op == "Lt":
                return a < b
            if op == "Le":
                return a <= b
            if op == "Gt":
                return a > b
            if op == "Ge":
                return a >= b
            if op == "BitAnd":
                return (a and b) if isinstance(a, bool) else a & b
            if op == "BitOr":
                return (a or b) if isinstance(a, bool) else a | b
            if op == "BitXor":
                return (a != b) if isinstance(a, bool) else a ^ b
        except Exception:
            return TOP
        return TOP

    def rvalue(self, env, rv):
        k = rv[0]
        if k == "use":
            return self.operand(env, rv[1])
        if k in ("ref", "rawptr"):
            p = rv[2]
            # `&v[i]` with v a modelled heap vector (possibly behind references / captured): an element reference
            if p[1] and isinstance(p[1][-1], list) and p[1][-1][0] in ("i", "ci"):
                base = self.read_place(env, [p[0], p[1][:-1]])
                hops = 0
                while isinstance(base, Ref) and hops < 4:
                    base = self.read_ref(env, base)
                    hops += 1
                if isinstance(base, Agg) and base.kind == "slice":
                    e = p[1][-1]
                    idx = env.get(e[1], TOP) if e[0] == "i" else ((len(base.fields) - e[1]) if e[2] else e[1])
                    if isinstance(idx, int) and not isinstance(idx, bool) and 0 <= idx < len(base.fields) and isinstance(base.fields[idx], HRef):
                        return base.fields[idx]
                if hasattr(base, "vid") and not isinstance(base, HRef):
                    items = self.mstate.get("heap", {}).get(base.vid, ())
                    lo_ = getattr(base, "lo", None) or 0
                    n_ = (base.hi - lo_) if getattr(base, "lo", None) is not None else len(items)
                    e = p[1][-1]
                    idx = env.get(e[1], TOP) if e[0] == "i" else ((n_ - e[1]) if e[2] else e[1])
                    if isinstance(idx, int) and not isinstance(idx, bool) and 0 <= idx < n_:
                        return HRef(base.vid, lo_ + idx)
            # &*r  ==> r   ;  & (*r).f  ==> Ref(target.f)
            if p[1] and p[1][0] == "*":
                base = env.get(p[0], TOP)
                if isinstance(base, Ref):
                    # (an index by a local is evaluated when the reference is taken: `&ids[i]` inside a closure whose `ids` is a
                    # captured reference into another frame must not carry this frame's local number along)
                    rest_ = [(["ci", env.get(x[1]), False] if isinstance(x, list) and x[0] == "i" and isinstance(env.get(x[1]), int) and not isinstance(env.get(x[1]), bool) else x)
                             for x in p[1][1:]]
                    return Ref(base.local, base.proj + rest_, frame=getattr(base, "frame", None))
                if isinstance(base, Sym):
                    if len(p[1]) == 1:
                        return base
                    return self._project(env, base, p[1])
                if base is TOP:
                    return TOP
                if isinstance(base, HRef):
                    if len(p[1]) == 1:
                        return base
                    rest = p[1][1:]
                    if all(isinstance(x, list) and x[0] in ("f", "d") for x in rest):
                        tgt_ = self._project(env, base, p[1])
                        if not (hasattr(tgt_, "vid") or isinstance(tgt_, (Sym, HRef, Ref))):     # handles and symbols are reference-like themselves
                            return HRef(base.vid, base.idx, tuple(base.proj) + tuple(tuple(x) for x in rest))
                    v_ = self._project(env, base, p[1])
                    if hasattr(v_, "borrowed") and not v_.borrowed:      # `&mut elem.field` holding a vector handle
                        v_ = type(v_)(v_.vid, True, v_.lo, v_.hi)
                    return v_
                # reference to (part of) a plain value: transparent
                return self._project(env, base, p[1][1:])
            return Ref(p[0], p[1])
        if k == "bin":
            return self.binop(rv[1], self.operand(env, rv[2]), self.operand(env, rv[3]))
        if k == "un":
            a = self.operand(env, rv[2])
            if a is TOP:
                return TOP
            if rv[1] == "Not":
                return (not a) if isinstance(a, bool) else TOP
            if rv[1] == "Neg":
                return -a if isinstance(a, (int, float)) else TOP
            if rv[1] == "PtrMetadata":
                if isinstance(a, Agg) and a.kind in ("array", "slice"):
                    return len(a.fields)
                if self.slice_len is not None:
                    return self.slice_len(self, env, a)
                return TOP
            return TOP
        if k == "cast":
            a = self.operand(env, rv[2])
            if rv[1] in ("IntToFloat",) and isinstance(a, int):
                return float(a)
            if rv[1] in ("FloatToFloat", "IntToInt", "Transmute", "PtrToPtr", "Subtype") or rv[1].startswith("PointerCoercion"):
                return a
            if rv[1] == "FloatToInt" and isinstance(a, float) and a == a and abs(a) != math.inf:
                return int(a)
            return TOP
        if k == "discr":
            v = self.read_place(env, rv[1])
            if isinstance(v, Agg) and v.variant is not None:
                return ("variant", v.name, v.variant)
            if isinstance(v, bool):
                return int(v)
            return TOP
        if k == "agg":
            kd = rv[1]
            vals = [self.operand(env, o) for o in rv[2]]
            if kd["k"] == "adt":
                a_ = Agg("adt", kd["adt"], kd["vname"], vals)
                if kd.get("gargs"):
                    a_.gargs = [tsub(g, self.tsubst) for g in kd["gargs"]]
                return a_
            if kd["k"] == "tuple":
                return Agg("tuple", None, None, vals)
            if kd["k"] == "closure":
                c_ = Agg("closure", kd["closure"], None, vals)
                if self.tsubst:
                    c_.tsubst = dict(self.tsubst)     # a closure body names its parent's type parameters
                return c_
            return Agg(kd["k"], None, None, vals)
        return TOP

    # ---- running
    VARIANT_INDEX = {
        ("core::option::Option", "None"): 0, ("core::option::Option", "Some"): 1,
        ("core::result::Result", "Ok"): 0, ("core::result::Result", "Err"): 1,
        ("core::ops::control_flow::ControlFlow", "Continue"): 0, ("core::ops::control_flow::ControlFlow", "Break"): 1,
        ("core::cmp::Ordering", "Less"): -1, ("core::cmp::Ordering", "Equal"): 0, ("core::cmp::Ordering", "Greater"): 1,
        ("std::collections::hash::map::Entry", "Occupied"): 0, ("std::collections::hash::map::Entry", "Vacant"): 1,
        ("alloc::collections::btree::map::entry::Entry", "Vacant"): 0, ("alloc::collections::btree::map::entry::Entry", "Occupied"): 1,
        ("alloc::borrow::Cow", "Borrowed"): 0, ("alloc::borrow::Cow", "Owned"): 1,
        ("core::ops::range::Bound", "Included"): 0, ("core::ops::range::Bound", "Excluded"): 1, ("core::ops::range::Bound", "Unbounded"): 2,
    }

    def discr_value(self, v, facts=None):
        if isinstance(v, tuple) and v and v[0] == "variant":
            key = (v[1], v[2])
            if key in self.VARIANT_INDEX:
                return self.VARIANT_INDEX[key]
            if self.variant_index:
                return self.variant_index(v[1], v[2])
            if self.facts is not None and v[1] in self.facts.adts:
                names = [x["name"] for x in self.facts.adts[v[1]]["variants"]]
                if v[2] in names:
                    return names.index(v[2])
            return TOP
        if isinstance(v, bool):
            return int(v)
        if isinstance(v, int):
            return v
        return TOP

    variant_index = None

    def run(self):
        if self.depth == 0:
            _STEPS[0] = 0
        env0 = dict(getattr(self, "extra_env", {}) or {})
        for i, a in enumerate(self.args):
            env0[i + 1] = a
        stack = [(0, env0, Path(), {}, dict(self.init_state))]
        while stack:
            if len(self.paths) > self.max_paths:
                break
            bb, env, path, visits, mstate = stack.pop()
            self.mstate = mstate
            path.mstate = mstate
            while True:
                _STEPS[0] += 1
                if _STEPS[0] > _STEP_BUDGET[0]:
                    # evaluation budget of this scenario exhausted (path explosion on undecided conditions): undecided
                    path.end = "limit"
                    self.paths.append(path)
                    stack[:] = []
                    break
                visits[bb] = visits.get(bb, 0) + 1
                if visits[bb] > self.max_visits:
                    path.end = "limit"
                    self.paths.append(path)
                    break
                path.blocks.append(bb)
                blk = self.body.blocks[bb]
                for st in blk["s"]:
                    if st[0] == "=":
                        val = self.rvalue(env, st[2])
                        if st[1][1]:
                            path.events.append(Event("store", bb, (st[1], val, st)))
                        self.write_place(env, st[1], val)
                t = blk["t"]
                k = t["k"]
                if k == "goto":
                    bb = t["target"]
                    continue
                if k == "return":
                    path.ret = env.get(0, TOP)
                    path.env = env
                    path.end = "return"
                    self.paths.append(path)
                    break
                if k in ("unreachable", "resume", "terminate", "other"):
                    path.end = "diverge"
                    self.paths.append(path)
                    break
                if k == "drop":
                    bb = t["target"]
                    continue
                if k == "assert":
                    c = self.operand(env, t["cond"])
                    if c is not TOP and bool(c) != t["expected"]:
                        path.events.append(Event("panic", bb, t["msg"]))
                        path.end = "panic"
                        self.paths.append(path)
                        break
                    bb = t["target"]
                    continue
                if k == "switch":
                    d = self.discr_value(self.operand(env, t["discr"]))
                    if d is TOP or not isinstance(d, int):
                        # fork: first the explicit targets, then otherwise
                        succ = []
                        for v, b in t["targets"]:
                            succ.append(b)
                        succ.append(t["otherwise"])
                        seen = []
                        for b in succ:
                            if b in seen:
                                continue
                            seen.append(b)
                            # skip the impossible arm
                            tb = self.body.blocks[b]
                            if tb["t"]["k"] == "unreachable" and not tb["s"]:
                                continue
                            p2 = Path()
                            p2.events = list(path.events)
                            p2.blocks = list(path.blocks)
                            stack.append((b, dict(env), p2, dict(visits), dict(mstate)))
                        break
                    nxt = t["otherwise"]
                    for v, b in t["targets"]:
                        # negative discriminants (Ordering::Less = -1) are stored as unsigned
                        if v == d or (d < 0 and v == (d & ((1 << 8) - 1))) or (d < 0 and v == (d & ((1 << 64) - 1))) or (d < 0 and v == (d & ((1 << 128) - 1))):
                            nxt = b
                            break
                    bb = nxt
                    continue
                if k == "call":
                    f = t["f"]
                    self.cur_env = env
                    if self.depth == 0:
                        fr_ = dict(mstate.get("frames", {}))
                        fr_["root"] = env      # harness-made references (frame="root") live in the root frame
                        mstate["frames"] = fr_
                    args = [self.operand(env, a) for a in t["args"]]
                    ckey = f.get("resolved", {}).get("key") or f.get("key") or f.get("kind")
                    outs = None
                    if self.tsubst and (f.get("gargs") or f.get("resolved", {}).get("gargs")):
                        f = dict(f)
                        f["cgargs"] = [tsub(g, self.tsubst) for g in (f.get("gargs") or [])]
                    if self.tsubst and self.facts is not None and f.get("kind") == "def" and f.get("trait") and not f.get("resolved", {}).get("key") and f.get("cgargs"):
                        # a trait method on a type PARAMETER of the enclosing generic body: resolved through the instantiation
                        st_ = f["cgargs"][0]
                        if isinstance(st_, str) and st_ and " as " not in st_ and not st_.startswith("dyn "):
                            ik_ = "<%s as %s>::%s" % (st_.lstrip("&").replace("mut ", "", 1).split("<")[0] if st_.startswith("&") else st_.split("<")[0], f["trait"], f.get("name"))
                            if self.facts.fn_opt(ik_) is not None:
                                f["resolved"] = {"key": ik_, "gargs": None, "inst": "by-instantiation"}
                                ckey = ik_
                    _rg = f.get("resolved", {}).get("gargs") if f.get("resolved", {}).get("key") else f.get("gargs")
                    self._inst_gargs = [tsub(g, self.tsubst) for g in (_rg or [])]
                    if f.get("kind") == "fnptr" and "op" in f:
                        f = dict(f)
                        f["fnptr_value"] = self.operand(env, f["op"])   # the function value behind the pointer (fn item, closure or symbol)
                        f.setdefault("key", "fnptr")
                        f.setdefault("name", "fnptr")
                    pre = TOP
                    if self.oracle is not None and f.get("key", "").startswith("core::cmp::") and f.get("resolved", {}).get("key"):
                        # comparisons of scenario-ordered symbols are answered by the scenario's ordering, not by the
                        # crate's comparison code (which would look inside the opaque symbols)
                        pre = self.oracle(self, env, f, args, t, bb, path)
                    if pre is not TOP:
                        path.events.append(Event("call", bb, (ckey, (f.get("cgargs") or f.get("gargs")), args, pre, t)))
                        self.write_place(env, t["dest"], pre)
                        if t["target"] is None:
                            path.end = "diverge"
                            self.paths.append(path)
                            break
                        bb = t["target"]
                        continue
                    if self.facts is not None:
                        fargs = [self.freeze(env, a) for a in args]
                        outs = self.combinator(f, fargs)
                        if outs is None and f.get("kind") == "fnptr":
                            fv = f["fnptr_value"]
                            if not isinstance(fv, Sym) and fv is not TOP:
                                outs = self.call_value(fv, fargs)
                        if outs is None and self.dispatch and f.get("kind") == "def" and (f.get("gargs") or [""])[0].startswith("dyn ") and fargs:
                            # virtual call on a trait object whose concrete (abstract) value is known: the impl's method,
                            # or the trait's default body when the impl does not override it
                            recv = fargs[0]
                            hops = 0
                            while isinstance(recv, (Ref, HRef)) and hops < 6:
                                recv = self.read_ref(env, recv) if isinstance(recv, Ref) else self._project(env, recv, ["*"])
                                hops += 1
                            if isinstance(recv, Agg) and recv.kind == "adt" and recv.name:
                                tr = f.get("key", "").rsplit("::", 1)[0]
                                cf = self.facts.fn_opt("<%s as %s>::%s" % (recv.name, tr, f.get("name")))
                                if cf is None and self.facts.fn_opt(f.get("key", "")) is not None and recv.name in self.facts.adts:
                                    has_impl = any(i.get("self_adt") == recv.name and i.get("trait") == tr for i in self.facts.impls)
                                    cf = self.facts.fn_opt(f.get("key", "")) if has_impl else None
                                if cf is not None:
                                    outs = self.call_body(cf, fargs)
                        if outs is None and f.get("kind") == "def" and self.facts is not None and self.sibling(ckey):
                            cf = self.facts.fn_opt(ckey)
                            if cf is not None:
                                self._call_gargs = self._inst_gargs
                                outs = self.call_body(cf, fargs)
                        if outs is None and f.get("kind") == "def" and self.inline and self.inline(ckey) and not (self.never_inline is not None and self.never_inline(ckey)):
                            cf = self.facts.fn_opt(ckey)
                            if cf is not None:
                                ca = fargs
                                if f.get("trait", "").startswith("core::ops::function") and len(fargs) == 2 and isinstance(fargs[1], Agg) and fargs[1].kind == "tuple":
                                    ca = [fargs[0]] + list(fargs[1].fields)   # rust-call ABI: (env, (a, b, ..))
                                self._call_gargs = self._inst_gargs
                                outs = self.call_body(cf, ca)
                        if outs is None and f.get("kind") == "def" and f.get("name") in ("call_once", "call_mut", "call") and f.get("trait", "").startswith("core::ops::function") and args:
                            outs = self.call_value(fargs[0], fargs[1:], rust_call=True)
                    if outs is not None:
                        path.events.append(Event("inlined", bb, (ckey, f.get("gargs"), args, None, t)))
                        for (ret, evs, end, ms) in outs:
                            p2 = Path()
                            p2.events = list(path.events) + list(evs)
                            p2.blocks = list(path.blocks)
                            p2.mstate = ms
                            if end == "panic":
                                p2.end = "panic"
                                self.paths.append(p2)
                                continue
                            if end != "return" or t["target"] is None:
                                p2.end = end if end != "return" else "diverge"
                                self.paths.append(p2)
                                continue
                            e2 = dict(env)
                            self.write_place(e2, t["dest"], ret)
                            stack.append((t["target"], e2, p2, dict(visits), dict(ms)))
                        break
                    prev_cur_ = CURRENT[0]
                    CURRENT[0] = self        # (lazy adapters forced inside a rule's own oracle run on THIS interpreter's state)
                    try:
                        res = self.oracle(self, env, f, args, t, bb, path) if self.oracle else TOP
                    finally:
                        CURRENT[0] = prev_cur_
                    if _TOPS is not None and res is TOP and t["target"] is not None:
                        kk = (getattr(getattr(self.body, "fn", None), "key", "?"), ckey)
                        if kk not in _TOPS:
                            _TOPS.add(kk)
                            import sys as _sys
                            _sys.stderr.write("[TOP] in %s: %s(%s)\n" % (kk[0], ckey, ", ".join(str(a)[:60] for a in args)))
                    if res is TOP:
                        # an unmodelled callee that receives `&mut place`: whatever the place held is unknown afterwards (its
                        # effect must not be dropped silently - a verdict read off that place becomes undecided)
                        for op_, av_ in zip(t.get("args") or [], args):
                            try:
                                lty_ = self.body.local_ty(op_[1][0]) if isinstance(op_, list) and op_[0] in ("move", "copy") and not op_[1][1] else ""
                            except Exception:
                                lty_ = ""
                            if not (lty_ or "").startswith("&mut "):
                                continue
                            if isinstance(av_, Ref):
                                tgt_ = self.read_ref(env, av_)
                                if not (isinstance(tgt_, Sym) or hasattr(tgt_, "vid")):
                                    self.write_ref(env, av_, TOP)
                            elif isinstance(av_, HRef):
                                tgt_ = href_get(self, env, av_)
                                if not (isinstance(tgt_, Sym) or hasattr(tgt_, "vid")):
                                    href_set(self, env, av_, TOP)
                    path.events.append(Event("call", bb, (ckey, (f.get("cgargs") or f.get("gargs")), args, res, t)))
                    if res == "DIVERGE":
                        path.events.append(Event("panic", bb, f.get("key")))
                        path.end = "panic"
                        self.paths.append(path)
                        break
                    self.write_place(env, t["dest"], res)
                    if t["target"] is None:
                        path.end = "diverge"
                        self.paths.append(path)
                        break
                    bb = t["target"]
                    continue
                path.end = "diverge"
                self.paths.append(path)
                break
        return self.paths


def _contains_ref(v, depth=0):
    if isinstance(v, (Ref, HRef)) or hasattr(v, "vid"):
        return True
    if isinstance(v, Agg) and depth < 6:
        return any(_contains_ref(x, depth + 1) for x in v.fields)
    return False


# ------------------------------------------------------------------ standard transfer table

def some(v):
    return Agg("adt", "core::option::Option", "Some", [v])


NONE = Agg("adt", "core::option::Option", "None", [])


def ok(v):
    return Agg("adt", "core::result::Result", "Ok", [v])


def err(v):
    return Agg("adt", "core::result::Result", "Err", [v])


def _default_of(interp, ty):
    """T::default() for the types the rules meet: primitives, Option, PhantomData, Vec, and crate types through their own
    Default implementation (evaluated)"""
    ty = ty or ""
    if ty in ("usize", "u8", "u16", "u32", "u64", "u128", "isize", "i8", "i16", "i32", "i64", "i128"):
        return 0
    if ty in ("f64", "f32"):
        return 0.0
    if ty == "bool":
        return False
    if ty.startswith("core::option::Option<"):
        return NONE
    if ty.startswith("core::marker::PhantomData<"):
        return Agg("adt", "core::marker::PhantomData", "PhantomData", [])
    if ty.startswith("alloc::vec::Vec<"):
        try:
            from collmodel import new_vec
            return new_vec(interp, [])
        except Exception:
            return TOP
    if ty.startswith("mahf::") and interp.facts is not None:
        fn_ = interp.facts.fn_opt("<%s as core::default::Default>::default" % ty.split("<")[0])
        if fn_ is not None:
            outs_ = interp.call_body(fn_, [])
            if outs_ and len(outs_) == 1 and outs_[0][2] == "return":
                return outs_[0][0]
    return TOP


def std_oracle(interp, env, f, args, t, bb, path):
    """fixed transfer functions for std items that the K6 rules meet"""
    key = f.get("key", "")
    res = f.get("resolved", {}).get("key", "")
    name = f.get("name")
    a0 = args[0] if args else TOP

    def deref(v, n=0):
        while n < 6:
            n += 1
            if isinstance(v, Ref):
                v = interp.read_ref(env, v)
            elif isinstance(v, HRef):
                v = href_get(interp, env, v)
            else:
                break
        return v

    sa = f.get("self_adt")
    if key in ("core::cell::Ref::map", "core::cell::RefMut::map", "core::cell::Ref::filter_map", "core::cell::RefMut::filter_map") and len(args) == 2:
        # a borrow guard is the place it guards (the rules' registry models hand out places): mapping it applies the closure
        outs = interp.call_value(args[1], [args[0]])
        if not outs or len(outs) != 1 or outs[0][2] != "return":
            return TOP
        r_ = outs[0][0]
        if key.endswith("filter_map"):
            if isinstance(r_, Agg) and r_.name == "core::option::Option":
                return ok(r_.fields[0]) if r_.variant == "Some" else err(args[0])
            return TOP
        return r_
    if key in ("core::cell::Ref::clone",) and len(args) == 1:
        return deref(a0) if isinstance(a0, (Ref, HRef)) and isinstance(deref(a0), (Ref, HRef)) else a0
    if f.get("self_ty") in ("usize", "u32", "u64", "u8", "u16", "i32", "i64", "isize", "u128", "i128") and args:
        xs = [deref(a) for a in args]
        if all(isinstance(x, int) and not isinstance(x, bool) for x in xs):
            unsigned = f["self_ty"].startswith("u")
            if name == "checked_sub" and len(xs) == 2:
                return NONE if (unsigned and xs[0] < xs[1]) else some(xs[0] - xs[1])
            if name == "checked_add" and len(xs) == 2:
                return some(xs[0] + xs[1])
            if name == "saturating_sub" and len(xs) == 2:
                return max(0, xs[0] - xs[1]) if unsigned else xs[0] - xs[1]
            if name in ("saturating_add", "wrapping_add") and len(xs) == 2:
                return xs[0] + xs[1]
            if name == "div_ceil" and len(xs) == 2:
                return "DIVERGE" if xs[1] == 0 else -(-xs[0] // xs[1])
            if name == "div_floor" and len(xs) == 2:
                return "DIVERGE" if xs[1] == 0 else xs[0] // xs[1]
            if name == "next_multiple_of" and len(xs) == 2:
                return "DIVERGE" if xs[1] == 0 else -(-xs[0] // xs[1]) * xs[1]
            if name == "abs_diff" and len(xs) == 2:
                return abs(xs[0] - xs[1])
            if name in ("min", "max") and len(xs) == 2:
                return min(xs) if name == "min" else max(xs)
            if name == "pow" and len(xs) == 2:
                return xs[0] ** xs[1]
            if name == "div_ceil" and len(xs) == 2 and xs[1] != 0:
                return -(-xs[0] // xs[1])
    if key.startswith("core::ops::arith::") and name in ("add", "sub", "mul", "div", "rem", "neg"):
        xs = [deref(a) for a in args]
        if all(isinstance(x, (int, float)) and not isinstance(x, bool) for x in xs):
            if name == "neg":
                return -xs[0]
            return interp.binop({"add": "Add", "sub": "Sub", "mul": "Mul", "div": "Div", "rem": "Rem"}[name], xs[0], xs[1])
        return TOP
    if key == "core::ops::try_trait::Try::branch":
        if isinstance(a0, Agg) and a0.name == "core::result::Result":
            if a0.variant == "Ok":
                return Agg("adt", "core::ops::control_flow::ControlFlow", "Continue", a0.fields)
            return Agg("adt", "core::ops::control_flow::ControlFlow", "Break", [err(a0.fields[0] if a0.fields else TOP)])
        if isinstance(a0, Agg) and a0.name == "core::option::Option":
            if a0.variant == "Some":
                return Agg("adt", "core::ops::control_flow::ControlFlow", "Continue", a0.fields)
            return Agg("adt", "core::ops::control_flow::ControlFlow", "Break", [NONE])
        return TOP
    if key == "core::ops::try_trait::FromResidual::from_residual":
        if isinstance(a0, Agg) and a0.variant == "Err":
            return err(a0.fields[0] if a0.fields else TOP)
        if isinstance(a0, Agg) and a0.variant == "None":
            return NONE
        return TOP
    if key in ("core::ops::deref::Deref::deref", "core::ops::deref::DerefMut::deref_mut", "core::borrow::Borrow::borrow",
               "core::convert::AsRef::as_ref", "core::convert::AsMut::as_mut", "alloc::vec::Vec::as_slice", "alloc::vec::Vec::as_mut_slice",
               "core::borrow::BorrowMut::borrow_mut", "alloc::boxed::Box::as_ref", "alloc::boxed::Box::as_mut", "alloc::string::String::as_str"):
        # a guard / smart pointer held in a local: its target is what the local's value refers to
        if isinstance(a0, Ref):
            inner = interp.read_ref(env, a0)
            if isinstance(inner, (Ref, HRef)):
                return inner
        v = deref(a0)
        if isinstance(v, Sym) and "deref" in v.fields:
            return v.fields["deref"]
        return a0
    if sa in ("core::ops::range::Range", "core::ops::range::RangeInclusive") or key in ("core::ops::range::RangeInclusive::new",):
        if name == "new" and len(args) == 2:
            return Agg("adt", "core::ops::range::RangeInclusive", "RangeInclusive", [args[0], args[1], False])
        r = deref(a0)
        if isinstance(r, Agg) and len(r.fields) >= 2 and all(isinstance(z, (int, float)) and not isinstance(z, bool) for z in r.fields[:2]):
            lo, hi = r.fields[0], r.fields[1]
            incl = r.name.endswith("RangeInclusive")
            if name == "contains" and len(args) == 2:
                x = deref(args[1])
                if isinstance(x, (int, float)) and not isinstance(x, bool):
                    return (lo <= x <= hi) if incl else (lo <= x < hi)
            if name == "is_empty":
                return not (lo <= hi) if incl else not (lo < hi)
            if name in ("start", "end") and incl:
                return lo if name == "start" else hi
    if key == "alloc::boxed::Box::new":
        return a0
    if key in ("core::any::type_name",):
        return Sym("type_name:%s" % (f.get("gargs") or ["?"])[0])
    if key.startswith("eyre::WrapErr::") or key.startswith("color_eyre::section::Section::") or key.startswith("color_eyre::Section::"):
        v = deref(a0)
        if isinstance(v, Agg) and v.name == "core::result::Result":
            return v
        return TOP
    if key.startswith("eyre::ContextCompat::"):
        v = deref(a0)
        if isinstance(v, Agg) and v.name == "core::option::Option":
            return ok(v.fields[0]) if v.variant == "Some" else err(TOP)
        return TOP
    if key in ("core::option::Option::cloned", "core::option::Option::copied") and args:
        v = deref(a0)
        if isinstance(v, Agg) and v.name == "core::option::Option":
            return some(deref(v.fields[0])) if v.variant == "Some" else NONE
    if key in ("core::mem::drop", "core::mem::forget"):
        return Agg("tuple", None, None, [])
    if key in ("core::convert::TryFrom::try_from", "core::convert::TryInto::try_into") and len(args) == 1:
        v = deref(a0)
        ga = f.get("gargs") or ["", ""]
        dst = ga[0] if key.endswith("try_from") else ga[-1]
        bits = {"u8": (0, 2**8 - 1), "u16": (0, 2**16 - 1), "u32": (0, 2**32 - 1), "u64": (0, 2**64 - 1), "usize": (0, 2**64 - 1), "u128": (0, 2**128 - 1),
                "i8": (-2**7, 2**7 - 1), "i16": (-2**15, 2**15 - 1), "i32": (-2**31, 2**31 - 1), "i64": (-2**63, 2**63 - 1), "isize": (-2**63, 2**63 - 1), "i128": (-2**127, 2**127 - 1)}
        if isinstance(v, int) and not isinstance(v, bool) and dst in bits:
            lo_, hi_ = bits[dst]
            return ok(v) if lo_ <= v <= hi_ else err(Sym("TryFromIntError"))
    if key in ("core::option::Option::get_or_insert_with", "core::option::Option::get_or_insert", "core::option::Option::insert",
               "core::option::Option::get_or_insert_default") and isinstance(a0, (Ref, HRef)) and (len(args) == 2 or key.endswith("_default")):
        cur = deref(a0)
        if not (isinstance(cur, Agg) and cur.name == "core::option::Option"):
            return TOP
        if cur.variant == "None" or name == "insert":
            if name == "get_or_insert_with":
                outs_ = interp.call_value(args[1], [])
                if not outs_ or len(outs_) != 1 or outs_[0][2] != "return":
                    return TOP
                interp.mstate.clear()
                interp.mstate.update(outs_[0][3])
                newv = outs_[0][0]
            elif name == "get_or_insert_default":
                return TOP
            else:
                newv = args[1]
            if isinstance(a0, Ref):
                interp.write_ref(env, a0, some(newv))
            elif not href_set(interp, env, a0, some(newv)):
                return TOP
        ext = [["d", 1, "Some"], ["f", 0, None]]
        if isinstance(a0, Ref):
            return Ref(a0.local, list(a0.proj) + ext, frame=a0.frame)
        return HRef(a0.vid, a0.idx, tuple(a0.proj) + tuple(tuple(x) for x in ext))
    if key == "core::default::Default::default" and not args:
        rt = f.get("ret") or (f.get("gargs") or [""])[0]
        if rt in ("usize", "u8", "u16", "u32", "u64", "u128", "isize", "i8", "i16", "i32", "i64", "i128"):
            return 0
        if rt in ("f64", "f32"):
            return 0.0
        if rt == "bool":
            return False
        if rt == "()":
            return Agg("tuple", None, None, [])
        if rt.startswith("core::option::Option<"):
            return NONE
        if rt.startswith("core::marker::PhantomData<"):
            return Agg("adt", "core::marker::PhantomData", "PhantomData", [])
    if key in ("core::option::Option::replace", "core::option::Option::take", "core::mem::take") and isinstance(a0, (Ref, HRef)):
        old = deref(a0)
        if isinstance(old, Agg) and old.name == "core::option::Option":
            new_v = some(args[1]) if key.endswith("replace") else NONE
            if isinstance(a0, Ref):
                interp.write_ref(env, a0, new_v)
            else:
                if not href_set(interp, env, a0, new_v):
                    return TOP
            return old
        if key == "core::mem::take":
            # take(place) = replace(place, T::default())
            dv = _default_of(interp, (f.get("gargs") or [""])[0])
            if dv is TOP or isinstance(old, Sym) or hasattr(old, "vid"):
                return TOP
            if isinstance(a0, Ref):
                interp.write_ref(env, a0, dv)
            elif not href_set(interp, env, a0, dv):
                return TOP
            return old
        return TOP
    if key in ("core::mem::replace",) and len(args) == 2 and isinstance(a0, (Ref, HRef)):
        old = deref(a0)
        if isinstance(old, Sym) or hasattr(old, "vid") or old is TOP:
            return TOP      # (handles and opaque symbols: left to the collection model / the rule)
        if isinstance(a0, Ref):
            interp.write_ref(env, a0, args[1])
        elif not href_set(interp, env, a0, args[1]):
            return TOP
        return old
    if key in ("core::option::Option::as_ref", "core::option::Option::as_mut", "core::option::Option::as_deref", "core::option::Option::as_deref_mut"):
        v = deref(a0)
        if key.endswith(("as_ref", "as_mut")) and isinstance(a0, (Ref, HRef)) and isinstance(v, Agg) and v.name == "core::option::Option" and v.variant == "Some" \
                and v.fields and not isinstance(v.fields[0], (Ref, HRef)):
            # Some(&mut payload): a reference INTO the option, so that writes through it reach the option's owner
            if isinstance(a0, Ref):
                return some(Ref(a0.local, list(a0.proj) + [["d", 1, "Some"], ["f", 0, None]], frame=a0.frame))
            return some(HRef(a0.vid, a0.idx, tuple(a0.proj) + (("d", 1, "Some"), ("f", 0, None))))
        return v
    if key in ("core::convert::Into::into", "core::convert::From::from") and (f.get("gargs") or [None, None])[0] == (f.get("gargs") or [None, None])[-1]:
        return a0
    if key in ("core::convert::Into::into", "core::convert::From::from") and args and \
            ((f.get("gargs") or [""])[-1] if key.endswith("into") else (f.get("gargs") or [""])[0]) in ("eyre::Report", "color_eyre::Report", "eyre::Report<eyre::DefaultHandler>"):
        return a0       # error conversions keep the payload (like `?` does in this model)
    if key in ("core::convert::Into::into", "core::convert::From::from") and isinstance(a0, (int, float)) and not isinstance(a0, bool):
        dst = (f.get("gargs") or [""])[-1] if key.endswith("into") else (f.get("gargs") or [""])[0]
        return float(a0) if dst in ("f64", "f32") else a0
    if key in ("core::ops::bit::Not::not", "core::ops::Not::not") and isinstance(deref(a0), bool):
        return not deref(a0)        # (`!b` itself is a MIR unary operation; this is `Not::not` passed as a function value)
    if key == "core::clone::Clone::clone" or key == "dyn_clone::clone_box":
        return deref(a0)        # (dyn_clone::clone_box is what `Box<dyn Trait>: Clone` of the crate's trait objects expands to)
    if key == "core::clone::Clone::clone_from" and len(args) == 2 and isinstance(a0, (Ref, HRef)):
        # the default method: `*self = source.clone()` (an overriding impl is resolved to its own body instead)
        v_ = deref(args[1])
        if isinstance(a0, Ref):
            interp.write_ref(env, a0, v_)
        else:
            href_set(interp, env, a0, v_)
        return Agg("tuple", None, None, [])
    if key in ("core::cmp::PartialOrd::lt", "core::cmp::PartialOrd::le", "core::cmp::PartialOrd::gt", "core::cmp::PartialOrd::ge",
               "core::cmp::PartialEq::eq", "core::cmp::PartialEq::ne"):
        a, b = deref(a0), deref(args[1])
        if isinstance(a, (int, float)) and not isinstance(a, bool) and isinstance(b, (int, float)) and not isinstance(b, bool):
            return {"lt": a < b, "le": a <= b, "gt": a > b, "ge": a >= b, "eq": a == b, "ne": a != b}[name]
        return TOP
    sa = f.get("self_adt")
    if sa in ("core::result::Result", "core::option::Option"):
        a0 = deref(a0)
    if sa == "core::result::Result" and isinstance(a0, Agg) and a0.name == "core::result::Result":
        isok = a0.variant == "Ok"
        inner = a0.fields[0] if a0.fields else TOP
        if name in ("unwrap", "expect", "unwrap_or_else", "unwrap_or", "unwrap_or_default"):
            if isok:
                return inner
            if name in ("unwrap", "expect"):
                return "DIVERGE"
            if name == "unwrap_or" and len(args) == 2:
                return args[1]
            if name == "unwrap_or_default":
                return _default_of(interp, (f.get("gargs") or [""])[0])
            return TOP
        if name == "is_ok":
            return isok
        if name == "is_err":
            return not isok
        if name == "ok":
            return some(inner) if isok else NONE
        if name == "err":
            return NONE if isok else some(inner)
        if name in ("map_err", "or_else") and isok:
            return a0
        if name in ("map", "and_then") and not isok:
            return a0
        if name == "and" and len(args) == 2:
            return deref(args[1]) if isok else a0
        if name == "or" and len(args) == 2:
            return a0 if isok else deref(args[1])
    if sa == "core::option::Option" and isinstance(a0, Agg) and a0.name == "core::option::Option":
        issome = a0.variant == "Some"
        inner = a0.fields[0] if a0.fields else TOP
        if name in ("unwrap", "expect", "unwrap_or_else", "unwrap_or", "unwrap_or_default"):
            if issome:
                return inner
            if name in ("unwrap", "expect"):
                return "DIVERGE"
            if name == "unwrap_or" and len(args) == 2:
                return args[1]
            if name == "unwrap_or_default":
                return _default_of(interp, (f.get("gargs") or [""])[0])
            if name == "unwrap_or_else" and len(args) == 2:
                outs_ = interp.call_value(args[1], [])
                if outs_ and len(outs_) == 1 and outs_[0][2] == "return":
                    interp.mstate.clear()
                    interp.mstate.update(outs_[0][3])
                    return outs_[0][0]
            return TOP
        if name == "is_some":
            return issome
        if name == "is_none":
            return not issome
        if name in ("ok_or", "ok_or_else"):
            return ok(inner) if issome else err(TOP)
        if name in ("map", "and_then", "filter") and not issome:
            return NONE
        if name in ("or", "or_else") and issome:
            return a0
        if name == "and" and len(args) == 2:
            return deref(args[1]) if issome else NONE
        if name == "or" and len(args) == 2 and not issome:
            return deref(args[1])
        if name == "flatten" and len(args) == 1:
            if not issome:
                return NONE
            if isinstance(inner, Agg) and inner.name == "core::option::Option":
                return inner
        if name == "xor" and len(args) == 2:
            o_ = deref(args[1])
            if isinstance(o_, Agg) and o_.name == "core::option::Option":
                return a0 if (issome and o_.variant == "None") else o_ if (not issome and o_.variant == "Some") else NONE
        if name == "zip" and len(args) == 2:
            o_ = deref(args[1])
            if isinstance(o_, Agg) and o_.name == "core::option::Option":
                return some(Agg("tuple", None, None, [inner, o_.fields[0]])) if (issome and o_.variant == "Some") else NONE
    if key in ("core::cmp::PartialOrd::partial_cmp",) and len(args) == 2:
        a, b = deref(a0), deref(args[1])
        if isinstance(a, (int, float)) and not isinstance(a, bool) and isinstance(b, (int, float)) and not isinstance(b, bool):
            if a != a or b != b:
                return NONE
            return some(Agg("adt", "core::cmp::Ordering", "Less" if a < b else "Greater" if a > b else "Equal", []))
    if f.get("self_ty") in ("f64", "f32") or key.startswith("core::f64::") or key.startswith("std::f64::") or key.startswith("core::f32::"):
        x = deref(a0)
        if isinstance(x, (int, float)) and not isinstance(x, bool):
            x = float(x)
            if name == "is_nan":
                return x != x
            if name == "is_infinite":
                return abs(x) == math.inf
            if name == "is_finite":
                return x == x and abs(x) != math.inf
            if name == "is_sign_negative":
                return math.copysign(1.0, x) < 0
            if name == "is_sign_positive":
                return math.copysign(1.0, x) > 0
            if name == "total_cmp" and len(args) == 2 and isinstance(deref(args[1]), (int, float)):
                y = float(deref(args[1]))
                def tkey(z):
                    if z != z:
                        return (2, 0.0) if math.copysign(1.0, z) > 0 else (-2, 0.0)
                    return (0, z) if z != 0 else (0, math.copysign(0.0, z) and 0.0) if False else (0, z)
                kx, ky = (x, math.copysign(1.0, x)), (y, math.copysign(1.0, y))
                if x != x or y != y:
                    return TOP
                lt = x < y or (x == y and kx[1] < ky[1])
                gt = x > y or (x == y and kx[1] > ky[1])
                return Agg("adt", "core::cmp::Ordering", "Less" if lt else "Greater" if gt else "Equal", [])
            if name == "abs":
                return abs(x)
            if name == "floor":
                return float(math.floor(x)) if abs(x) != math.inf else x
            if name == "ceil":
                return float(math.ceil(x)) if abs(x) != math.inf else x
            if name == "fract":
                return x - math.trunc(x) if abs(x) != math.inf else math.nan
            if name == "rem_euclid" and len(args) == 2 and isinstance(deref(args[1]), (int, float)):
                m = float(deref(args[1]))
                return math.fmod(math.fmod(x, m) + abs(m), abs(m)) if m != 0 else math.nan
            if name in ("powi", "powf") and len(args) == 2 and isinstance(deref(args[1]), (int, float)):
                try:
                    return x ** deref(args[1])
                except Exception:
                    return TOP
            if name == "recip":
                return (1.0 / x) if x != 0 else math.copysign(math.inf, x)
            if name in ("ln", "log2", "log10"):
                if x < 0:
                    return math.nan
                if x == 0:
                    return -math.inf
                return {"ln": math.log, "log2": math.log2, "log10": math.log10}[name](x) if x != math.inf else math.inf
            if name in ("sin", "cos", "tan", "tanh", "atan") and abs(x) != math.inf:
                return getattr(math, name)(x)
            if name == "signum":
                return math.nan if x != x else math.copysign(1.0, x)
            if name == "trunc":
                return float(math.trunc(x)) if abs(x) != math.inf else x
            if name == "round":
                return float(math.floor(abs(x) + 0.5)) * math.copysign(1.0, x) if abs(x) != math.inf else x
            if name == "mul_add" and len(args) == 3 and all(isinstance(deref(z), (int, float)) for z in args[1:]):
                return x * float(deref(args[1])) + float(deref(args[2]))
            if name == "copysign" and len(args) == 2 and isinstance(deref(args[1]), (int, float)):
                return math.copysign(x, float(deref(args[1])))
            if name == "sqrt":
                return x ** 0.5 if x >= 0 else math.nan
            if name == "exp":
                try:
                    return math.exp(x)
                except OverflowError:
                    return math.inf
            if name in ("min", "max", "clamp") and all(isinstance(deref(z), (int, float)) for z in args[1:]):
                ys = [float(deref(z)) for z in args[1:]]
                if name == "min":
                    return ys[0] if x != x else x if ys[0] != ys[0] else min(x, ys[0])
                if name == "max":
                    return ys[0] if x != x else x if ys[0] != ys[0] else max(x, ys[0])
                if name == "clamp":
                    return x if x != x else max(ys[0], min(ys[1], x))
    return TOP


REG = "mahf::state::registry::StateRegistry::"
STATE = "mahf::state::State::"
# convenience accessors of State and the registry accessor + state type they stand for
STATE_SUGAR = {
    "populations": ("borrow", "mahf::state::common::Populations<P>"), "populations_mut": ("borrow_mut", "mahf::state::common::Populations<P>"),
    "random_mut": ("borrow_mut", "mahf::state::random::Random"),
    "log": ("borrow", "mahf::logging::log::Log"), "iterations": ("get_value", "mahf::state::common::Iterations"),
    "evaluations": ("get_value", "mahf::state::common::Evaluations"), "pareto_front": ("borrow", "mahf::state::common::ParetoFront<P>"),
}
# accessor -> [(sibling accessor whose answer can be reused, how to convert it)]
ACCESSOR_FAMILY = {
    "borrow": [("borrow_mut", "id"), ("try_borrow", "unwrap"), ("try_borrow_mut", "unwrap")],
    "borrow_mut": [("borrow", "id"), ("try_borrow_mut", "unwrap"), ("try_borrow", "unwrap")],
    "try_borrow": [("borrow", "ok"), ("borrow_mut", "ok"), ("try_borrow_mut", "id")],
    "try_borrow_mut": [("borrow_mut", "ok"), ("borrow", "ok"), ("try_borrow", "id")],
    "borrow_value": [("borrow_value_mut", "id"), ("try_borrow_value", "unwrap"), ("try_borrow_value_mut", "unwrap"), ("get_value", "id"), ("try_get_value", "unwrap")],
    "borrow_value_mut": [("borrow_value", "id"), ("try_borrow_value_mut", "unwrap"), ("try_borrow_value", "unwrap")],
    "try_borrow_value": [("borrow_value", "ok"), ("borrow_value_mut", "ok"), ("try_borrow_value_mut", "id"), ("get_value", "ok"), ("try_get_value", "id")],
    "try_borrow_value_mut": [("borrow_value_mut", "ok"), ("borrow_value", "ok"), ("try_borrow_value", "id")],
    "get_value": [("try_get_value", "unwrap"), ("borrow_value", "load"), ("borrow_value_mut", "load"), ("try_borrow_value", "unwrap-load"), ("try_borrow_value_mut", "unwrap-load")],
    "try_get_value": [("get_value", "ok"), ("borrow_value", "ok-load"), ("borrow_value_mut", "ok-load"), ("try_borrow_value", "okload"), ("try_borrow_value_mut", "okload")],
    "contains": [("has", "id")], "has": [("contains", "id")],
}


def chain(*oracles):
    """first non-TOP answer.  The accessors of the state registry come in families (`borrow` / `borrow_mut` /
    `try_borrow` / ..., and `State::populations_mut()` = `borrow_mut::<Populations>()`): when the code under evaluation
    uses a sibling of the accessor a rule modelled, the modelled answer is reused (wrapped in Ok / unwrapped /
    dereferenced as the sibling's signature requires), so switching between equivalent accessors does not change a
    verdict."""
    def base(interp, env, f, args, t, bb, path):
        for orc in oracles:
            r = orc(interp, env, f, args, t, bb, path)
            if r is not TOP:
                return r
        return TOP

    def load_(interp, env, v, n=0):
        while n < 6:
            n += 1
            if isinstance(v, Ref):
                v = interp.read_ref(env, v)
            elif isinstance(v, HRef):
                v = href_get(interp, env, v)
            else:
                break
        return v

    def wrap(how, r, interp, env):
        if r is TOP or r == "DIVERGE" or how == "id":
            return r
        if how == "ok":
            return ok(r)
        if how in ("unwrap", "unwrap-load", "okload"):
            if isinstance(r, Agg) and r.name == "core::result::Result":
                if r.variant != "Ok":
                    return r if how == "okload" else "DIVERGE"
                inner = r.fields[0]
                if how == "unwrap":
                    return inner
                inner = load_(interp, env, inner)
                return inner if how == "unwrap-load" else ok(inner)
            return TOP
        if how == "load":
            return load_(interp, env, r)
        if how == "ok-load":
            return ok(load_(interp, env, r))
        return TOP

    def sibling_call(f, key, name, gargs=None):
        f2 = dict(f)
        f2["key"] = key
        f2["name"] = name
        f2.pop("resolved", None)
        if gargs is not None:
            f2["gargs"] = gargs
            f2.pop("cgargs", None)       # (the sugar's own instantiated arguments are not the accessor's)
        return f2

    def o(interp, env, f, args, t, bb, path):
        r = base(interp, env, f, args, t, bb, path)
        if r is not TOP:
            return r
        k = f.get("key") or ""
        nm = f.get("name")
        if f.get("_alias"):
            return TOP
        if k == REG + "set_value" and len(args) == 2:
            # set_value::<T>(v) = swap through try_borrow_value_mut::<T>(): reuse the modelled answer of a sibling accessor
            for sib, how in (("try_borrow_value_mut", "id"), ("borrow_value_mut", "ok"), ("try_borrow_value", "id"), ("borrow_value", "ok")):
                f2 = sibling_call(f, REG + sib, sib)
                f2["_alias"] = True
                r2 = wrap(how, base(interp, env, f2, args[:1], t, bb, path), interp, env)
                if isinstance(r2, Agg) and r2.name == "core::result::Result":
                    if r2.variant != "Ok":
                        return NONE
                    tgt = r2.fields[0]
                    if isinstance(tgt, Ref):
                        oldv = interp.read_ref(env, tgt)
                        interp.write_ref(env, tgt, args[1])
                        return some(oldv)
                    if isinstance(tgt, HRef):
                        oldv = href_get(interp, env, tgt)
                        if href_set(interp, env, tgt, args[1]):
                            return some(oldv)
                    return TOP
            return TOP
        tries = []       # (call description, conversion)
        if k.startswith(STATE) and nm in STATE_SUGAR:
            acc, ty = STATE_SUGAR[nm]
            tries.append((sibling_call(f, REG + acc, acc, [ty]), "id"))
            for sib, how in ACCESSOR_FAMILY.get(acc, ()):
                tries.append((sibling_call(f, REG + sib, sib, [ty]), how))
        elif k.startswith(REG) and nm in ACCESSOR_FAMILY:
            ga = (f.get("gargs") or [""])[0]
            for sugar, (acc, ty) in STATE_SUGAR.items():
                if ty.split("<")[0] == ga.split("<")[0]:
                    how = "id" if acc == nm else next((h for (a, h) in ACCESSOR_FAMILY[nm] if a == acc), None)
                    if how is not None:
                        tries.append((sibling_call(f, STATE + sugar, sugar), how))
            for sib, how in ACCESSOR_FAMILY[nm]:
                tries.append((sibling_call(f, REG + sib, sib), how))
        for f2, how in tries:
            f2["_alias"] = True
            r2 = wrap(how, base(interp, env, f2, args, t, bb, path), interp, env)
            if r2 is not TOP:
                return r2
        # the read accessors of the population stack: a rule that answers `current()` / `current_mut()` with its scenario's
        # top population answers get_current[_mut]() (Some of it), peek(0) and try_peek(0) the same way
        PK_ = "mahf::state::common::Populations::"
        if k.startswith(PK_):
            fam = {"current": [("current_mut", "id"), ("get_current", "unsome"), ("get_current_mut", "unsome")],
                   "current_mut": [("get_current_mut", "unsome"), ("current", "id")],
                   "get_current": [("current", "some"), ("current_mut", "some"), ("get_current_mut", "id")],
                   "get_current_mut": [("current_mut", "some"), ("current", "some")],
                   "peek": [("current", "id"), ("current_mut", "id")], "try_peek": [("current", "some"), ("current_mut", "some"), ("get_current", "id")]}.get(nm, ())
            if nm in ("peek", "try_peek") and not (len(args) == 2 and isinstance(args[1], int) and not isinstance(args[1], bool) and args[1] == 0):
                fam = ()
            for sib, how in fam:
                f2 = sibling_call(f, PK_ + sib, sib)
                f2["_alias"] = True
                r2 = base(interp, env, f2, args[:1], t, bb, path)
                if r2 is TOP or r2 == "DIVERGE":
                    continue
                if how == "some":
                    return some(r2)
                if how == "unsome":
                    if isinstance(r2, Agg) and r2.variant == "Some":
                        return r2.fields[0]
                    continue
                return r2
        return TOP
    return o
