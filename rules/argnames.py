"""K20 - argument / parameter role agreement at calls of the crate's own functions.

A call `f(b, a)` of a crate function `fn f(a: T, b: T)` where the caller's two arguments are the variables (or struct fields) NAMED
`b` and `a` hands each value to the parameter that carries the other's name: the two roles are exchanged.  Both sides are read from
the type-checked program (debug names of the caller's locals and of the callee's parameters, field names of the ADTs the arguments
are projected from); only a complete two-way cross-over between parameters of the same type is reported - a single differing name is
ordinary renaming.  The rule instances are all calls of crate functions with two or more same-typed parameters."""
from core import strip


def _norm(n):
    return (n or "").lstrip("_").lower()


def _arg_name(F, f, body, op, names, depth=0):
    """the name the caller uses for this argument: a named local, or the last named field of a projection of one"""
    if not isinstance(op, list) or op[0] not in ("move", "copy") or depth > 4:
        return None
    l, proj = op[1]
    if not proj and l in names:
        return names[l]
    if proj:
        # a field of a named local / parameter: the field's name
        ty = body.local_ty(l)
        nm = None
        for e in proj:
            if isinstance(e, list) and e[0] == "f":
                adt = F.adts.get(ty.lstrip("&").replace("mut ", "", 1).split("<")[0]) if ty else None
                if adt is None or len(adt.get("variants", [])) != 1:
                    return None
                fds = adt["variants"][0]["fields"]
                if e[1] >= len(fds):
                    return None
                nm, ty = fds[e[1]]["name"], fds[e[1]].get("ty")
            elif e == "*":
                continue
            else:
                return None
        return nm
    ds = body.defs().get(l, [])
    if len(ds) == 1 and ds[0][2] == "assign":
        rv = ds[0][3]
        if rv[0] == "use":
            return _arg_name(F, f, body, rv[1], names, depth + 1)
        if rv[0] == "cast":
            return _arg_name(F, f, body, rv[2], names, depth + 1)
    return None


def crossed_arguments(F):
    """[(caller fn, line, callee key, (i, j), (arg names), (param names))] and the number of calls examined"""
    out = []
    examined = 0
    for f in F.all_fns:
        if f.from_expansion or not f.file.startswith("src/"):
            continue
        body = f.body
        names = body.names()
        for bb, t in body.calls():
            k = t["f"].get("resolved", {}).get("key") or t["f"].get("key")
            cf = F.fn_opt(k) if k else None
            if cf is None or cf.kind not in ("Fn", "AssocFn") or not cf.sig:
                continue
            ins = cf.sig.get("inputs") or []
            if len(ins) != len(t["args"]) or len(ins) < 2:
                continue
            pn = {d["arg"] - 1: d["name"] for d in cf.body.dbg if d.get("arg")}
            an = {i: _arg_name(F, f, body, a, names) for i, a in enumerate(t["args"])}
            examined += 1
            for i in range(len(ins)):
                for j in range(i + 1, len(ins)):
                    if ins[i] != ins[j] or not pn.get(i) or not pn.get(j) or not an.get(i) or not an.get(j):
                        continue
                    if _norm(pn[i]) == _norm(pn[j]):
                        continue
                    if _norm(an[i]) == _norm(pn[j]) and _norm(an[j]) == _norm(pn[i]):
                        out.append((f, t.get("line"), k, (i, j), (an[i], an[j]), (pn[i], pn[j])))
    return out, examined


def check_for(ctx, files):
    """report the cross-overs located in the property's anchored files as <PROP>.K20"""
    rule = ctx.prop + ".K20"
    out, examined = crossed_arguments(ctx.facts)
    mine = [x for x in out if any(x[0].file == p or (p.endswith("/") and x[0].file.startswith(p)) for p in files)]
    for (f, line, k, (i, j), an, pn) in mine:
        ctx.violation(rule, f.key, "%s:%s<->%s" % (k.split("::")[-1], pn[0], pn[1]),
                      "the call of %s passes `%s` for its parameter `%s` and `%s` for its parameter `%s` (both %s): the two values reach each other's role"
                      % (k, an[0], pn[0], an[1], pn[1], (F_sig(ctx.facts, k, i))), loc=f.loc(line))
    if not mine:
        ctx.ok(rule, "calls of crate functions with same-typed parameters", "no-crossed-arguments", "%d calls examined crate-wide" % examined)
    ctx.count("k20_calls_examined", examined)
    ctx.floor(rule, "calls of crate functions with two or more parameters examined (crate-wide)", examined, 150)


def F_sig(F, k, i):
    cf = F.fn_opt(k)
    try:
        return cf.sig["inputs"][i]
    except Exception:
        return "?"
