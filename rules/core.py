"""Engine core: fact base loading, CFG utilities, expression reconstruction, pretty printer.

Everything here is generic over the fact base written by extractor/ (rustc MIR at
mir-opt-level=0).  Nothing in this module knows a property; the rule modules do.
"""
import json
import os
import re
import sys
from collections import defaultdict, deque

sys.setrecursionlimit(10000)


class AnchorMissing(Exception):
    """A semantic anchor (function, ADT, field, impl) a rule needs is not in the fact base."""


# ------------------------------------------------------------------------------------ places

def place_local(p):
    return p[0]


def place_proj(p):
    return p[1]


def is_plain(p):
    return not p[1]


def op_place(op):
    """place of a copy/move operand, else None"""
    if op[0] in ("copy", "move"):
        return op[1]
    return None


def op_const(op):
    if op[0] == "const":
        return op[1]
    return None


def proj_str(pr):
    out = ""
    for e in pr:
        if e == "*":
            out = "(*" + out + ")" if False else out + ".*"
        elif e[0] == "f":
            out += ".%d" % e[1]
        elif e[0] == "i":
            out += "[_%d]" % e[1]
        elif e[0] == "ci":
            out += "[%s%d]" % ("-" if e[2] else "", e[1])
        elif e[0] == "sub":
            out += "[%d..%s%d]" % (e[1], "-" if e[3] else "", e[2])
        elif e[0] == "d":
            out += " as %s" % (e[2] if e[2] is not None else "v%d" % e[1])
        else:
            out += ".?"
    return out


def place_str(p):
    return "_%d%s" % (p[0], proj_str(p[1]))


def op_str(op):
    if op[0] in ("copy", "move"):
        return ("move " if op[0] == "move" else "") + place_str(op[1])
    if op[0] == "const":
        c = op[1]
        if "fn" in c:
            return "fn:" + c["fn"]["key"]
        return "const " + c.get("text", "?")
    return str(op)


def rv_str(rv):
    k = rv[0]
    if k == "use":
        return op_str(rv[1])
    if k == "ref":
        return "&%s%s" % ("mut " if rv[1] == "mut" else "", place_str(rv[2]))
    if k == "rawptr":
        return "&raw %s %s" % (rv[1], place_str(rv[2]))
    if k == "bin":
        return "%s(%s, %s)" % (rv[1], op_str(rv[2]), op_str(rv[3]))
    if k == "un":
        return "%s(%s)" % (rv[1], op_str(rv[2]))
    if k == "cast":
        return "%s as %s [%s]" % (op_str(rv[2]), rv[3], rv[1])
    if k == "discr":
        return "discriminant(%s)" % place_str(rv[1])
    if k == "agg":
        kd = rv[1]
        nm = kd["k"]
        if nm == "adt":
            nm = "%s::%s" % (kd["adt"], kd["vname"])
        elif nm == "closure":
            nm = "closure " + kd["closure"]
        return "%s{%s}" % (nm, ", ".join(op_str(o) for o in rv[2]))
    return str(rv)


# ------------------------------------------------------------------------------------ body

class Body:
    def __init__(self, fn, mir):
        self.fn = fn
        self.argc = mir["argc"]
        self.locals = mir["locals"]
        self.dbg = mir["dbg"]
        self.blocks = mir["blocks"]
        self.n = len(self.blocks)
        self._succ = None
        self._pred = None
        self._defs = None
        self._dom = None
        self._pdom = None
        self._names = None

    # ---- naming
    def local_ty(self, l):
        return self.locals[l]["ty"]

    def names(self):
        """local -> source name (for plain-local debug entries)"""
        if self._names is None:
            self._names = {}
            for d in self.dbg:
                v = d["v"]
                if isinstance(v, list) and len(v) == 2 and isinstance(v[0], int) and not v[1]:
                    self._names.setdefault(v[0], d["name"])
        return self._names

    def local_named(self, name):
        """all locals carrying the given source name"""
        return [l for l, n in self.names().items() if n == name]

    def upvar_names(self):
        """closure bodies: field index of _1 -> captured variable name"""
        out = {}
        for d in self.dbg:
            v = d["v"]
            if isinstance(v, list) and len(v) == 2 and v[0] == 1 and v[1]:
                for e in v[1]:
                    if isinstance(e, list) and e[0] == "f":
                        out.setdefault(e[1], d["name"])
                        break
        return out

    # ---- CFG
    def term(self, bb):
        return self.blocks[bb]["t"]

    def stmts(self, bb):
        return self.blocks[bb]["s"]

    def is_cleanup(self, bb):
        return self.blocks[bb]["cleanup"]

    def succs(self, bb, unwind=False):
        t = self.blocks[bb]["t"]
        k = t["k"]
        out = []
        if k == "goto":
            out = [t["target"]]
        elif k == "switch":
            out = [b for _, b in t["targets"]] + [t["otherwise"]]
        elif k in ("drop", "assert"):
            out = [t["target"]]
        elif k == "call":
            out = [t["target"]] if t["target"] is not None else []
        # edges into a bare `unreachable` block (the impossible arm of a match) are not edges
        out = [b for b in out if not (self.blocks[b]["t"]["k"] == "unreachable" and not self.blocks[b]["s"])]
        if unwind and t.get("unwind") is not None:
            out = out + [t["unwind"]]
        # dedupe preserving order
        seen = []
        for b in out:
            if b not in seen:
                seen.append(b)
        return seen

    def normal_blocks(self):
        """blocks reachable from bb0 along non-unwind edges"""
        seen = {0}
        dq = deque([0])
        while dq:
            b = dq.popleft()
            for s in self.succs(b):
                if s not in seen:
                    seen.add(s)
                    dq.append(s)
        return seen

    def preds(self):
        if self._pred is None:
            self._pred = defaultdict(list)
            for b in self.normal_blocks():
                for s in self.succs(b):
                    self._pred[s].append(b)
        return self._pred

    def return_blocks(self):
        return [b for b in self.normal_blocks() if self.term(b)["k"] == "return"]

    def dominators(self):
        """immediate-dominator-free formulation: dom[b] = set of blocks dominating b (normal graph)"""
        if self._dom is None:
            nodes = sorted(self.normal_blocks())
            preds = self.preds()
            full = set(nodes)
            dom = {b: set(full) for b in nodes}
            dom[0] = {0}
            changed = True
            while changed:
                changed = False
                for b in nodes:
                    if b == 0:
                        continue
                    ps = [dom[p] for p in preds[b] if p in dom]
                    new = set.intersection(*ps) if ps else set()
                    new = new | {b}
                    if new != dom[b]:
                        dom[b] = new
                        changed = True
            self._dom = dom
        return self._dom

    def dominates(self, a, b):
        return a in self.dominators().get(b, set())

    def reachable_from(self, start, avoid=(), edge_filter=None):
        """blocks reachable from `start` (inclusive) on normal edges, never entering `avoid`"""
        avoid = set(avoid)
        if start in avoid:
            return set()
        seen = {start}
        dq = deque([start])
        while dq:
            b = dq.popleft()
            for s in self.succs(b):
                if s in avoid or s in seen:
                    continue
                if edge_filter and not edge_filter(b, s):
                    continue
                seen.add(s)
                dq.append(s)
        return seen

    def find_path(self, start, goal_pred, avoid=()):
        """shortest normal path from start to a block satisfying goal_pred avoiding `avoid`"""
        avoid = set(avoid)
        if start in avoid:
            return None
        prev = {start: None}
        dq = deque([start])
        while dq:
            b = dq.popleft()
            if goal_pred(b):
                path = []
                while b is not None:
                    path.append(b)
                    b = prev[b]
                return path[::-1]
            for s in self.succs(b):
                if s in avoid or s in prev:
                    continue
                prev[s] = b
                dq.append(s)
        return None

    def back_edges(self):
        out = []
        for b in self.normal_blocks():
            for s in self.succs(b):
                if self.dominates(s, b):
                    out.append((b, s))
        return out

    def loops(self):
        """natural loops: header -> set of blocks"""
        loops = {}
        preds = self.preds()
        for (tail, head) in self.back_edges():
            body = loops.setdefault(head, {head})
            stack = [tail]
            while stack:
                x = stack.pop()
                if x in body:
                    continue
                body.add(x)
                stack.extend(preds[x])
        return loops

    # ---- definitions
    def defs(self):
        """local -> list of (bb, idx, kind, payload): kind 'assign' (rvalue) or 'call' (terminator)
        only whole-local writes (no projections) are recorded here; projected writes go to pdefs"""
        if self._defs is None:
            d = defaultdict(list)
            pd = defaultdict(list)
            for bi, b in enumerate(self.blocks):
                for si, st in enumerate(b["s"]):
                    if st[0] == "=":
                        pl = st[1]
                        if not pl[1]:
                            d[pl[0]].append((bi, si, "assign", st[2]))
                        else:
                            pd[pl[0]].append((bi, si, "assign", st))
                t = b["t"]
                if t["k"] == "call":
                    pl = t["dest"]
                    if not pl[1]:
                        d[pl[0]].append((bi, -1, "call", t))
                    else:
                        pd[pl[0]].append((bi, -1, "call", t))
            self._defs = d
            self._pdefs = pd
        return self._defs

    def pdefs(self):
        self.defs()
        return self._pdefs

    def calls(self, normal_only=True):
        nb = self.normal_blocks() if normal_only else range(self.n)
        for b in sorted(nb):
            t = self.blocks[b]["t"]
            if t["k"] == "call":
                yield b, t

    def call_sites(self, pred, normal_only=True):
        """blocks whose call terminator's callee satisfies pred(calleeinfo)"""
        return [(b, t) for b, t in self.calls(normal_only) if pred(t["f"])]

    # ---- expression reconstruction
    def expr_of_local(self, l, depth=0, seen=None):
        if seen is None:
            seen = frozenset()
        if 1 <= l <= self.argc:
            # arguments can be reassigned, but that is rare; treat as arg unless it has defs
            if not self.defs().get(l):
                return ("arg", l)
        if l in seen or depth > 60:
            return ("var", l)
        ds = self.defs().get(l, [])
        if len(ds) != 1:
            return ("var", l)
        bb, si, kind, payload = ds[0]
        seen = seen | {l}
        if kind == "call":
            t = payload
            return ("call", callee_key(t["f"]), [self.expr_of_op(a, depth + 1, seen) for a in t["args"]],
                    {"bb": bb, "f": t["f"], "line": t.get("line")})
        return self.expr_of_rv(payload, depth + 1, seen)

    def expr_of_place(self, p, depth=0, seen=None):
        e = self.expr_of_local(p[0], depth, seen)
        for pr in p[1]:
            if pr == "*":
                e = ("deref", e)
            elif pr[0] == "f":
                if e[0] == "agg" and e[1] in ("tuple", "adt", "closure", "array") and pr[1] < len(e[4]):
                    e = e[4][pr[1]]   # a field of a freshly built aggregate is that operand
                else:
                    e = ("field", e, pr[1])
            elif pr[0] == "i":
                e = ("index", e, self.expr_of_local(pr[1], depth + 1, seen))
            elif pr[0] == "ci":
                e = ("cindex", e, pr[1], pr[2])
            elif pr[0] == "d":
                e = ("downcast", e, pr[1], pr[2])
            else:
                e = ("proj?", e, pr)
        return e

    def expr_of_op(self, op, depth=0, seen=None):
        if op[0] in ("copy", "move"):
            return self.expr_of_place(op[1], depth, seen)
        if op[0] == "const":
            c = op[1]
            if "fn" in c:
                return ("fnconst", callee_key(c["fn"]), c["fn"])
            if "f" in c:
                return ("const", c["ty"], float(c["f"]))
            if "v" in c:
                return ("const", c["ty"], c["v"])
            return ("const", c["ty"], c.get("text"))
        return ("op?", op)

    def expr_of_rv(self, rv, depth=0, seen=None):
        k = rv[0]
        if k == "use":
            return self.expr_of_op(rv[1], depth, seen)
        if k == "ref":
            return ("ref", rv[1], self.expr_of_place(rv[2], depth, seen))
        if k == "rawptr":
            return ("rawptr", rv[1], self.expr_of_place(rv[2], depth, seen))
        if k == "bin":
            return ("bin", rv[1], self.expr_of_op(rv[2], depth, seen), self.expr_of_op(rv[3], depth, seen))
        if k == "un":
            return ("un", rv[1], self.expr_of_op(rv[2], depth, seen))
        if k == "cast":
            return ("cast", rv[1], self.expr_of_op(rv[2], depth, seen), rv[3], rv[4])
        if k == "discr":
            return ("discr", self.expr_of_place(rv[1], depth, seen))
        if k == "agg":
            kd = rv[1]
            ops = [self.expr_of_op(o, depth, seen) for o in rv[2]]
            if kd["k"] == "adt":
                return ("agg", "adt", kd["adt"], kd["vname"], ops)
            if kd["k"] == "closure":
                return ("agg", "closure", kd["closure"], None, ops)
            return ("agg", kd["k"], None, None, ops)
        return ("rv?", rv)


def callee_key(f):
    """stable key of a callee descriptor; the resolved impl method if the compiler could resolve it"""
    if f.get("kind") != "def":
        return "<" + f.get("kind", "?") + ">"
    r = f.get("resolved")
    if r:
        return r["key"]
    return f["key"]


def callee_keys(f):
    """both the declared (trait) key and the resolved key"""
    if f.get("kind") != "def":
        return ["<" + f.get("kind", "?") + ">"]
    out = [f["key"]]
    if f.get("resolved"):
        out.append(f["resolved"]["key"])
    return out


# strip wrappers that do not change which object an expression denotes
_TRANSPARENT_CALLS = {
    "core::ops::deref::Deref::deref", "core::ops::deref::DerefMut::deref_mut",
    "core::borrow::Borrow::borrow", "core::borrow::BorrowMut::borrow_mut",
    "core::convert::AsRef::as_ref", "core::convert::AsMut::as_mut",
}


def strip(e, calls=True):
    """look through ref/deref/copy and Deref-like calls"""
    while True:
        if e[0] in ("ref", "rawptr"):
            e = e[2]
        elif e[0] == "deref":
            e = e[1]
        elif e[0] == "cast" and e[1].startswith("PointerCoercion"):
            e = e[2]
        elif calls and e[0] == "call" and (e[3]["f"].get("key") in _TRANSPARENT_CALLS or
                                           e[3]["f"].get("name") in ("deref", "deref_mut") and
                                           e[3]["f"].get("trait", "").startswith("core::ops::deref")):
            e = e[2][0]
        else:
            return e


def expr_str(e, depth=0):
    if depth > 12:
        return "…"
    k = e[0]
    d = depth + 1
    if k == "arg":
        return "arg%d" % e[1]
    if k == "var":
        return "var_%d" % e[1]
    if k == "const":
        return repr(e[2])
    if k == "fnconst":
        return "fn:" + e[1]
    if k == "call":
        return "%s(%s)" % (e[1], ", ".join(expr_str(a, d) for a in e[2]))
    if k == "bin":
        return "%s(%s, %s)" % (e[1], expr_str(e[2], d), expr_str(e[3], d))
    if k == "un":
        return "%s(%s)" % (e[1], expr_str(e[2], d))
    if k == "field":
        return "%s.%d" % (expr_str(e[1], d), e[2])
    if k == "deref":
        return "*%s" % expr_str(e[1], d)
    if k == "ref":
        return "&%s%s" % ("mut " if e[1] == "mut" else "", expr_str(e[2], d))
    if k == "rawptr":
        return "&raw %s" % expr_str(e[2], d)
    if k == "index":
        return "%s[%s]" % (expr_str(e[1], d), expr_str(e[2], d))
    if k == "cindex":
        return "%s[%s%d]" % (expr_str(e[1], d), "-" if e[3] else "", e[2])
    if k == "downcast":
        return "(%s as %s)" % (expr_str(e[1], d), e[3] if e[3] else e[2])
    if k == "cast":
        return "(%s as %s)" % (expr_str(e[2], d), e[3])
    if k == "discr":
        return "discr(%s)" % expr_str(e[1], d)
    if k == "agg":
        nm = e[1] if e[2] is None else "%s::%s" % (e[2], e[3]) if e[3] else e[2]
        return "%s{%s}" % (nm, ", ".join(expr_str(a, d) for a in e[4]))
    return str(e)


def subexprs(e):
    """all sub-expressions (pre-order), including e"""
    yield e
    k = e[0]
    if k == "call":
        for a in e[2]:
            yield from subexprs(a)
    elif k == "bin":
        yield from subexprs(e[2])
        yield from subexprs(e[3])
    elif k in ("un", "cast"):
        yield from subexprs(e[2])
    elif k in ("field", "deref", "discr", "downcast", "cindex"):
        yield from subexprs(e[1])
    elif k in ("ref", "rawptr"):
        yield from subexprs(e[2])
    elif k == "index":
        yield from subexprs(e[1])
        yield from subexprs(e[2])
    elif k == "agg":
        for a in e[4]:
            yield from subexprs(a)


def expr_calls(e):
    """keys of every call inside the expression"""
    return [x[1] for x in subexprs(e) if x[0] == "call"]


# ------------------------------------------------------------------------------------ facts

class Fn:
    def __init__(self, raw):
        self.raw = raw
        self.path = raw["path"]
        self.key = raw["key"]
        self.kind = raw["kind"]
        self.name = raw.get("name")
        self.span = raw["span"]
        self.vis = raw.get("vis")
        self.sig = raw.get("sig")
        self.generics = raw.get("generics")
        self.parent = raw.get("parent")
        self.lexical_parent = raw.get("lexical_parent")
        self.impl_self_adt = raw.get("impl_self_adt")
        self.impl_self_ty = raw.get("impl_self_ty")
        self.impl_trait = raw.get("impl_trait")
        self.impl_trait_text = raw.get("impl_trait_text")
        self.body = Body(self, raw["mir"])
        self.promoted = [Body(self, m) for m in raw.get("promoted", [])]

    @property
    def file(self):
        return self.span["file"]

    @property
    def from_expansion(self):
        # generated code (derives, function-like macros).  A function under an ATTRIBUTE macro (`#[contracts::ensures(..)]`) is the
        # user's own body re-emitted by the macro: it is analysed like any other function
        return "exp" in self.span and not str(self.span.get("exp")).startswith("Macro(Attr")

    def loc(self, line=None):
        if line is None:
            return "%s:%d" % (self.span["file"], self.span["line"])
        if isinstance(line, list):
            line = line[0]
        return "%s:%d" % (self.span["file"], line)

    def __repr__(self):
        return "Fn(%s)" % self.key


def helper_file(callee_file, base_file):
    """is `callee_file` a place where the private helpers of the code in `base_file` live: the same file, a (nested) child
    module file (`a/b.rs` or `a/b/mod.rs` -> `a/b/**`), a sibling file of the same module directory (`a/b/x.rs` -> `a/b/y.rs`,
    not the crate's top-level `src/` siblings) or the parent module's own file (`a/b/x.rs` -> `a/b/mod.rs` / `a/b.rs`).
    Only functions that are not `pub` are considered at all (see Interp.sibling)."""
    if not callee_file or not base_file:
        return False
    if callee_file == base_file:
        return True
    import os.path as _p
    bdir = _p.dirname(base_file)
    child = bdir if _p.basename(base_file) == "mod.rs" else base_file[:-3]
    if callee_file.startswith(child + "/"):
        return True
    if bdir not in ("src", "") and _p.dirname(callee_file) == bdir:
        return True
    if bdir not in ("src", "") and callee_file in (bdir + "/mod.rs", bdir + ".rs"):
        return True
    return False


class Facts:
    def __init__(self, docs):
        """docs: list of parsed fact documents (lib first). Later documents only add functions
        whose key is not yet present (e.g. the cfg(test) build adds test-only bodies)."""
        self.docs = docs
        self.fns = defaultdict(list)
        self.all_fns = []
        self.adts = {}
        self.impls = []
        self.traits = {}
        self.unsafe_blocks = []
        self.statics = []
        for d in docs:
            for a in d["adts"]:
                self.adts.setdefault(a["path"], a)
            for t in d["traits"]:
                self.traits.setdefault(t["path"], t)
            self.impls.extend(d["impls"])
            self.unsafe_blocks.extend(d["unsafe_blocks"])
            self.statics.extend(d.get("statics", []))
            for raw in d["fns"]:
                f = Fn(raw)
                f.crate = d["crate"]
                self.fns[f.key].append(f)
                self.all_fns.append(f)
        self._closures_of = None
        self._callers = None

    # ---- lookup
    def fn(self, key):
        fs = self.fns.get(key)
        if not fs and key and not key.startswith("<") and "::" in key:
            # a free function addressed by its public path may live in a (private) submodule and be re-exported at that path:
            # the one function of that name below the module
            mod, name = key.rsplit("::", 1)
            if name[:1].islower() and mod.rsplit("::", 1)[-1][:1].islower():
                hits = [k for k in self.fns if k.startswith(mod + "::") and k.endswith("::" + name) and "{" not in k and "<" not in k
                        and all(seg[:1].islower() for seg in k[len(mod) + 2:].split("::"))]
                if len(hits) == 1:
                    fs = self.fns.get(hits[0])
        if not fs:
            raise AnchorMissing("function %s not found" % key)
        if len(fs) > 1:
            raise AnchorMissing("function key %s is ambiguous (%d bodies)" % (key, len(fs)))
        if os.environ.get("MAHF_FN_LOG"):
            with open(os.environ["MAHF_FN_LOG"], "a") as fh:
                fh.write("%s\t%s\t%s\n" % (key, fs[0].vis, fs[0].kind))
        return fs[0]

    def fn_opt(self, key):
        fs = self.fns.get(key)
        return fs[0] if fs and len(fs) == 1 else None

    def fns_matching(self, rx):
        r = re.compile(rx)
        return [f for f in self.all_fns if r.search(f.key)]

    def method(self, adt, name, trait=None):
        if trait:
            return self.fn("<%s as %s>::%s" % (adt, trait, name))
        return self.fn("%s::%s" % (adt, name))

    def adt(self, path):
        a = self.adts.get(path)
        if a is None:
            raise AnchorMissing("ADT %s not found" % path)
        return a

    def field_index(self, adt_path, name, variant=0):
        a = self.adt(adt_path)
        for f in a["variants"][variant]["fields"]:
            if f["name"] == name:
                return f["i"]
        # a private field may be renamed freely; a struct with ONE non-marker field has only one candidate
        real = [f for f in a["variants"][variant]["fields"] if not (f.get("ty") or "").startswith("core::marker::PhantomData")]
        if len(real) == 1 and real[0].get("vis") != "pub":
            return real[0]["i"]
        raise AnchorMissing("field %s.%s not found" % (adt_path, name))

    def impls_of(self, trait):
        return [i for i in self.impls if i["trait"] == trait]

    def closures_of(self, key):
        """closure bodies lexically inside function `key` (transitively)"""
        if self._closures_of is None:
            self._closures_of = defaultdict(list)
            for f in self.all_fns:
                if f.kind == "Closure" and f.parent:
                    self._closures_of[f.parent].append(f)
        return self._closures_of.get(key, [])

    def with_closures(self, fn):
        return [fn] + self.closures_of(fn.key)

    def is_private_helper(self, cf, base_files):
        """a function that is not `pub`, not a trait method, and lives where the helpers of the code in `base_files` live (same
        file, child / sibling / parent module file) or whose `pub(in ..)` scope is a proper module containing that code"""
        if cf is None or cf.kind not in ("Fn", "AssocFn") or cf.vis in ("pub", "public", None):
            return False                  # (methods of an impl of a trait have the trait's visibility: impls of private traits are helpers too)
        if any(helper_file(cf.file, b) for b in base_files):
            return True
        if cf.kind == "Fn" and cf.vis == "in mahf" and cf.file.startswith("src/"):
            return True      # a crate-private FREE function is plumbing shared between modules (`phases::lifecycle` called from configuration.rs)
        scope = cf.vis[3:] if isinstance(cf.vis, str) and cf.vis.startswith("in ") else None
        if scope and "::" in scope:
            for b in base_files:
                if b and b.startswith("src/") and b.endswith(".rs"):
                    m = "mahf::" + b[4:-3].replace("/", "::")
                    m = m[:-5] if m.endswith("::mod") else m
                    if m == scope or m.startswith(scope + "::"):
                        return True
        return False

    def helper_reach(self, fn, limit=40):
        """fn, its closures, and - transitively - the private helper functions (is_private_helper) they call, with closures"""
        out, todo, seen = [], [fn], set()
        while todo and len(out) < limit:
            g = todo.pop(0)
            if g.key in seen:
                continue
            seen.add(g.key)
            for h in self.with_closures(g):
                if h.key not in seen or h is g:
                    out.append(h)
                    seen.add(h.key)
                for _b, t in h.body.calls():
                    k = t["f"].get("resolved", {}).get("key") or t["f"].get("key")
                    cf = self.fn_opt(k) if k else None
                    if cf is not None and cf.key not in seen and self.is_private_helper(cf, {fn.file, h.file}):
                        todo.append(cf)
        return out

    def callers_of(self, pred):
        """[(fn, bb, term)] for every call (incl. function items passed as values) whose callee
        descriptor satisfies pred"""
        out = []
        for f in self.all_fns:
            for b, t in f.body.calls(normal_only=False):
                if pred(t["f"]):
                    out.append((f, b, t))
        return out

    def fn_refs(self, pred):
        """function items used as values (passed to map/and_then/...): [(fn, where, calleeinfo)]"""
        out = []
        for f in self.all_fns:
            for bi, b in enumerate(f.body.blocks):
                for st in b["s"]:
                    if st[0] == "=":
                        for c in _consts_in_rv(st[2]):
                            if "fn" in c and pred(c["fn"]):
                                out.append((f, bi, c["fn"]))
                t = b["t"]
                if t["k"] == "call":
                    for a in t["args"]:
                        c = op_const(a)
                        if c and "fn" in c and pred(c["fn"]):
                            out.append((f, bi, c["fn"]))
        return out


def _consts_in_rv(rv):
    k = rv[0]
    ops = []
    if k in ("use",):
        ops = [rv[1]]
    elif k == "bin":
        ops = [rv[2], rv[3]]
    elif k in ("un",):
        ops = [rv[2]]
    elif k == "cast":
        ops = [rv[2]]
    elif k == "agg":
        ops = rv[2]
    elif k == "repeat":
        ops = [rv[1]]
    for o in ops:
        c = op_const(o)
        if c:
            yield c


def load_facts(paths):
    docs = []
    for p in paths:
        with open(p) as fh:
            docs.append(json.load(fh))
    return Facts(docs)


# ------------------------------------------------------------------------------------ printer

def pp_fn(fn, out=sys.stdout):
    b = fn.body
    w = out.write
    w("fn %s   [%s]\n" % (fn.key, fn.loc()))
    if fn.sig:
        w("   sig: (%s) -> %s\n" % (", ".join(fn.sig["inputs"]), fn.sig["output"]))
    names = b.names()
    for l in b.locals:
        nm = names.get(l["i"])
        w("   let %s_%d: %s%s\n" % ("mut " if l["mut"] else "", l["i"], l["ty"], ("   // " + nm) if nm else ""))
    uv = b.upvar_names()
    if uv:
        w("   upvars: %s\n" % uv)
    for bi, blk in enumerate(b.blocks):
        w(" bb%d%s:\n" % (bi, " (cleanup)" if blk["cleanup"] else ""))
        for st in blk["s"]:
            if st[0] == "=":
                w("     %s = %s   @%s\n" % (place_str(st[1]), rv_str(st[2]), st[3]))
            elif st[0] == "dead":
                pass
            else:
                w("     %s\n" % (st,))
        t = blk["t"]
        k = t["k"]
        if k == "call":
            f = t["f"]
            nm = f.get("key", f.get("kind"))
            if f.get("resolved"):
                nm += " => " + f["resolved"]["key"]
            ga = f.get("gargs")
            w("     %s = %s%s(%s) -> bb%s unwind %s  @%s\n" % (
                place_str(t["dest"]), nm, ("::<%s>" % ", ".join(ga)) if ga else "",
                ", ".join(op_str(a) for a in t["args"]), t["target"], t["unwind"], t.get("line")))
        elif k == "switch":
            w("     switch %s [%s, otherwise bb%d]  @%s\n" % (
                op_str(t["discr"]), ", ".join("%d: bb%d" % (v, tb) for v, tb in t["targets"]), t["otherwise"], t.get("line")))
        elif k == "drop":
            w("     drop(%s: %s) -> bb%d unwind %s\n" % (place_str(t["place"]), t["ty"], t["target"], t["unwind"]))
        elif k == "assert":
            w("     assert(%s == %s, %s) -> bb%d\n" % (op_str(t["cond"]), t["expected"], t["msg"], t["target"]))
        elif k == "goto":
            w("     goto bb%d\n" % t["target"])
        else:
            w("     %s\n" % k)


if __name__ == "__main__":
    import glob
    facts = load_facts(sorted(glob.glob(sys.argv[1])))
    rx = sys.argv[2]
    for f in facts.fns_matching(rx):
        pp_fn(f)
        print()
