"""Dependencies between properties: mechanisms of one property that another property's statement rests on.

A property about operators on the population stack only means something if the stack is a stack; `nested loops count their own
passes` rests on the registry resolving to the innermost scope; `replace only if better` rests on the objective order being the
numeric order.  The owning property's rule decides the mechanism; the dependent property's check RUNS THE SAME RULE BODY (on
the same MIR) and records the result under its own rule id `<PROP>.D<n>`, so a change that breaks the mechanism is reported by
every property it breaks.  (module, rule function, rule id in the owning module, what the dependent property needs it for)"""

REGISTRY = ("c01", "r2b_placements", "C01.R2", "state is looked up / inserted in the innermost scope that holds it")
SCOPES = ("c01", "r4_push_pop", "C01.R4", "a scope is pushed and popped with exactly its own entries")
HOLDING = ("c02", "r4_holding", "C02.R4", "State::holding puts the held state back where it came from")
STACK = ("c04", "r1", "C04.R1", "the population stack is a plain stack")
ORDER = ("c09", "r3_total_order", "C09.R3", "`better` is the numeric order of objective values")
REQUIRE = ("c03", "r8_require", "C03.R8", "a requirement is met by state of any enclosing scope")

SUGAR = ("c01", "r6_named_accessors", "C01.R6", "State's named accessors (populations_mut, random_mut, iterations, best_individual, ...) are the registry accessors of the named type")
OWNKEYS = ("c16", "r8_state_keys", "C16.R8", "a component reads its run-time parameters and its evaluator / memories under its own instantiation and identifier")
EQUALITY = ("c07", "r7_individual_equality", "C07.R7", "two individuals are equal iff solution and objective are equal")
INNER = ("c01", "r7_inner_state", "C01.R7", "a pushed scope is popped, and the caller's registry restored, on every exit of with_inner_state - also when the inner code fails")
EVALUATORS = ("c06", "r2_evaluators", "C06.R2", "an evaluation writes f(its own solution) into every individual of the slice, evaluated before or not")
LOOPS = ("c16", "r11_nested_loops", "C16.R11", "a loop counts its own passes on its own counter, also nested in a scope inside another loop")
PROGRAM = ("c03", "r9_program_semantics", "C03.R9", "a configuration runs as the structured program it describes: phases, scopes opened and closed on every exit, branches taken once")
TEMPLATES = ("c16", "r1_r2_r3_only", "C16.R1", "the shipped templates keep the population stack balanced and evaluated where objective values are read")
TPARAMS = ("c16", "r14_template_parameters", "C16.R14", "templates use every required parameter component and evaluate under their own identifier")
IDENT = ("c06", "r4_identifiers", "C06.R4", "the evaluation steps the builder appends name the evaluator of the requested identifier")
EVALSTEP = ("c06", "r1_population_evaluator", "C06.R1", "the evaluation step hands the whole top population to the evaluator held under the component's own identifier")
FIREFLY = ("c06", "r7_firefly", "C06.R7", "the firefly update re-evaluates every moved firefly with the evaluator held under its own identifier")

DEPS = {
    "C02": [REGISTRY, SUGAR, INNER, PROGRAM],
    "C03": [REGISTRY, SCOPES, SUGAR],
    "C04": [SUGAR, REGISTRY],
    "C05": [SUGAR, OWNKEYS, EVALSTEP, FIREFLY, REGISTRY, TPARAMS, IDENT],
    "C06": [REGISTRY, STACK, SUGAR, OWNKEYS],
    "C07": [REGISTRY, STACK, SUGAR, OWNKEYS, EVALUATORS, IDENT],
    "C08": [REGISTRY, SUGAR],
    "C10": [REGISTRY, SUGAR],
    "C11": [STACK, SUGAR, REGISTRY, EQUALITY],
    "C12": [STACK, SUGAR, REGISTRY],
    "C13": [STACK, REGISTRY, SUGAR, OWNKEYS, PROGRAM],
    "C14": [STACK, SUGAR, REGISTRY],
    "C15": [REGISTRY, SUGAR, LOOPS],
    "C16": [REGISTRY, STACK, ORDER, REQUIRE, EQUALITY, SUGAR],
    "C17": [STACK, REGISTRY, SUGAR, OWNKEYS],
    "C18": [STACK, ORDER, REGISTRY, SUGAR, OWNKEYS, TPARAMS],
    "C19": [STACK, ORDER, REGISTRY, SUGAR, OWNKEYS, EVALUATORS, IDENT],
    "C20": [STACK, REGISTRY, EQUALITY, SUGAR, OWNKEYS, TEMPLATES],
}


# properties whose statement implies that the anchored code completes: a dynamic borrow conflict (a registry guard still alive
# when the same state type is acquired again) is a run-time panic / a refused or silently dropped write on that path.  K4 (guard
# typestate, crate-wide summaries) is evaluated once and filtered to the functions of the property's own anchored files.
# (C13.R3, C20.R4 and C16.R6 are the older per-property / crate-wide instances of the same analysis.)
GUARD_PROPS = ("C03", "C04", "C05", "C06", "C07", "C08", "C10", "C11", "C12", "C14", "C15", "C17", "C18", "C19")


def guard_files(prop):
    import json
    import os
    path = os.path.join(os.path.dirname(os.path.dirname(os.path.abspath(__file__))), "properties.jsonl")
    for line in open(path):
        p = json.loads(line)
        if p.get("id") == prop:
            return tuple(x for x in p.get("anchors", {}).get("files", []) if x.startswith("src/") and not x.startswith("src/heuristics/"))
    return ()


def guards(ctx):
    import k4
    files = guard_files(ctx.prop)
    rule = ctx.prop + ".K4"
    out, stats, S = k4.guard_conflicts(ctx.facts)
    mine = [(fn, g, c) for (fn, g, c) in out if any(fn.file == x or (x.endswith("/") and fn.file.startswith(x)) for x in files)]
    bodies = len([f for f in ctx.facts.all_fns if any(f.file == x or (x.endswith("/") and f.file.startswith(x)) for x in files) and not f.from_expansion])
    ctx.count("k4_bodies_in_anchored_files", bodies)
    seen = set()
    for fn, g, c in mine:
        key = (fn.key, g[0], c[1])
        if key in seen:
            continue
        seen.add(key)
        ctx.violation(rule, fn.key, "%s while %s" % (c[1].split("::")[-1], g[3]),
                      "%s guard on %s (acquired via %s at line %s) is still live when %s acquires it %s at line %s: %s"
                      % (g[1], g[0], g[3], g[2][0] if g[2] else "?", c[1], c[3], c[0][0] if c[0] else "?", c[4]), loc=fn.loc(c[0]))
    if not mine:
        ctx.ok(rule, "anchored files", "no-guard-conflict", "%d bodies in %s" % (bodies, list(files)))


def anchored_files(prop):
    """the property's anchored source files, templates included"""
    import json
    import os
    path = os.path.join(os.path.dirname(os.path.dirname(os.path.abspath(__file__))), "properties.jsonl")
    for line in open(path):
        p = json.loads(line)
        if p.get("id") == prop:
            return tuple(x for x in p.get("anchors", {}).get("files", []) if x.startswith("src/"))
    return ()


def run(ctx):
    for i, (module, fname, old, why) in enumerate(DEPS.get(ctx.prop, []), 1):
        ctx.borrow("%s.D%d" % (ctx.prop, i), why, module, fname, old)
    if ctx.prop in GUARD_PROPS:
        ctx.guard(ctx.prop + ".K4", "no dynamic borrow conflict in the anchored code", lambda: guards(ctx))
    files = anchored_files(ctx.prop)
    if files:
        ctx.guard(ctx.prop + ".K20", "no call in the anchored code exchanges two same-typed arguments", lambda: __import__("argnames").check_for(ctx, files))


def explain(prop):
    ds = DEPS.get(prop, [])
    k4txt = (" (K4) no registry guard is still alive when the same state type is acquired again (directly or through a callee's summary) anywhere in this property's anchored files: such a path panics, or a write through a `try_` accessor / set_value is refused."
             if prop in GUARD_PROPS else "")
    k4txt += (" (K20) no call of a crate function in this property's anchored files hands two same-typed parameters the caller's values "
              "NAMED after each other (`f(b, a)` for `fn f(a, b)`): names of the caller's variables / struct fields and of the callee's parameters are read "
              "from the type-checked program; only a complete two-way cross-over is reported.")
    if not ds:
        return k4txt
    return k4txt + (" Mechanisms of other properties this statement rests on are decided by running the owning property's rule body under this "
            "property's ids: " + "; ".join("%s.D%d = %s (%s)" % (prop, i, old, why) for i, (_m, _f, old, why) in enumerate(ds, 1)) + ".")
