"""Dependencies between properties: mechanisms of one property that another property's statement rests on.

A property about operators on the population stack only means something if the stack is a stack; `nested loops count their own
passes` rests on the registry resolving to the innermost scope; `replace only if better` rests on the objective order being the
numeric order.  The owning property's rule decides the mechanism; the dependent property's check RUNS THE SAME RULE BODY (on
the same MIR) and records the result under its own rule id `<PROP>.D<n>`, so a change that breaks the mechanism is reported by
every property it breaks.  (module, rule function, rule id in the owning module, what the dependent property needs it for)"""

REGISTRY = ("c01", "r2b_placements", "C01.R2", "state is looked up / inserted in the innermost scope that holds it")
SCOPES = ("c01", "r4_push_pop", "C01.R4", "a scope is pushed and popped with exactly its own entries")
HOLDING = ("c02", "r4_holding", "C02.R4", "State::holding puts the held state back where it came from")
STACK = ("c04", "r1", "C04.R1", "the population stack is a plain stack")
ORDER = ("c09", "r3_total_order", "C09.R3", "`better` is the numeric order of objective values")
REQUIRE = ("c03", "r8_require", "C03.R8", "a requirement is met by state of any enclosing scope")

SUGAR = ("c01", "r6_named_accessors", "C01.R6", "State's named accessors (populations_mut, random_mut, iterations, best_individual, ...) are the registry accessors of the named type")
OWNKEYS = ("c16", "r8_state_keys", "C16.R8", "a component reads its run-time parameters and its evaluator / memories under its own instantiation and identifier")
EQUALITY = ("c07", "r7_individual_equality", "C07.R7", "two individuals are equal iff solution and objective are equal")

DEPS = {
    "C02": [REGISTRY, SUGAR],
    "C03": [REGISTRY, SCOPES, SUGAR],
    "C04": [SUGAR],
    "C05": [SUGAR],
    "C06": [REGISTRY, STACK, SUGAR, OWNKEYS],
    "C07": [REGISTRY, STACK, SUGAR, OWNKEYS],
    "C08": [REGISTRY, SUGAR],
    "C10": [REGISTRY, SUGAR],
    "C11": [STACK, SUGAR],
    "C12": [STACK, SUGAR],
    "C13": [STACK, REGISTRY, SUGAR, OWNKEYS],
    "C14": [STACK, SUGAR],
    "C15": [REGISTRY, SUGAR],
    "C16": [REGISTRY, STACK, ORDER, REQUIRE, EQUALITY, SUGAR],
    "C17": [STACK, REGISTRY, SUGAR, OWNKEYS],
    "C18": [STACK, ORDER, REGISTRY, SUGAR, OWNKEYS],
    "C19": [STACK, ORDER, REGISTRY, SUGAR, OWNKEYS],
    "C20": [STACK, REGISTRY, EQUALITY, SUGAR, OWNKEYS],
}


def run(ctx):
    for i, (module, fname, old, why) in enumerate(DEPS.get(ctx.prop, []), 1):
        ctx.borrow("%s.D%d" % (ctx.prop, i), why, module, fname, old)


def explain(prop):
    ds = DEPS.get(prop, [])
    if not ds:
        return ""
    return (" Mechanisms of other properties this statement rests on are decided by running the owning property's rule body under this "
            "property's ids: " + "; ".join("%s.D%d = %s (%s)" % (prop, i, old, why) for i, (_m, _f, old, why) in enumerate(ds, 1)) + ".")
