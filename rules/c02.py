"""C02 — dynamic borrows: many readers xor one writer per type; conflicts are errors."""
import itertools

from core import expr_str, strip, subexprs, callee_keys, AnchorMissing
from kinds import (FROM_RESIDUAL, all_places, is_call_to, must_pass, origin, result_disposition, try_split)
import c01

EXPLANATION = (
    "Decided statically: (R1) the per-entry cells are core::cell::RefCell (one per (scope, type) entry) and are only "
    "ever touched through RefCell's checked API from inside the registry module — no as_ptr/try_borrow_unguarded/leak "
    "anywhere in the crate; (R2) by finite-domain abstract interpretation of every accessor over {cell free, cell "
    "conflicting} x 8 scope placements: a conflicting cell makes try_borrow return Err(BorrowConflictImm) and "
    "try_borrow_mut Err(BorrowConflictMut) (never Ok, never a panic), the try_* family never panics in any scenario, "
    "and the panicking accessors diverge only through StateError::panic; (R3) the only user-written `unsafe` in the "
    "state module is the multi-borrow, and for every arity 2..8 and EVERY equality pattern of the tuple's types "
    "(all set partitions, 5294 cases) distinct() is true exactly when all types differ, try_get_mut performs no "
    "get_mut (hence no raw deref) and returns MultipleBorrowConflict unless all differ, and otherwise calls "
    "get_mut::<Ti> once per element in order, returning NotFound when one is missing; (R4) State::holding is evaluated "
    "(K6) over every placement of T in a three-scope chain x {closure succeeds, fails, inserts its own T on top}: the "
    "closure runs with T taken out, afterwards T is back in exactly the scope it came from, the placeholder is gone and "
    "the closure's result is returned (an absent T is an error that changes nothing); the placeholder key is a "
    "function-local type generic in T; (R6) crate-wide dynamic-borrow typestate "
    "analysis (K4) over all component code. NOT decided: RefCell's own reader-count/writer-flag automaton (trusted), "
    "value visibility after release, interleavings of guards created by user code.")
EXPLANATION += " " + '(R4 revised) State::holding evaluated over the typed store (K19, three scopes, every registry accessor incl. the entry API answered): the closure receives exactly the T that was taken out while T is absent from the state, afterwards that same T is back in the scope it came from and no placeholder is left, for a succeeding / failing / shadow-inserting closure.'
ASSUMPTIONS = ["core::cell::RefCell implements the reader-count / writer-flag automaton as documented",
               "Marker<T> in State::holding is a function-local type that no other code can name, so its lookups cannot fail"]

REG = c01.REG
R = c01.R
CELL_MARK = "alloc::boxed::Box<dyn mahf::state::registry::custom::CustomState"


def r1_cell_api(ctx):
    F = ctx.facts
    a = F.adt(REG)
    mty = [f for f in a["variants"][0]["fields"] if f["name"] == "map"][0]["ty"]
    ctx.check("core::any::TypeId, core::cell::RefCell<" + CELL_MARK in mty, "C02.R1", REG, "one-cell-per-entry",
              "the scope map is not HashMap<TypeId, RefCell<Box<dyn CustomState>>> (one borrow flag per entry): %s" % mty, detail=mty)
    forbidden = ("as_ptr", "try_borrow_unguarded", "undo_leak", "leak")
    n = 0
    for (f, bb, t) in F.callers_of(lambda c: c.get("kind") == "def" and (c.get("self_adt") in ("core::cell::RefCell", "core::cell::Ref", "core::cell::RefMut", "core::cell::UnsafeCell", "core::cell::Cell"))):
        nm = t["f"].get("name")
        sty = t["f"].get("self_ty") or ""
        if nm in forbidden:
            ctx.violation("C02.R1", f.key, nm, "%s bypasses the dynamic borrow check" % t["f"]["key"], loc=f.loc(t.get("line")))
        if t["f"].get("self_adt") == "core::cell::RefCell" and CELL_MARK in sty:
            n += 1
            inside = f.key.startswith("mahf::state::registry::") or f.key.startswith("<mahf::state::registry::")
            ctx.check(inside and nm in ("new", "try_borrow", "try_borrow_mut", "borrow", "borrow_mut", "get_mut", "into_inner"), "C02.R1", f.key, nm,
                      "state cell operation %s used %s" % (nm, "outside the registry module" if not inside else "(not a checked RefCell operation)"), loc=f.loc(t.get("line")))
    ctx.floor("C02.R1", "operations on state cells", n, 6)
    # transmutes / raw pointer casts in the state module
    for f in F.all_fns:
        if not f.file.startswith("src/state/"):
            continue
        for bb in sorted(f.body.normal_blocks()):
            for st in f.body.stmts(bb):
                if st[0] == "=" and st[2][0] == "cast" and st[2][1] == "Transmute":
                    src, dst = st[2][4], st[2][3]
                    # Box<T> -> *const T unwrapping inserted by MIR building is not a user transmute
                    if src.startswith("core::ptr::non_null::NonNull<") and dst.startswith("*const "):
                        continue
                    ctx.violation("C02.R1", f.key, "transmute", "transmute %s -> %s in the state module" % (src, dst), loc=f.loc(st[3]))
        for bb, t in f.body.calls():
            if t["f"].get("key") in ("core::intrinsics::transmute", "core::mem::transmute", "core::mem::transmute_copy"):
                ctx.violation("C02.R1", f.key, "transmute", "mem::transmute in the state module", loc=f.loc(t.get("line")))


TRY_FAMILY = ["try_borrow", "try_borrow_mut", "try_get_value", "try_borrow_value", "try_borrow_value_mut", "set_value", "get_mut",
              "contains", "contains_at_top", "find", "find_mut", "remove", "insert"]
PANICKING = {"borrow": "try_borrow", "borrow_mut": "try_borrow_mut", "get_value": "try_get_value", "borrow_value": "try_borrow_value",
             "borrow_value_mut": "try_borrow_value_mut", "take": "remove"}


def r2_conflicts_are_errors(ctx):
    from absint import Agg, Sym
    F = ctx.facts
    n = 0
    for op in TRY_FAMILY + list(PANICKING):
        fn = F.fn(R + op)
        for placement in c01.PLACEMENTS:
            for conflict in (False, True, "innermost"):
                if conflict == "innermost" and len(c01.HOLDERS[placement]) < 2:
                    continue
                prims, rets, ends, paths = c01.placement_eval(F, fn, placement, conflict=conflict, want_paths=True)
                n += 1
                inst = "%s/%s" % (placement, "only-the-visible-cell-borrowed" if conflict == "innermost" else "conflict" if conflict else "free")
                diverging = [p for p in paths if p.end in ("panic", "diverge")]
                if op in TRY_FAMILY:
                    ctx.check(not diverging and "limit" not in ends, "C02.R2", fn.key, inst + ":no-panic",
                              "%s can panic/diverge with T %s and the cell %s" % (op, c01.PLACEMENT_TEXT[placement], "of the innermost holder borrowed (the shadowed ones free)" if conflict == "innermost" else "borrowed" if conflict else "free"), loc=fn.loc())
                else:
                    # a panic may only come through StateError::panic
                    bad = []
                    for p in diverging:
                        viapanic = any(e.kind == "enter" and e.data == "mahf::state::registry::error::StateError::panic" for e in p.events) or \
                            any(e.kind == "call" and e.data[0] == "mahf::state::registry::error::StateError::panic" for e in p.events)
                        if not viapanic:
                            bad.append(p)
                    must_fail = conflict and c01.PLACEMENTS[placement] is not None and op != "take"
                    returned = [p for p in paths if p.end == "return"]
                    ctx.check(not bad and not (must_fail and returned), "C02.R2", fn.key, inst + ":panic-only-via-StateError::panic",
                              "%s %s" % (op, "returns normally although the cell is already borrowed" if (must_fail and returned) else "can panic other than through StateError::panic"), loc=fn.loc())
                if conflict and op in ("try_borrow", "try_borrow_mut") and c01.PLACEMENTS[placement] is not None:
                    want = "BorrowConflictImm" if op == "try_borrow" else "BorrowConflictMut"
                    kinds = set()
                    for p in paths:
                        if p.end == "return" and isinstance(p.ret, Agg) and p.ret.variant == "Err" and isinstance(p.ret.fields[0], Agg):
                            kinds.add(p.ret.fields[0].variant)
                        elif p.end == "return":
                            kinds.add("%s" % (p.ret.variant if isinstance(p.ret, Agg) else p.ret))
                    ctx.check(kinds == {want}, "C02.R2", fn.key, inst + ":refused-with-" + want,
                              "a request for an already borrowed T is answered with %s, not Err(%s)" % (sorted(kinds), want), loc=fn.loc())
                if conflict and op in ("try_get_value", "try_borrow_value", "try_borrow_value_mut") and c01.PLACEMENTS[placement] is not None:
                    oks = [p for p in paths if p.end == "return" and isinstance(p.ret, Agg) and p.ret.variant == "Ok"]
                    ctx.check(not oks, "C02.R2", fn.key, inst + ":refused", "%s grants access although the cell is already borrowed" % op, loc=fn.loc())
                if conflict and op == "set_value" and c01.PLACEMENTS[placement] is not None:
                    somes = [p for p in paths if p.end == "return" and isinstance(p.ret, Agg) and p.ret.variant == "Some"]
                    ctx.check(not somes, "C02.R2", fn.key, inst + ":refused", "set_value writes although the cell is already borrowed", loc=fn.loc())
    ctx.count("accessor_scenarios", n)
    # StateError::panic is called by nobody else in the registry
    callers = {f.key for (f, bb, t) in F.callers_of(lambda c: c.get("key") == "mahf::state::registry::error::StateError::panic")}
    callers |= {f.key for (f, bi, c) in F.fn_refs(lambda c: c.get("key") == "mahf::state::registry::error::StateError::panic")}
    # (which accessor panics is decided per accessor above; here: nothing of the non-panicking `try_` family reaches it, also not
    # through a closure or a named accessor of State built on it)
    offending = sorted(k for k in callers if any(seg.startswith("try_") for seg in k.replace("::{closure", "::").split("::")))
    ctx.check(not offending, "C02.R2", "StateError::panic", "callers", "StateError::panic is used by %s: the try_ family must report errors, never panic" % offending,
              detail=str(sorted(callers)))


def partitions(n):
    """all set partitions of range(n) as restricted growth strings"""
    def rec(i, cur, mx):
        if i == n:
            yield tuple(cur)
            return
        for v in range(mx + 2):
            cur.append(v)
            yield from rec(i + 1, cur, max(mx, v))
            cur.pop()
    yield from rec(0, [], -1)


def r3_multi_borrow(ctx):
    from absint import Interp, Sym, Agg, TOP, some, NONE, std_oracle, chain
    from collmodel import coll_oracle, install as cm_install
    F = ctx.facts
    # inventory of user-written unsafe in the state module
    user = [u for u in F.unsafe_blocks if u["source"] == "UserProvided"]
    in_state = [u for u in user if u["span"]["file"].startswith("src/state/")]
    owners = sorted({u["owner"] for u in in_state})
    is_impl = lambda o: o.endswith("as mahf::state::registry::multi::MultiStateTuple>::try_get_mut")
    # a private free function of the multi-borrow module that only the multi-borrow implementations (or such helpers) call is part
    # of the multi-borrow: it is evaluated inlined below, under the same obligations
    MULTI = "mahf::state::registry::multi::"
    helpers = {o for o in owners if not is_impl(o) and o.startswith(MULTI) and o[len(MULTI):][:1].islower()}
    changed = True
    while changed:
        changed = False
        for h in sorted(helpers):
            users = {f.key for f, _b, _t in F.callers_of(lambda c, h=h: c.get("key") == h)} | {f.key for f, _b, _c in F.fn_refs(lambda c, h=h: c.get("key") == h)}
            users = {F.fn(u).parent if F.fn(u).kind == "Closure" and F.fn(u).parent else u for u in users}
            if not users or not all(is_impl(u) or u in helpers for u in users):
                helpers.discard(h)
                changed = True
    outside = [o for o in owners if not is_impl(o) and o not in helpers]
    owners = [o for o in owners if is_impl(o)]
    ctx.check(not outside, "C02.R3", "unsafe-inventory", "state-module", "user-written unsafe in the state module outside the multi-borrow: %s" % outside, detail=str(owners + sorted(helpers)))
    ctx.floor("C02.R3", "multi-borrow implementations (arities)", len(owners), 7)
    for u in user:
        if u not in in_state:
            # unsafe elsewhere that mentions state cells is flagged; other unsafe is not this property's concern
            f = F.fn_opt(u["owner"])
            if f and any(CELL_MARK in l["ty"] or "mahf::state::registry::StateRegistry" in l["ty"] for l in f.body.locals):
                ctx.violation("C02.R3", u["owner"], "unsafe", "unsafe block touching registry types outside the reviewed multi-borrow", loc=f.loc())
    total = 0
    for owner in owners:
        tg = F.fn(owner)
        dk = owner.replace("::try_get_mut", "::distinct")
        dist = F.fn(dk)
        tparams = [p["name"] for p in tg.generics["params"] if p["kind"] == "type"]
        n = len(tparams)
        bad_d, bad_t = [], []
        for part in partitions(n):
            total += 1
            cls = {tparams[i]: part[i] for i in range(n)}
            all_distinct = len(set(part)) == n

            def oracle(interp, env, f, args, t, bb, path, cls=cls, missing=None):
                k = f.get("key", "")
                if k == "better_any::Tid::id":
                    g = (f.get("cgargs") or f.get("gargs") or ["?"])[0]
                    return Sym("id:%s" % cls.get(g, g))
                if k == R + "get_mut":
                    g = (f.get("cgargs") or f.get("gargs") or ["?"])[0]
                    return some(Sym("mut:" + g))
                return TOP

            inl = lambda k: k.endswith("MultiStateTuple>::distinct") or k.startswith("mahf::state::registry::error::") or (k.startswith(MULTI) and k[len(MULTI):][:1].islower())
            ps = cm_install(Interp(dist.body, chain(oracle, coll_oracle, std_oracle), [], facts=F, inline=inl)).run()
            rets = {p.ret for p in ps if p.end == "return"}
            if rets != {all_distinct} or any(p.end != "return" for p in ps):
                bad_d.append((part, rets))
            ps = cm_install(Interp(tg.body, chain(oracle, coll_oracle, std_oracle), [Sym("registry")], facts=F, inline=inl)).run()
            for p in ps:
                gm = [e.data[1][0] for e in p.events if e.kind == "call" and e.data[0] == R + "get_mut"]
                if not all_distinct:
                    good = p.end == "return" and isinstance(p.ret, Agg) and p.ret.variant == "Err" and not gm and \
                        isinstance(p.ret.fields[0], Agg) and p.ret.fields[0].variant == "MultipleBorrowConflict"
                else:
                    good = p.end == "return" and isinstance(p.ret, Agg) and p.ret.variant == "Ok" and gm == tparams and \
                        isinstance(p.ret.fields[0], Agg) and [getattr(x, "tag", None) for x in p.ret.fields[0].fields] == ["mut:" + tp for tp in tparams]
                if not good:
                    bad_t.append((part, p.end, repr(p.ret), gm))
        ctx.check(not bad_d, "C02.R3", dist.key, "distinct-iff-all-types-differ",
                  "distinct() is wrong for type-equality pattern %s (classes of %s): returns %s" % (bad_d[0][0] if bad_d else "", tparams, bad_d[0][1] if bad_d else ""),
                  detail="%d equality patterns" % len(list(partitions(n))), loc=dist.loc())
        ctx.check(not bad_t, "C02.R3", tg.key, "aliasing-refused",
                  "for type-equality pattern %s of %s: %s" % (bad_t[0][0] if bad_t else "", tparams,
                                                             "ends %s with %s after get_mut %s (a repeated type must be refused before any reference is created; distinct types yield one &mut per element in order)" % (bad_t[0][1:] if bad_t else ("", "", ""))),
                  loc=tg.loc())
        # a missing type is NotFound
        def oracle2(interp, env, f, args, t, bb, path, tparams=tparams):
            k = f.get("key", "")
            if k == "better_any::Tid::id":
                return Sym("id:%s" % (f.get("cgargs") or f.get("gargs") or ["?"])[0])
            if k == R + "get_mut":
                g = (f.get("cgargs") or f.get("gargs") or ["?"])[0]
                return NONE if g == tparams[-1] else some(Sym("mut:" + g))
            return TOP
        ps = cm_install(Interp(tg.body, chain(oracle2, coll_oracle, std_oracle), [Sym("registry")], facts=F, inline=inl)).run()
        good = all(p.end == "return" and isinstance(p.ret, Agg) and p.ret.variant == "Err" and isinstance(p.ret.fields[0], Agg) and p.ret.fields[0].variant == "NotFound" for p in ps) and ps
        ctx.check(good, "C02.R3", tg.key, "missing-is-not-found", "a tuple with an absent type does not yield Err(NotFound)", loc=tg.loc())
    ctx.count("type_equality_patterns_evaluated", total)


def r4_holding(ctx, rule="C02.R4"):
    """K6 on State::holding with the registry modelled as a chain of three scopes (which scope holds T, which holds the
    placeholder) - every placement of T x {closure succeeds, closure fails, closure inserts its own T on top}:
    the closure runs with T taken out of the state, afterwards T is back in exactly the scope it came from, the
    placeholder is gone, and the closure's result is returned; an absent T is an error with nothing changed.
    Type level: the placeholder key is a function-local type generic in T (nested holding() of other types cannot clash)."""
    import re
    from absint import Interp, Sym, Agg, Ref, TOP, some, NONE, ok, err, std_oracle, chain
    from collmodel import coll_oracle, install, load
    F = ctx.facts
    fn = F.fn("mahf::state::State::holding")
    body = fn.body
    # ---- the placeholder type
    keys = {(t["f"].get("gargs") or [None])[0] for bb, t in body.calls() if t["f"].get("key", "").startswith(R)}
    markers = sorted(k for k in keys if k and k != "T")
    if len(markers) > 1:
        ctx.check(False, rule, fn.key, "placeholder", "holding() uses more than one placeholder state type (%s)" % markers, kind="undecided-shape", loc=fn.loc())
        return
    marker_ty = markers[0] if markers else "<no placeholder>"
    generic_in_T = re.search(r"<(.*\b)?T\b.*>$", marker_ty) is not None
    if markers:
        ctx.check(generic_in_T and "::holding::" in marker_ty, rule, fn.key, "placeholder-per-type",
                  "the placeholder type %s is not a function-local type parameterised by T: nested holding() calls for different types would share one "
                  "placeholder key and put their states back into each other's scope" % marker_ty, detail=marker_ty, loc=fn.loc())
    # ---- semantics over scope placements: the typed store of statemodel (three scopes), every registry accessor answered
    import statemodel
    bad = []
    n = 0
    reg_i = F.field_index("mahf::state::State", "registry")
    nf = len(F.adt("mahf::state::State")["variants"][0]["fields"])
    for placement in (None, 0, 1, 2):
        for outcome in ("ok", "err", "shadow"):
            n += 1
            store = statemodel.Store(F, levels=3, auto=lambda ty: {})
            for lvl in range(3):
                store.cell("T", lvl, Sym("the-T") if lvl == placement else statemodel.ABSENT)

            def oracle(interp, env, f, args, t, bb, path, outcome=outcome, store=store):
                ms = interp.mstate
                if f.get("name") in ("call_once", "call") and args and isinstance(load(interp, env, args[0]), Sym) and load(interp, env, args[0]).tag == "user-closure":
                    have = ms.get("have", ())
                    ms["closure_saw"] = (tuple(l for (ty, l) in have if ty == "T"), tuple((ty, l) for (ty, l) in have if ty != "T"))
                    got = load(interp, env, args[1]) if len(args) > 1 else None
                    if isinstance(got, Agg) and got.kind == "tuple" and got.fields:
                        got = load(interp, env, got.fields[0])
                    ms["closure_got"] = repr(got)
                    if outcome == "shadow":
                        store.put(interp, env, "T", 0, Sym("the-closure's-own-T"))       # the closure inserts its own T into the top scope
                    return err(Sym("closure-error")) if outcome == "err" else ok(Agg("tuple", None, None, []))
                return TOP
            vals = [Sym("phantom")] * nf
            vals[reg_i] = Sym("reg:0")
            home = 11001
            inl = lambda k: k.startswith("mahf::state::State::") or k.startswith("<mahf::state::State") or statemodel.inline(k)
            it = install(Interp(body, chain(oracle, store, coll_oracle, std_oracle), [Ref(home, [], frame="root"), Sym("user-closure")], facts=F, inline=inl, max_visits=8))
            it.extra_env = {home: Agg("adt", "mahf::state::State", "State", vals)}
            it.init_state = {}
            store.install(it)
            where = ("nowhere" if placement is None else ["the top scope", "the parent scope", "the grandparent scope"][placement], {"ok": "succeeds", "err": "fails", "shadow": "succeeds after inserting a T of its own into the top scope"}[outcome])
            paths = it.run()
            if len(paths) != 1:
                bad.append(where + ("is not decided (%d paths: %s)" % (len(paths), sorted({p.end for p in paths})),))
                continue
            p0 = paths[0]
            ms = p0.mstate
            res = p0.ret.variant if isinstance(p0.ret, Agg) else p0.end
            t_in = store.holders(p0, "T")
            others = sorted((ty, l) for (ty, l) in ms.get("have", ()) if ty != "T")
            if placement is None:
                if res != "Err" or t_in or others or "closure_saw" in ms:
                    bad.append(where + ("returns %s with T in %s / placeholder in %s (an absent T must be an error that changes nothing)" % (res, t_in, others),))
                continue
            saw = ms.get("closure_saw")
            if saw is None:
                bad.append(where + ("never runs the closure",))
                continue
            if placement in saw[0]:
                bad.append(where + ("runs the closure while T is still in the state",))
            elif "the-T" not in ms.get("closure_got", ""):
                bad.append(where + ("hands the closure %s, not the T it took out" % ms.get("closure_got"),))
            want_t = {placement} | ({0} if outcome == "shadow" else set())
            if set(t_in) != want_t:
                bad.append(where + ("leaves T in scopes %s, expected %s (back where it came from)" % (t_in, sorted(want_t)),))
            elif store.value(p0, "T", placement) != Sym("the-T"):
                bad.append(where + ("leaves %s in the scope T came from, not the T that was taken out" % (store.value(p0, "T", placement),),))
            elif others:
                bad.append(where + ("leaves the placeholder behind in scope(s) %s" % ([l for (_ty, l) in others],),))
            elif res != ("Err" if outcome == "err" else "Ok"):
                bad.append(where + ("returns %s" % res,))
    ctx.check(not bad, rule, fn.key, "put-back-where-it-came-from", "T held in %s, closure %s: holding() %s" % (bad[0] if bad else ("", "", "")), detail="%d scenarios" % n, loc=fn.loc())


def run(ctx):
    ctx.guard("C02.R1", "cell API", lambda: r1_cell_api(ctx))
    ctx.guard("C02.R2", "conflicts are errors", lambda: r2_conflicts_are_errors(ctx))
    ctx.guard("C02.R3", "multi-borrow", lambda: r3_multi_borrow(ctx))
    ctx.guard("C02.R4", "holding", lambda: r4_holding(ctx))
