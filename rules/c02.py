"""C02 — dynamic borrows: many readers xor one writer per type; conflicts are errors."""
import itertools

from core import expr_str, strip, subexprs, callee_keys, AnchorMissing
from kinds import (FROM_RESIDUAL, all_places, is_call_to, must_pass, origin, result_disposition, try_split)
import c01

EXPLANATION = (
    "Decided statically: (R1) the per-entry cells are core::cell::RefCell (one per (scope, type) entry) and are only "
    "ever touched through RefCell's checked API from inside the registry module — no as_ptr/try_borrow_unguarded/leak "
    "anywhere in the crate; (R2) by finite-domain abstract interpretation of every accessor over {cell free, cell "
    "conflicting} x 8 scope placements: a conflicting cell makes try_borrow return Err(BorrowConflictImm) and "
    "try_borrow_mut Err(BorrowConflictMut) (never Ok, never a panic), the try_* family never panics in any scenario, "
    "and the panicking accessors diverge only through StateError::panic; (R3) the only user-written `unsafe` in the "
    "state module is the multi-borrow, and for every arity 2..8 and EVERY equality pattern of the tuple's types "
    "(all set partitions, 5294 cases) distinct() is true exactly when all types differ, try_get_mut performs no "
    "get_mut (hence no raw deref) and returns MultipleBorrowConflict unless all differ, and otherwise calls "
    "get_mut::<Ti> once per element in order, returning NotFound when one is missing; (R4) in State::holding every "
    "path from the take-out of T to any Ok or Err return re-inserts T; (R6) crate-wide dynamic-borrow typestate "
    "analysis (K4) over all component code. NOT decided: RefCell's own reader-count/writer-flag automaton (trusted), "
    "value visibility after release, interleavings of guards created by user code.")
ASSUMPTIONS = ["core::cell::RefCell implements the reader-count / writer-flag automaton as documented",
               "Marker<T> in State::holding is a function-local type that no other code can name, so its lookups cannot fail"]

REG = c01.REG
R = c01.R
CELL_MARK = "alloc::boxed::Box<dyn mahf::state::registry::custom::CustomState"


def r1_cell_api(ctx):
    F = ctx.facts
    a = F.adt(REG)
    mty = [f for f in a["variants"][0]["fields"] if f["name"] == "map"][0]["ty"]
    ctx.check("core::any::TypeId, core::cell::RefCell<" + CELL_MARK in mty, "C02.R1", REG, "one-cell-per-entry",
              "the scope map is not HashMap<TypeId, RefCell<Box<dyn CustomState>>> (one borrow flag per entry): %s" % mty, detail=mty)
    forbidden = ("as_ptr", "try_borrow_unguarded", "undo_leak", "leak")
    n = 0
    for (f, bb, t) in F.callers_of(lambda c: c.get("kind") == "def" and (c.get("self_adt") in ("core::cell::RefCell", "core::cell::Ref", "core::cell::RefMut", "core::cell::UnsafeCell", "core::cell::Cell"))):
        nm = t["f"].get("name")
        sty = t["f"].get("self_ty") or ""
        if nm in forbidden:
            ctx.violation("C02.R1", f.key, nm, "%s bypasses the dynamic borrow check" % t["f"]["key"], loc=f.loc(t.get("line")))
        if t["f"].get("self_adt") == "core::cell::RefCell" and CELL_MARK in sty:
            n += 1
            inside = f.key.startswith("mahf::state::registry::") or f.key.startswith("<mahf::state::registry::")
            ctx.check(inside and nm in ("new", "try_borrow", "try_borrow_mut", "borrow", "borrow_mut", "get_mut", "into_inner"), "C02.R1", f.key, nm,
                      "state cell operation %s used %s" % (nm, "outside the registry module" if not inside else "(not a checked RefCell operation)"), loc=f.loc(t.get("line")))
    ctx.floor("C02.R1", "operations on state cells", n, 6)
    # transmutes / raw pointer casts in the state module
    for f in F.all_fns:
        if not f.file.startswith("src/state/"):
            continue
        for bb in sorted(f.body.normal_blocks()):
            for st in f.body.stmts(bb):
                if st[0] == "=" and st[2][0] == "cast" and st[2][1] == "Transmute":
                    src, dst = st[2][4], st[2][3]
                    # Box<T> -> *const T unwrapping inserted by MIR building is not a user transmute
                    if src.startswith("core::ptr::non_null::NonNull<") and dst.startswith("*const "):
                        continue
                    ctx.violation("C02.R1", f.key, "transmute", "transmute %s -> %s in the state module" % (src, dst), loc=f.loc(st[3]))
        for bb, t in f.body.calls():
            if t["f"].get("key") in ("core::intrinsics::transmute", "core::mem::transmute", "core::mem::transmute_copy"):
                ctx.violation("C02.R1", f.key, "transmute", "mem::transmute in the state module", loc=f.loc(t.get("line")))


TRY_FAMILY = ["try_borrow", "try_borrow_mut", "try_get_value", "try_borrow_value", "try_borrow_value_mut", "set_value", "get_mut",
              "contains", "contains_at_top", "find", "find_mut", "remove", "insert"]
PANICKING = {"borrow": "try_borrow", "borrow_mut": "try_borrow_mut", "get_value": "try_get_value", "borrow_value": "try_borrow_value",
             "borrow_value_mut": "try_borrow_value_mut", "take": "remove"}


def r2_conflicts_are_errors(ctx):
    from absint import Agg, Sym
    F = ctx.facts
    n = 0
    for op in TRY_FAMILY + list(PANICKING):
        fn = F.fn(R + op)
        for placement in c01.PLACEMENTS:
            for conflict in (False, True):
                prims, rets, ends, paths = c01.placement_eval(F, fn, placement, conflict=conflict, want_paths=True)
                n += 1
                inst = "%s/%s" % (placement, "conflict" if conflict else "free")
                diverging = [p for p in paths if p.end in ("panic", "diverge")]
                if op in TRY_FAMILY:
                    ctx.check(not diverging and "limit" not in ends, "C02.R2", fn.key, inst + ":no-panic",
                              "%s can panic/diverge with T %s and the cell %s" % (op, c01.PLACEMENT_TEXT[placement], "borrowed" if conflict else "free"), loc=fn.loc())
                else:
                    # a panic may only come through StateError::panic
                    bad = []
                    for p in diverging:
                        viapanic = any(e.kind == "enter" and e.data == "mahf::state::registry::error::StateError::panic" for e in p.events) or \
                            any(e.kind == "call" and e.data[0] == "mahf::state::registry::error::StateError::panic" for e in p.events)
                        if not viapanic:
                            bad.append(p)
                    must_fail = conflict and c01.PLACEMENTS[placement] is not None and op != "take"
                    returned = [p for p in paths if p.end == "return"]
                    ctx.check(not bad and not (must_fail and returned), "C02.R2", fn.key, inst + ":panic-only-via-StateError::panic",
                              "%s %s" % (op, "returns normally although the cell is already borrowed" if (must_fail and returned) else "can panic other than through StateError::panic"), loc=fn.loc())
                if conflict and op in ("try_borrow", "try_borrow_mut") and c01.PLACEMENTS[placement] is not None:
                    want = "BorrowConflictImm" if op == "try_borrow" else "BorrowConflictMut"
                    kinds = set()
                    for p in paths:
                        if p.end == "return" and isinstance(p.ret, Agg) and p.ret.variant == "Err" and isinstance(p.ret.fields[0], Agg):
                            kinds.add(p.ret.fields[0].variant)
                        elif p.end == "return":
                            kinds.add("%s" % (p.ret.variant if isinstance(p.ret, Agg) else p.ret))
                    ctx.check(kinds == {want}, "C02.R2", fn.key, inst + ":refused-with-" + want,
                              "a request for an already borrowed T is answered with %s, not Err(%s)" % (sorted(kinds), want), loc=fn.loc())
                if conflict and op in ("try_get_value", "try_borrow_value", "try_borrow_value_mut") and c01.PLACEMENTS[placement] is not None:
                    oks = [p for p in paths if p.end == "return" and isinstance(p.ret, Agg) and p.ret.variant == "Ok"]
                    ctx.check(not oks, "C02.R2", fn.key, inst + ":refused", "%s grants access although the cell is already borrowed" % op, loc=fn.loc())
                if conflict and op == "set_value" and c01.PLACEMENTS[placement] is not None:
                    somes = [p for p in paths if p.end == "return" and isinstance(p.ret, Agg) and p.ret.variant == "Some"]
                    ctx.check(not somes, "C02.R2", fn.key, inst + ":refused", "set_value writes although the cell is already borrowed", loc=fn.loc())
    ctx.count("accessor_scenarios", n)
    # StateError::panic is called by nobody else in the registry
    callers = {f.key for (f, bb, t) in F.callers_of(lambda c: c.get("key") == "mahf::state::registry::error::StateError::panic")}
    callers |= {f.key for (f, bi, c) in F.fn_refs(lambda c: c.get("key") == "mahf::state::registry::error::StateError::panic")}
    allowed = {R + k for k in PANICKING} | {R + "get_multiple_mut"}
    ctx.check(callers <= allowed, "C02.R2", "StateError::panic", "callers", "StateError::panic is used by %s; only the explicitly panicking accessors may panic" % sorted(callers - allowed),
              detail=str(sorted(callers)))


def partitions(n):
    """all set partitions of range(n) as restricted growth strings"""
    def rec(i, cur, mx):
        if i == n:
            yield tuple(cur)
            return
        for v in range(mx + 2):
            cur.append(v)
            yield from rec(i + 1, cur, max(mx, v))
            cur.pop()
    yield from rec(0, [], -1)


def r3_multi_borrow(ctx):
    from absint import Interp, Sym, Agg, TOP, some, NONE, std_oracle, chain
    from collmodel import coll_oracle, install as cm_install
    F = ctx.facts
    # inventory of user-written unsafe in the state module
    user = [u for u in F.unsafe_blocks if u["source"] == "UserProvided"]
    in_state = [u for u in user if u["span"]["file"].startswith("src/state/")]
    owners = sorted({u["owner"] for u in in_state})
    ok_owner = all(o.endswith("as mahf::state::registry::multi::MultiStateTuple>::try_get_mut") for o in owners)
    ctx.check(ok_owner, "C02.R3", "unsafe-inventory", "state-module", "user-written unsafe in the state module outside the multi-borrow: %s" % owners, detail=str(owners))
    ctx.floor("C02.R3", "multi-borrow implementations (arities)", len(owners), 7)
    for u in user:
        if u not in in_state:
            # unsafe elsewhere that mentions state cells is flagged; other unsafe is not this property's concern
            f = F.fn_opt(u["owner"])
            if f and any(CELL_MARK in l["ty"] or "mahf::state::registry::StateRegistry" in l["ty"] for l in f.body.locals):
                ctx.violation("C02.R3", u["owner"], "unsafe", "unsafe block touching registry types outside the reviewed multi-borrow", loc=f.loc())
    total = 0
    for owner in owners:
        tg = F.fn(owner)
        dk = owner.replace("::try_get_mut", "::distinct")
        dist = F.fn(dk)
        tparams = [p["name"] for p in tg.generics["params"] if p["kind"] == "type"]
        n = len(tparams)
        bad_d, bad_t = [], []
        for part in partitions(n):
            total += 1
            cls = {tparams[i]: part[i] for i in range(n)}
            all_distinct = len(set(part)) == n

            def oracle(interp, env, f, args, t, bb, path, cls=cls, missing=None):
                k = f.get("key", "")
                if k == "better_any::Tid::id":
                    g = (f.get("gargs") or ["?"])[0]
                    return Sym("id:%s" % cls.get(g, g))
                if k == R + "get_mut":
                    g = (f.get("gargs") or ["?"])[0]
                    return some(Sym("mut:" + g))
                return TOP

            inl = lambda k: k.endswith("MultiStateTuple>::distinct") or k.startswith("mahf::state::registry::error::")
            ps = cm_install(Interp(dist.body, chain(oracle, coll_oracle, std_oracle), [], facts=F, inline=inl)).run()
            rets = {p.ret for p in ps if p.end == "return"}
            if rets != {all_distinct} or any(p.end != "return" for p in ps):
                bad_d.append((part, rets))
            ps = cm_install(Interp(tg.body, chain(oracle, coll_oracle, std_oracle), [Sym("registry")], facts=F, inline=inl)).run()
            for p in ps:
                gm = [e.data[1][0] for e in p.events if e.kind == "call" and e.data[0] == R + "get_mut"]
                if not all_distinct:
                    good = p.end == "return" and isinstance(p.ret, Agg) and p.ret.variant == "Err" and not gm and \
                        isinstance(p.ret.fields[0], Agg) and p.ret.fields[0].variant == "MultipleBorrowConflict"
                else:
                    good = p.end == "return" and isinstance(p.ret, Agg) and p.ret.variant == "Ok" and gm == tparams and \
                        isinstance(p.ret.fields[0], Agg) and [getattr(x, "tag", None) for x in p.ret.fields[0].fields] == ["mut:" + tp for tp in tparams]
                if not good:
                    bad_t.append((part, p.end, repr(p.ret), gm))
        ctx.check(not bad_d, "C02.R3", dist.key, "distinct-iff-all-types-differ",
                  "distinct() is wrong for type-equality pattern %s (classes of %s): returns %s" % (bad_d[0][0] if bad_d else "", tparams, bad_d[0][1] if bad_d else ""),
                  detail="%d equality patterns" % len(list(partitions(n))), loc=dist.loc())
        ctx.check(not bad_t, "C02.R3", tg.key, "aliasing-refused",
                  "for type-equality pattern %s of %s: %s" % (bad_t[0][0] if bad_t else "", tparams,
                                                             "ends %s with %s after get_mut %s (a repeated type must be refused before any reference is created; distinct types yield one &mut per element in order)" % (bad_t[0][1:] if bad_t else ("", "", ""))),
                  loc=tg.loc())
        # a missing type is NotFound
        def oracle2(interp, env, f, args, t, bb, path, tparams=tparams):
            k = f.get("key", "")
            if k == "better_any::Tid::id":
                return Sym("id:%s" % (f.get("gargs") or ["?"])[0])
            if k == R + "get_mut":
                g = (f.get("gargs") or ["?"])[0]
                return NONE if g == tparams[-1] else some(Sym("mut:" + g))
            return TOP
        ps = cm_install(Interp(tg.body, chain(oracle2, coll_oracle, std_oracle), [Sym("registry")], facts=F, inline=inl)).run()
        good = all(p.end == "return" and isinstance(p.ret, Agg) and p.ret.variant == "Err" and isinstance(p.ret.fields[0], Agg) and p.ret.fields[0].variant == "NotFound" for p in ps) and ps
        ctx.check(good, "C02.R3", tg.key, "missing-is-not-found", "a tuple with an absent type does not yield Err(NotFound)", loc=tg.loc())
    ctx.count("type_equality_patterns_evaluated", total)


def r4_holding(ctx):
    F = ctx.facts
    fn = F.fn("mahf::state::State::holding")
    body = fn.body
    removes = [(bb, t) for bb, t in body.calls() if t["f"].get("key") == R + "remove" and t["f"].get("gargs") == ["T"]]
    if not ctx.check(len(removes) == 1, "C02.R4", fn.key, "take-out", "holding::<T> does not take T out with exactly one remove::<T>()", kind="undecided-shape", loc=fn.loc()):
        return
    sp = try_split(body, removes[0][0])
    if not ctx.check(sp is not None, "C02.R4", fn.key, "take-out-checked", "the take-out's Result is not `?`-checked", kind="undecided-shape", loc=fn.loc()):
        return
    start = sp[0]

    def reinserts(b):
        t = body.term(b)
        return t["k"] == "call" and t["f"].get("key") == R + "insert" and t["f"].get("gargs") == ["T"]

    # the placeholder: the (function-local) type inserted before the take-out, into the scope find_mut::<T>() returned
    import re
    mks = [(bb, t) for bb, t in body.calls() if t["f"].get("key") == R + "insert" and t["f"].get("gargs") != ["T"] and body.dominates(bb, removes[0][0])]
    if not ctx.check(len(mks) == 1, "C02.R4", fn.key, "placeholder", "no single placeholder is left in T's scope before the take-out", kind="undecided-shape", loc=fn.loc()):
        return
    marker_ty = mks[0][1]["f"]["gargs"][0]
    generic_in_T = re.search(r"<(.*\b)?T\b.*>$", marker_ty) is not None
    ctx.check(generic_in_T and "::holding::" in marker_ty, "C02.R4", fn.key, "placeholder-per-type",
              "the placeholder type %s is not a function-local type parameterised by T: nested holding() calls for different types would share one "
              "placeholder key and put their states back into each other's scope" % marker_ty, detail=marker_ty, loc=fn.loc(mks[0][1].get("line")))

    def is_marker(t):
        return (t["f"].get("gargs") or [None])[0] == marker_ty

    # Err exits of lookups of the function-local placeholder are excluded (see ASSUMPTIONS)
    excluded = set()
    for bb, t in body.calls():
        if is_marker(t) and t["f"].get("key") in (R + "find_mut", R + "find"):
            s2 = try_split(body, bb)
            if s2:
                excluded.add(s2[1])
    path = must_pass(body, start, reinserts, excluded_blocks=excluded)
    cls = ""
    if path:
        cls = "Err" if any(is_call_to(body.term(b), FROM_RESIDUAL) for b in path) else "Ok"
    ctx.check(path is None, "C02.R4", fn.key, "put-back-on-every-return",
              "after T is taken out (bb%d) a path returns (%s exit) without insert::<T>(): blocks %s — if the closure fails, T is lost and the placeholder stays behind"
              % (removes[0][0], cls, path), loc=fn.loc())
    # put back into the scope it came from: the insert target is the scope holding the placeholder, and the placeholder
    # was inserted into the scope find_mut::<T>() returned
    ins = [(bb, t) for bb, t in body.calls() if reinserts(bb)]
    for bb, t in ins:
        e = body.expr_of_op(t["args"][0])
        fm = [x for x in subexprs(e) if x[0] == "call" and x[1] == R + "find_mut"]
        good = len(fm) == 1 and (fm[0][3]["f"].get("gargs") or [None])[0] == marker_ty
        ctx.check(good, "C02.R4", fn.key, "put-back-where-placeholder-is", "T is re-inserted into %s, not into the scope holding the placeholder" % expr_str(e)[:120], loc=fn.loc(t.get("line")))
    e = body.expr_of_op(mks[0][1]["args"][0])
    fm = [x for x in subexprs(e) if x[0] == "call" and x[1] == R + "find_mut"]
    good = len(fm) == 1 and fm[0][3]["f"].get("gargs") == ["T"]
    e2 = body.expr_of_op(removes[0][1]["args"][0])
    fm2 = [x for x in subexprs(e2) if x[0] == "call" and x[1] == R + "find_mut"]
    good = good and len(fm2) == 1 and fm2[0][3]["f"].get("gargs") == ["T"]
    ctx.check(good, "C02.R4", fn.key, "placeholder-in-source-scope", "the placeholder is not left in the scope T is removed from (find_mut::<T>()) before the take-out", loc=fn.loc())

    def rm_marker(b):
        t = body.term(b)
        return t["k"] == "call" and t["f"].get("key") == R + "remove" and is_marker(t)
    path = must_pass(body, start, rm_marker, excluded_blocks=excluded)
    ctx.check(path is None, "C02.R4", fn.key, "placeholder-removed-on-every-return", "a path returns with the placeholder left in the state: blocks %s" % path, loc=fn.loc())


def run(ctx):
    ctx.guard("C02.R1", "cell API", lambda: r1_cell_api(ctx))
    ctx.guard("C02.R2", "conflicts are errors", lambda: r2_conflicts_are_errors(ctx))
    ctx.guard("C02.R3", "multi-borrow", lambda: r3_multi_borrow(ctx))
    ctx.guard("C02.R4", "holding", lambda: r4_holding(ctx))
