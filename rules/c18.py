"""C18 — particle swarm keeps velocities clamped and best memories consistent."""
import itertools

from core import expr_str, strip, subexprs, AnchorMissing
from absint import Interp, Sym, Agg, Ref, HRef, TOP, some, NONE, ok, err, std_oracle, chain
from collmodel import coll_oracle, Vec, install, load, heap_get
from orderings import weak_orderings
from c10 import mk_oracle
import c07
import statemodel

EXPLANATION = (
    "K6 with exact float arithmetic on ParticleVelocitiesUpdate::execute for two particles in two dimensions, stored "
    "inertia weights {0.7, 1.5} (different from the component's own `weight` field), several v_max and random draws: "
    "every stored velocity equals clamp(w_stored*v + c1*r*(xp-x) + c2*r*(xg-x), -v_max, v_max) and every position "
    "moves by exactly that stored velocity; the objective values of moved particles are cleared; unequal collection "
    "sizes yield an error, never a panic, and nothing is modified. K6 over all weak orderings on the personal-best "
    "update (replace iff the particle is strictly better than its memory, position-wise) and the global-best update "
    "(empty -> best of the current population; otherwise replaced iff strictly better). Linear::map is "
    "(end-start)*value+start, applied once through its input and output lens; in real_pso (template tree, K12) the "
    "mapping reads Progress<ValueOf<Iterations>> and writes InertiaWeight<ParticleVelocitiesUpdate>, the state the "
    "velocity update reads, and runs once per pass; init stores the configured start weight. (R4) PersonalBestParticlesInit / ParticleVelocitiesInit leave exactly one memory / one velocity (one fresh draw from [-v_max, v_max] per dimension) per particle whatever their collections held before (re-initialisation). (INIT) init() evaluated with every field of self a distinct symbol inserts exactly the state types of a reviewed table, under the component's own instantiation, each built from exactly the documented field or empty / zero. NOT decided: numeric "
    "values of the interpolation over a whole run.")
EXPLANATION += " " + '(R1/R3/R4 revised) inertia weight, velocities, personal and global bests are cells of the typed store: the verdicts are read off what the state holds afterwards.'
ASSUMPTIONS = ["f64::clamp and IEEE arithmetic as modelled by the host"]

PSO = "mahf::components::swarm::pso::"
COMP = "mahf::components::Component"
SO = "mahf::problems::objective::single::SingleObjective"


def ind_vec(tag, vid, obj=1.0):
    return Agg("adt", c07.IND, "Individual", [Vec(vid), some(Agg("adt", SO, "SingleObjective", [obj]))])


def r1_velocity_update(ctx):
    F = ctx.facts
    adt = PSO + "ParticleVelocitiesUpdate"
    fn = F.method(adt, "execute", COMP)
    fi = {n: F.field_index(adt, n) for n in ("weight", "c_1", "c_2", "v_max")}
    bad = []
    n = 0
    xs0 = [[0.0, 4.0], [-3.0, 1.0]]
    vs0 = [[1.0, -2.0], [0.5, 8.0]]
    xps = [[1.0, 3.0], [-1.0, 1.0]]
    xg = [2.0, 2.0]
    for w, vmax, r, sizes in itertools.product((0.7, 1.5, 0.0), (1.0, 100.0, 0.0), (0.5, 0.0), ("ok", "vs-short", "xps-short")):
        c1, c2 = 2.0, 1.5
        me = Sym("self", {fi["weight"]: 0.9, fi["c_1"]: c1, fi["c_2"]: c2, fi["v_max"]: vmax})

        # the swarm's state types are cells of the typed store; the verdict is read off the heap / cells afterwards
        store = statemodel.Store(F, levels=1, auto=statemodel.by_prefix(F, {
            PSO + "InertiaWeight": w, PSO + "ParticleVelocities": Vec("vs"), PSO + "BestParticles": Vec("xps"), PSO + "BestParticle": some(ind_vec("g", "xg"))}))
        table = {"mahf::state::State::populations_mut": Sym("populations"), "mahf::state::State::populations": Sym("populations"), "mahf::state::State::random_mut": Sym("rng"),
                 "mahf::state::common::Populations::current_mut": Vec("cur", borrowed=True), "rand::rng::Rng::gen": r}
        heap = {"x0": tuple(xs0[0]), "x1": tuple(xs0[1]), "v0": tuple(vs0[0]), "v1": tuple(vs0[1]), "xp0": tuple(xps[0]), "xp1": tuple(xps[1]), "xg": tuple(xg),
                "cur": (ind_vec("p0", "x0"), ind_vec("p1", "x1")), "vs": (Vec("v0"), Vec("v1")), "xps": (ind_vec("b0", "xp0"), ind_vec("b1", "xp1"))}
        if sizes == "vs-short":
            heap["vs"] = (Vec("v0"),)
        if sizes == "xps-short":
            heap["xps"] = (ind_vec("b0", "xp0"),)
        it = install(Interp(fn.body, chain(mk_oracle(table), statemodel.well_known(Sym("populations"), Sym("rng")), store, coll_oracle, std_oracle), [me, Sym("problem"), Sym("state")], facts=F,
                            inline=lambda k: c07.INLINE(k) or statemodel.inline(k), max_visits=12, max_paths=200))
        it.init_state = {"heap": heap, "next_vec": 0}
        store.install(it)
        n += 1
        for p in it.run():
            ctxs = (w, vmax, r, sizes)
            h = p.mstate["heap"]
            if sizes != "ok":
                unchanged = all(list(h[k]) == list(heap[k]) for k in ("x0", "x1", "v0", "v1"))
                if p.end != "return" or not (isinstance(p.ret, Agg) and p.ret.variant == "Err") or not unchanged:
                    bad.append(ctxs + ("with collections of different size: %s %s (positions/velocities untouched: %s); an error is required" % (p.end, p.ret if p.end == "return" else "", unchanged),))
                continue
            if p.end != "return" or not (isinstance(p.ret, Agg) and p.ret.variant == "Ok"):
                bad.append(ctxs + ("does not complete (%s %s)" % (p.end, p.ret),))
                continue
            for k in range(2):
                for i in range(2):
                    x, v, xp = xs0[k][i], vs0[k][i], xps[k][i]
                    raw = w * v + c1 * r * (xp - x) + c2 * r * (xg[i] - x)
                    vnew = max(-vmax, min(vmax, raw))
                    gv, gx = h["v%d" % k][i], h["x%d" % k][i]
                    if not isinstance(gv, float) or not isinstance(gx, float):
                        bad.append(ctxs + ("particle %d coordinate %d: velocity %s, position %s are not decided" % (k, i, gv, gx),))
                    elif abs(gv - vnew) > 1e-9:
                        bad.append(ctxs + ("particle %d coordinate %d: stored velocity %s, expected clamp(%s, +-%s) = %s (the STORED inertia weight %s scales the old velocity)" % (k, i, gv, raw, vmax, vnew, w),))
                    elif abs(gx - (x + gv)) > 1e-9:
                        bad.append(ctxs + ("particle %d coordinate %d: position %s -> %s, but the stored velocity is %s" % (k, i, x, gx, gv),))
            stale = [c07.otag(x) for x in h["cur"] if isinstance(x.fields[1], Agg) and x.fields[1].variant == "Some"]
            if stale:
                bad.append(ctxs + ("moved particles keep their objective value",))
    ctx.check(not bad, "C18.R1", fn.key, "clamped-velocity-then-move", "stored weight %s, v_max %s, draw %s, sizes %s: update %s" % (bad[0] if bad else ("", "", "", "", "")), detail="%d scenarios" % n, loc=fn.loc())
    ctx.count("velocity_scenarios", n)
    # the weight is read from the state, not from the field, in execute
    reads = [1 for b in fn.body.normal_blocks() for st in fn.body.stmts(b) if st[0] == "=" and any(isinstance(e, list) and e[0] == "f" and e[1] == fi["weight"] and len(e) > 3 and e[3] == adt for e in _places(st))]
    ctx.check(not reads, "C18.R2", fn.key, "weight-from-state", "execute reads self.weight (the adaptive weight in the state would be ignored)", loc=fn.loc())


def _places(st):
    out = []
    rv = st[2]
    def op(o):
        if o[0] in ("copy", "move"):
            out.extend(o[1][1])
    k = rv[0]
    if k == "use":
        op(rv[1])
    elif k in ("ref", "rawptr", "discr"):
        out.extend(rv[2][1] if k != "discr" else rv[1][1])
    elif k == "bin":
        op(rv[2]); op(rv[3])
    elif k in ("un", "cast"):
        op(rv[2])
    elif k == "agg":
        for o in rv[2]:
            op(o)
    return out


def r3_best_memories(ctx):
    F = ctx.facts
    fn = F.method(PSO + "PersonalBestParticlesUpdate", "execute", COMP)
    bad = []
    n = 0
    for size in range(0, 3):
        for order in (weak_orderings(2 * size) if size else [()]):
            store = statemodel.Store(F, levels=1, auto=statemodel.by_prefix(F, {PSO + "BestParticles": Vec("bests")}))
            table = {"mahf::state::State::populations": Sym("populations"), "mahf::state::common::Populations::current": Vec("cur", borrowed=True)}
            it = install(Interp(fn.body, chain(mk_oracle(table), statemodel.well_known(Sym("populations"), Sym("rng")), store, coll_oracle, std_oracle), [Sym("self"), Sym("problem"), Sym("state")], facts=F,
                                inline=lambda k: c07.INLINE(k) or statemodel.inline(k), max_visits=12))
            it.init_state = {"rank": {"o:%d" % i: r for i, r in enumerate(order)}, "next_vec": 0,
                             "heap": {"bests": tuple(c07.ind(i) for i in range(size)), "cur": tuple(c07.ind(size + i) for i in range(size))}}
            store.install(it)
            n += 1
            for p in it.run():
                if p.end != "return":
                    bad.append((list(order), "does not return (%s)" % p.end))
                    continue
                bv_ = statemodel.payload_of(store, p, PSO + "BestParticles", Vec("bests"))
                got = [c07.otag(x) for x in p.mstate["heap"].get(getattr(bv_, "vid", None), ())]
                want = ["o:%d" % (size + i) if order[size + i] < order[i] else "o:%d" % i for i in range(size)]
                if got != want:
                    bad.append((list(order), "memories become %s, expected %s (replace iff the particle is strictly better than its own memory)" % (got, want)))
    ctx.check(not bad, "C18.R3", fn.key, "personal-best-strictly-better", "objective ranks (memories then particles) %s: %s" % (bad[0] if bad else ("", "")), detail="%d scenarios" % n, loc=fn.loc())
    fn = F.method(PSO + "GlobalBestParticleUpdate", "execute", COMP)
    bad = []
    home = 10000
    for has_best in (False, True):
        for size in range(0, 3):
            k = size + (1 if has_best else 0)
            for order in (weak_orderings(k) if k else [()]):
                # the framework-wide best-so-far may stem from a phase before the swarm existed: it is not a swarm member
                foreign = Agg("adt", c07.IND, "Individual", [Sym("s:foreign"), some(Sym("o:foreign"))])
                init_best = some(c07.ind(size)) if has_best else NONE
                store = statemodel.Store(F, levels=1, auto=statemodel.by_prefix(F, {PSO + "BestParticle": init_best, "mahf::state::common::BestIndividual": some(foreign)}))
                table = {"mahf::state::State::populations": Sym("populations"), "mahf::state::common::Populations::current": Vec("cur", borrowed=True)}
                it = install(Interp(fn.body, chain(mk_oracle(table), statemodel.well_known(Sym("populations"), Sym("rng")), store, coll_oracle, std_oracle), [Sym("self"), Sym("problem"), Sym("state")], facts=F,
                                    inline=lambda k: c07.INLINE(k) or statemodel.inline(k), max_visits=12))
                rk = {"o:%d" % i: r for i, r in enumerate(order)}
                rk["o:foreign"] = -1
                it.init_state = {"rank": rk, "next_vec": 0, "heap": {"cur": tuple(c07.ind(i) for i in range(size))}}
                store.install(it)
                for p in it.run():
                    if p.end != "return":
                        bad.append((has_best, list(order), "does not return (%s)" % p.end))
                        continue
                    after = statemodel.payload_of(store, p, PSO + "BestParticle", init_best)
                    tag = c07.otag(after.fields[0]) if isinstance(after, Agg) and after.variant == "Some" else None
                    if size == 0:
                        want = {("o:%d" % size) if has_best else None}
                    else:
                        m = min(order[:size])
                        cands = {"o:%d" % i for i in range(size) if order[i] == m}
                        if not has_best:
                            want = cands
                        else:
                            want = cands if m < order[size] else {"o:%d" % size}
                    if tag not in want:
                        bad.append((has_best, list(order), "global best becomes %s, expected one of %s" % (tag, sorted(map(str, want)))))
    ctx.check(not bad, "C18.R3", fn.key, "global-best-strictly-better", "existing global best: %s, objective ranks %s: %s" % (bad[0] if bad else ("", "", "")), loc=fn.loc())


def r5_linear(ctx):
    F = ctx.facts
    adt = "mahf::components::mapping::common::Linear"
    fn = F.method(adt, "execute", COMP)
    mapfn = F.fn("<%s as mahf::components::mapping::Mapping>::map" % adt)
    idx = {n: F.field_index(adt, n) for n in ("start", "end", "input_lens", "output_lens")}
    bad = []
    for start, end, v in ((0.9, 0.4, 0.0), (0.9, 0.4, 0.25), (0.9, 0.4, 1.0), (0.2, 1.2, 0.5)):
        me = Sym("self", {idx["start"]: start, idx["end"]: end, idx["input_lens"]: Sym("in-lens"), idx["output_lens"]: Sym("out-lens")})
        log = []

        def get(interp, env, f, args):
            log.append(("get", getattr(load(interp, env, args[0]), "tag", "?")))
            return ok(v)

        def assign(interp, env, f, args):
            log.append(("assign", getattr(load(interp, env, args[0]), "tag", "?"), load(interp, env, args[1])))
            return ok(Agg("tuple", None, None, []))

        def mapcall(interp, env, f, args):
            outs = interp.call_body(mapfn, args)
            return outs[0][0] if len(outs) == 1 and outs[0][2] == "return" else TOP
        table = {"mahf::lens::Lens::get": get, "mahf::lens::LensAssign::assign": assign, "mahf::components::mapping::Mapping::map": mapcall, "mahf::state::State::random_mut": Sym("rng")}
        it = Interp(fn.body, chain(mk_oracle(table), std_oracle), [me, Sym("problem"), Sym("state")], facts=F, inline=lambda k: k == "mahf::components::mapping::mapping")
        for p in it.run():
            if p.end != "return" or not (isinstance(p.ret, Agg) and p.ret.variant == "Ok"):
                bad.append((start, end, v, "%s %s" % (p.end, p.ret)))
        want_v = (end - start) * v + start
        okk = len(log) == 2 and log[0] == ("get", "in-lens") and log[1][:2] == ("assign", "out-lens") and isinstance(log[1][2], float) and abs(log[1][2] - want_v) < 1e-12
        if not okk:
            bad.append((start, end, v, "performs %s, expected get(in-lens) then assign(out-lens, %s)" % (log, want_v)))
    ctx.check(not bad, "C18.R5", fn.key, "linear-interpolation", "start %s, end %s, progress %s: %s" % (bad[0] if bad else ("", "", "", "")), loc=fn.loc())
    # wiring in real_pso
    import c16
    sums, fns, res, entered = c16.analyse_templates(ctx)
    found = False
    for (tf, tree, full, w, final) in res:
        if tree is None or tf.key != "mahf::heuristics::pso::real_pso":
            continue
        leaves = c16.all_leaves(tree, [])
        lin = [l for l in leaves if l.ty == adt]
        upd = [l for l in leaves if l.ty == PSO + "ParticleVelocitiesUpdate"]
        found = True
        good = len(lin) == 1 and len(upd) == 1
        why = "%d Linear mappings, %d velocity updates" % (len(lin), len(upd))
        if good:
            ga = lin[0].leaf.gargs or []
            why = str(ga)
            good = any("mahf::state::common::Progress<mahf::lens::common::ValueOf<mahf::state::common::Iterations>>" in g for g in ga) and \
                any((PSO + "InertiaWeight<" + PSO + "ParticleVelocitiesUpdate") in g for g in ga)
        ctx.check(good, "C18.R5", tf.key, "progress-to-inertia-weight", "the inertia-weight schedule is not wired from Progress<ValueOf<Iterations>> to InertiaWeight<ParticleVelocitiesUpdate>: %s" % why, detail=why[:300], loc=tf.loc())
    ctx.check(found, "C18.R5", "mahf::heuristics::pso::real_pso", "anchor", "real_pso template not analysed", kind="anchor-missing")


def run(ctx):
    # the loop progress the inertia-weight mapping reads is written by LessThanN::evaluate, also when it is an operand of And / Or
    ctx.borrow("C18.R6", "progress is recorded at every evaluation of the loop condition", "c10", "r1_less_than_n", "C10.R1")
    ctx.borrow("C18.R7", "And / Or evaluate every operand (the progress-recording one included)", "c10", "r6_logical", "C10.R6")
    ctx.guard("C18.REQ", "requirements are checked", lambda: __import__("initspec").check_requires(ctx, "C18"))
    ctx.guard("C18.INIT", "init installs the configured state", lambda: __import__("initspec").check_for(ctx, "C18"))
    ctx.guard("C18.K17", "constructor fidelity", lambda: __import__("ctor").check_for(ctx, "C18", 27))
    ctx.guard("C18.R1", "velocity update", lambda: r1_velocity_update(ctx))
    ctx.guard("C18.R3", "best memories", lambda: r3_best_memories(ctx))
    ctx.guard("C18.R4", "swarm initialisers", lambda: r4_initialisers(ctx))
    ctx.guard("C18.R5", "inertia weight schedule", lambda: r5_linear(ctx))


def r4_initialisers(ctx):
    """K6: the two swarm initialisers establish `one entry per particle` from ANY earlier content of their collections
    (a swarm may be initialised more than once on one state: restarts, two-phase runs): after PersonalBestParticlesInit
    the memories are exactly the current particles; after ParticleVelocitiesInit there is one velocity per particle, each
    with one component per dimension, every component a fresh draw from [-v_max, v_max]."""
    F = ctx.facts
    fn = F.method(PSO + "PersonalBestParticlesInit", "execute", COMP)
    bad = []
    n = 0
    home = 10000
    for size in range(0, 3):
        for stale in range(0, 3):
            store = statemodel.Store(F, levels=1, auto=statemodel.by_prefix(F, {PSO + "BestParticles": Vec("bests")}))
            table = {"mahf::state::State::populations": Sym("populations"), "mahf::state::common::Populations::current": Vec("cur", borrowed=True)}
            it = install(Interp(fn.body, chain(mk_oracle(table), statemodel.well_known(Sym("populations"), Sym("rng")), store, coll_oracle, std_oracle), [Sym("self"), Sym("problem"), Sym("state")], facts=F,
                                inline=lambda k: c07.INLINE(k) or statemodel.inline(k), max_visits=12))
            it.init_state = {"next_vec": 0, "heap": {"bests": tuple(c07.ind("old%d" % i) for i in range(stale)), "cur": tuple(c07.ind(i) for i in range(size))}}
            store.install(it)
            n += 1
            for p in it.run():
                if p.end != "return" or not (isinstance(p.ret, Agg) and p.ret.variant == "Ok"):
                    bad.append((size, stale, "does not complete (%s)" % p.end))
                    continue
                v = statemodel.payload_of(store, p, PSO + "BestParticles", Vec("bests"))
                got = [c07.otag(x) for x in p.mstate["heap"].get(v.vid, ())] if isinstance(v, Vec) else None
                want = ["o:%d" % i for i in range(size)]
                if got != want:
                    bad.append((size, stale, "leaves the memories %s, expected one per particle: %s" % (got, want)))
    ctx.check(not bad, "C18.R4", fn.key, "one-memory-per-particle", "%s particles, %s memories left by an earlier initialisation: PersonalBestParticlesInit %s" % (bad[0] if bad else ("", "", "")), detail="%d scenarios" % n, loc=fn.loc())
    adt = PSO + "ParticleVelocitiesInit"
    fn = F.method(adt, "execute", COMP)
    vi = F.field_index(adt, "v_max")
    bad = []
    for size in range(0, 3):
        for dim in range(0, 3):
            for stale in (0, 2):
                vmax = 2.5
                store = statemodel.Store(F, levels=1, auto=statemodel.by_prefix(F, {PSO + "ParticleVelocities": Vec("vs")}))

                def draw(interp, env, f, args):
                    r = args[1] if len(args) > 1 else None
                    k = interp.mstate.get("ndraw", 0)
                    interp.mstate["ndraw"] = k + 1
                    rng = (r.name, tuple(r.fields[:2])) if isinstance(r, Agg) and r.name in ("core::ops::range::RangeInclusive", "core::ops::range::Range") else None
                    interp.mstate["ranges"] = interp.mstate.get("ranges", ()) + (rng,)
                    return Sym("draw:%d" % k)
                table = {"mahf::state::State::populations": Sym("populations"), "mahf::state::common::Populations::current": Vec("cur", borrowed=True),
                         "mahf::state::State::random_mut": Sym("rng"), "rand::rng::Rng::gen_range": draw, "mahf::problems::VectorProblem::dimension": dim}
                it = install(Interp(fn.body, chain(mk_oracle(table), statemodel.well_known(Sym("populations"), Sym("rng")), store, coll_oracle, std_oracle), [Sym("self", {vi: vmax}), Sym("problem"), Sym("state")], facts=F,
                                    inline=lambda k: c07.INLINE(k) or statemodel.inline(k), max_visits=12))
                it.init_state = {"next_vec": 0, "heap": {"vs": tuple(Vec("ov%d" % i) for i in range(stale)), "ov0": (9.0,) * dim, "ov1": (9.0,) * dim, "cur": tuple(c07.ind(i) for i in range(size))}}
                store.install(it)
                n += 1
                for p in it.run():
                    if p.end != "return" or not (isinstance(p.ret, Agg) and p.ret.variant == "Ok"):
                        bad.append((size, dim, stale, "does not complete (%s)" % p.end))
                        continue
                    v = statemodel.payload_of(store, p, PSO + "ParticleVelocities", Vec("vs"))
                    h = p.mstate["heap"]
                    rows = [list(h.get(r.vid, ())) if isinstance(r, Vec) else None for r in h.get(v.vid, ())] if isinstance(v, Vec) else None
                    shape_ok = rows is not None and len(rows) == size and all(r is not None and len(r) == dim for r in rows)
                    if not shape_ok:
                        bad.append((size, dim, stale, "leaves velocities %s, expected %d vectors of %d components" % (rows, size, dim)))
                        continue
                    comps = [x for r in rows for x in r]
                    tags = [x.tag if isinstance(x, Sym) else None for x in comps]
                    if any(t is None or not t.startswith("draw:") for t in tags) or len(set(tags)) != len(tags):
                        bad.append((size, dim, stale, "velocity components %s are not one fresh draw each" % comps))
                        continue
                    rngs = set(p.mstate.get("ranges", ()))
                    if rngs - {("core::ops::range::RangeInclusive", (-vmax, vmax)), ("core::ops::range::Range", (-vmax, vmax))}:
                        bad.append((size, dim, stale, "draws from %s, expected [-v_max, v_max] = [%s, %s]" % (sorted(map(str, rngs)), -vmax, vmax)))
    ctx.check(not bad, "C18.R4", fn.key, "one-velocity-per-particle-within-vmax", "%s particles, dimension %s, %s velocities left by an earlier initialisation: ParticleVelocitiesInit %s" % (bad[0] if bad else ("", "", "", "")), detail="%d scenarios" % n, loc=fn.loc())
    ctx.count("initialiser_scenarios", n)
