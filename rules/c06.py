"""C06 — evaluation steps evaluate everyone once and the evaluation count is exact."""
from core import expr_str, strip, subexprs, callee_keys, AnchorMissing
from kinds import (closure_capture, enclosing_loop, ident, must_pass, origin, result_disposition, try_split, upvar_field)
from c03 import err_blocks, find_increment, ok_dominates, on_every_ok_path, propagated

EXPLANATION = (
    "Decided statically on the MIR of the evaluation step and the evaluators: (R1, K6 with the real population stack, "
    "`holding` an oracle that runs the component's closure on the held evaluator, Evaluate::evaluate an oracle recording "
    "what it is given; stacks of 0..2 populations, top population of 0..3 individuals, evaluator present / absent) "
    "PopulationEvaluator::execute hands the WHOLE top population - same individuals, same order - to the held "
    "Evaluator<P, I> of its own identifier exactly once, advances Evaluations by exactly its length exactly when that "
    "succeeded, leaves the stack as it was, is a no-op on an empty stack and an Err when the evaluator is absent; "
    "(R2) K6 on every Evaluate implementation over slices of 0..4 individuals (evaluated / "
    "unevaluated mixed, distinct opaque solutions) with the objective function an oracle recording its calls: afterwards "
    "the same individuals in the same order carry f(own solution) and the objective was called exactly once per "
    "individual (rayon's par_iter_mut/for_each modelled as the sequential visit; chunking / skipping / filtering "
    "adapters are modelled exactly by the collection model); (R3) every call site of "
    "Evaluate::evaluate in the crate is followed on its Ok continuation by an increment of Evaluations equal to the "
    "length of the slice it evaluated (len() of the same vector, or the constant 1 for a one-element slice); "
    "(R4, K6 with instantiated type parameters) require() is Ok iff Populations<P> and Evaluator<P, I> of the "
    "component's own I are present; optimize() registers Evaluator<P, Global>; the builder's evaluate() / "
    "evaluate_with::<I>() append exactly one PopulationEvaluator<Global> / <I>; init inserts Evaluations(0); (R5) any "
    "Scope a template builds around an evaluating body merges the inner Evaluations counter back. NOT decided: the "
    "numeric budget overshoot bound; thread-safety of user objective functions.")
EXPLANATION += " " + "(R1 revised) the counter is a cell of the typed store; (R2 also) slices holding EQUAL solutions next to each other and apart: every individual is evaluated on its own; (R7, K6) the firefly update on the real stack with a ranking in which a moved firefly becomes the best: every move is followed by exactly one evaluation of exactly the moved firefly by the held evaluator of the component's own identifier, the counter advances by exactly the number of evaluations made, the population is back on top of an untouched stack; (R3 revised) who may invoke an evaluator: the evaluation step (R1) and the firefly update (R7) - any OTHER call site must be followed by an equal advance of the counter (CFG pairing); (INIT) the counter starts at zero in the current scope, also on a used state and inside a scope whose surroundings count too."
ASSUMPTIONS = ["rayon's par_iter_mut().for_each visits every element exactly once"]

EVAL = "mahf::problems::evaluate::Evaluate::evaluate"
EVALS = "mahf::state::common::Evaluations"
PE = "mahf::components::evaluation::PopulationEvaluator"
COMPONENT = "mahf::components::Component"
# element-preserving iteration / access steps
WHOLE_OK = {"deref", "deref_mut", "as_mut", "as_mut_slice", "as_slice", "borrow_mut", "borrow"}
ITER_OK = {"into_iter", "iter_mut", "iter", "par_iter_mut", "into_par_iter", "par_iter", "for_each", "next", "deref", "deref_mut", "by_ref", "enumerate"}


def eval_sites(F):
    """[(fn, bb, term, slice_expr_in_root, root_fn)] all calls of Evaluate::evaluate in the crate"""
    out = []
    for (f, bb, t) in F.callers_of(lambda c: c.get("key") == EVAL):
        sl = f.body.expr_of_op(t["args"][3])
        root = f
        if f.kind == "Closure":
            uv = upvar_field(sl)
            cap = closure_capture(F, f, uv[0]) if uv else None
            if cap:
                root, cexpr = cap
                sl = ("captured", cexpr, sl)
        out.append((f, bb, t, sl, root))
    return out


def r1_population_evaluator(ctx):
    """K6 on PopulationEvaluator::execute with the real population stack (collection model), the `holding` of the evaluator an
    oracle that runs the component's closure on the held evaluator, Evaluate::evaluate an oracle that records what it is
    given: for stacks of 0..2 populations with a top population of 0..3 individuals, and the evaluator present / absent:
    the whole top population - same individuals, same order - is handed to the HELD evaluator of the component's own
    identifier exactly once; the counter advances by exactly its length, exactly when the evaluation succeeded; afterwards
    the stack is what it was (the evaluated population on top again); an empty stack is a no-op; a failed holding is an Err."""
    from absint import Interp, Sym, Agg, Ref, TOP, ok, err, std_oracle, chain
    from collmodel import coll_oracle, Vec, install as _inst, load as _load, heap_get
    from c04 import StackModel
    from c10 import mk_oracle
    import c07
    F = ctx.facts
    fn = F.method(PE, "execute", COMPONENT)
    POP = "mahf::state::common::Populations"
    sf = F.field_index(POP, "stack")
    ev_home, cnt_home = 10000, 10001
    bad = []
    n = 0
    for below in (0, 1):
        for size in (None, 0, 1, 3):
            for have_eval in (True, False):
                calls = []

                def holding(interp, env, f, args):
                    ga = [g for g in (f.get("cgargs") or f.get("gargs") or []) if not g.startswith("closure{") and g != "P"]
                    ty = ga[0] if len(ga) == 1 else tuple(ga)
                    interp.mstate["held"] = interp.mstate.get("held", ()) + (ty,)
                    if not have_eval:
                        return err(Sym("StateError::NotFound"))
                    outs_ = interp.call_value(args[1], [Ref(ev_home, [], frame="root"), args[0]])
                    if outs_ and len(outs_) == 1 and outs_[0][2] == "return":
                        interp.mstate.clear()
                        interp.mstate.update(outs_[0][3])
                        return outs_[0][0]
                    return TOP

                def evaluate(interp, env, f, args):
                    who = _load(interp, env, args[0])
                    pop = _load(interp, env, args[3]) if len(args) > 3 else TOP
                    items = tuple(heap_get(interp, pop.vid)) if isinstance(pop, Vec) else None
                    if isinstance(pop, Vec) and pop.lo is not None:
                        items = items[pop.lo:pop.hi]
                    interp.mstate["evaluated"] = interp.mstate.get("evaluated", ()) + ((who.tag if isinstance(who, Sym) else repr(who), tuple(c07.otag(x) for x in items) if items is not None else None,
                                                                                      tuple(getattr(x, "vid", None) for x in interp.mstate.get("stack", ()))),)
                    return Agg("tuple", None, None, [])

                # the evaluation counter is a cell of the typed store: whichever accessor the code uses, the verdict is read off
                # the value the state holds afterwards
                import statemodel
                store = statemodel.Store(F, levels=1, auto=lambda ty: {0: Agg("adt", EVALS, "Evaluations", [7])} if ty == EVALS else None)
                popsym = Sym("populations", {sf: Sym("stack")})
                table = {"mahf::state::State::populations_mut": popsym, "mahf::state::State::populations": popsym, "mahf::state::State::holding": holding,
                         EVAL: evaluate, "mahf::state::common::Evaluator::as_inner_mut": Sym("held-evaluator:inner"), "mahf::state::common::Evaluator::as_inner": Sym("held-evaluator:inner")}

                def pops(interp, env, f, args, popsym=popsym):
                    if (f.get("key") or "").startswith("mahf::state::registry::StateRegistry::") and f.get("name") in ("borrow", "borrow_mut") and ((f.get("cgargs") or f.get("gargs") or [""])[0] or "").startswith(POP + "<"):
                        return popsym
                    return TOP
                it = _inst(Interp(fn.body, chain(mk_oracle(table), lambda i_, e_, f_, a_, t_, b_, p_: pops(i_, e_, f_, a_), store, StackModel(sf), coll_oracle, std_oracle), [Sym("self"), Sym("problem"), Sym("state")], facts=F,
                                  inline=lambda k: k.startswith(POP + "::") or statemodel.inline(k), max_visits=8, max_paths=50))
                stack = tuple(Vec(x) for x in (["bottom"] if below else []) + (["top"] if size is not None else []))
                it.extra_env = {ev_home: Sym("held-evaluator")}
                it.init_state = {"stack": stack, "next_vec": 0, "heap": {"bottom": (c07.ind("b"),), "top": tuple(c07.ind(i) for i in range(size or 0))}}
                store.install(it)
                n += 1
                label = ("%d population(s) below, top population %s" % (below, "absent" if size is None else "of %d" % size), "present" if have_eval else "absent")
                for p in it.run():
                    if p.end != "return" or not isinstance(p.ret, Agg):
                        bad.append(label + ("does not complete (%s)" % p.end,))
                        continue
                    evd = p.mstate.get("evaluated", ())
                    cv_ = store.value(p, EVALS, 0) if EVALS in store.types() else Agg("adt", EVALS, "Evaluations", [7])
                    cnt = cv_.fields[0] if isinstance(cv_, Agg) and cv_.fields else cv_
                    st = [getattr(x, "vid", repr(x)) for x in p.mstate.get("stack", ())]
                    top_now = [c07.otag(x) for x in p.mstate["heap"].get(st[-1], ())] if st else None
                    if not stack:
                        if p.ret.variant != "Ok" or evd or cnt != 7 or st:
                            bad.append(label + ("is not a no-op on an empty stack (%s, evaluated %s, counter %s, stack %s)" % (p.ret.variant, evd, cnt, st),))
                        continue
                    if not have_eval:
                        if p.ret.variant != "Err" or evd or cnt != 7:
                            bad.append(label + ("must fail without evaluating or counting (%s, evaluated %s, counter %s)" % (p.ret.variant, evd, cnt),))
                        continue
                    want_items = tuple("o:%d" % i for i in range(size)) if size is not None else tuple(["o:b"])
                    held = p.mstate.get("held", ())
                    if p.ret.variant != "Ok":
                        bad.append(label + ("fails (%s)" % p.ret,))
                    elif held != ("mahf::state::common::Evaluator<P, I>",):
                        bad.append(label + ("holds %s, expected the evaluator of its own identifier: Evaluator<P, I>" % (held,),))
                    elif len(evd) != 1 or evd[0][0] != "held-evaluator:inner" or evd[0][1] != want_items:
                        bad.append(label + ("hands %s to the evaluator; expected one call of the held evaluator with the whole top population %s" % (evd, want_items),))
                    elif cnt != 7 + len(want_items):
                        bad.append(label + ("advances the evaluation counter from 7 to %s; expected %d (the number of evaluated individuals)" % (cnt, 7 + len(want_items)),))
                    elif len(st) != len(stack) or top_now != list(want_items) or (below and st[0] != "bottom"):
                        bad.append(label + ("leaves the stack %s with top %s; expected the evaluated population back on top of an otherwise untouched stack" % (st, top_now),))
    ctx.check(not bad, "C06.R1", fn.key, "pop-evaluate-count-push", "%s, evaluator %s: execute %s" % (bad[0] if bad else ("", "", "")), detail="%d scenarios" % n, loc=fn.loc())
    ctx.count("population_evaluator_scenarios", n)


def r2_evaluators(ctx):
    """K6 on every Evaluate implementation: a slice of 0..4 individuals (evaluated and unevaluated mixed, distinct
    opaque solutions), the objective function an oracle that records each call.  Afterwards every individual of the
    slice - same individuals, same order, solutions untouched - carries exactly f(its own solution), and the objective
    function was called exactly once per individual (rayon's par_iter_mut / for_each are modelled as the sequential
    visit of all elements; anything else that selects, skips, chunks or repeats elements is either modelled exactly
    by the collection model or leaves the result undecided)."""
    import itertools
    from absint import Interp, Sym, Agg, TOP, some, NONE, std_oracle, chain
    from collmodel import coll_oracle, install, Vec, load, It, HRef as _H
    F = ctx.facts
    IND = "mahf::problems::individual::Individual"
    impls = [f for f in F.all_fns if f.impl_trait == "mahf::problems::evaluate::Evaluate" and f.name == "evaluate"]
    ctx.floor("C06.R2", "Evaluate implementations", len(impls), 2)
    inl = lambda k: (k.startswith("mahf::problems::individual::") or k.startswith("<mahf::problems::individual::") or k.startswith("mahf::problems::evaluate::")
                     or k.startswith("<mahf::problems::evaluate::") or k.startswith("mahf::population::") or "as mahf::population::" in k) and not k.endswith("::objective")
    for fn in impls:
        bad = []
        n = 0
        for size, threads in [(sz, 4) for sz in range(0, 5)] + [(3, 2), (5, 2), (5, 3), (1, 1)]:
            # (pool sizes: the verdict must not depend on how many workers share the slice - blocks of len / workers with a remainder,
            # one worker, more workers than individuals)
            # equal solutions next to each other / apart (selection leaves clones of one parent in a population): every
            # individual is still evaluated on its own
            dup_tags = {2: [("s0", "s0")], 3: [("s0", "s0", "s2"), ("s0", "s1", "s1"), ("s0", "s1", "s0")]}.get(size, [])
            cases = []
            for pattern_ in itertools.product((False, True), repeat=size):
                cases.append((pattern_, tuple("s%d" % i for i in range(size))))
                if len(set(pattern_)) <= 1:
                    cases.extend((pattern_, tg_) for tg_ in dup_tags)
            for pattern, tags in cases:
                if size == 4 and pattern not in ((False,) * 4, (True, False, True, False)):
                    continue
                if threads != 4 and (any(pattern) or len(set(tags)) != len(tags)):
                    continue
                n += 1
                pop = tuple(Agg("adt", IND, "Individual", [Sym(tags[i]), some(Sym("old%d" % i)) if pattern[i] else NONE]) for i in range(size))

                def oracle(interp, env, f, args, t, bb, path, threads=threads):
                    k = f.get("key", "")
                    nm = f.get("name")
                    if k == "mahf::problems::evaluate::ObjectiveFunction::objective" or (nm == "objective" and "ObjectiveFunction" in k):
                        sol = load(interp, env, args[1])
                        tag = getattr(sol, "tag", repr(sol))
                        interp.mstate["calls"] = interp.mstate.get("calls", ()) + (tag,)
                        return Sym("f(%s)" % tag)
                    if k == "rayon_core::current_num_threads" or k.endswith("::current_num_threads"):
                        return threads    # a representative pool size (the verdict must not depend on it)
                    # rayon: the parallel visit of all elements is modelled as the sequential one
                    if nm and nm.startswith("par_") and nm not in ("par_iter_mut", "par_iter") and "rayon" in k:
                        f2 = dict(f)
                        f2["name"] = nm[4:]
                        f2["key"] = "[T]::" + nm[4:]
                        f2["self_ty"] = "[T]"
                        return coll_oracle(interp, env, f2, args, t, bb, path)
                    if nm in ("par_iter_mut", "par_iter", "into_par_iter") and "rayon" in k:
                        v = load(interp, env, args[0])
                        if isinstance(v, Vec):
                            from collmodel import view_get
                            return It([_H(v.vid, (v.lo or 0) + i) for i in range(len(view_get(interp, v)))])
                        return TOP
                    if nm == "for_each" and "rayon" in k:
                        f2 = dict(f)
                        f2["key"] = "core::iter::traits::iterator::Iterator::for_each"
                        return coll_oracle(interp, env, f2, args, t, bb, path)
                    return TOP
                it = install(Interp(fn.body, chain(oracle, coll_oracle, std_oracle), [Sym("self"), Sym("problem"), Sym("state"), Vec("inds", True)], facts=F, inline=inl, max_visits=12))
                it.init_state = {"heap": {"inds": pop}, "next_vec": 0}
                for p in it.run():
                    where = ([("evaluated" if e else "unevaluated") + ("" if len(set(tags)) == len(tags) else " with solution %s" % tags[i]) for i, e in enumerate(pattern)],)
                    if p.end != "return":
                        bad.append(where + ("does not return (%s)" % p.end,))
                        continue
                    after = p.mstate.get("heap", {}).get("inds", ())
                    calls = list(p.mstate.get("calls", ()))
                    sols = [getattr(x.fields[0], "tag", "?") if isinstance(x, Agg) and x.name == IND else "?" for x in after]
                    if sols != list(tags):
                        bad.append(where + ("leaves the individuals %s (same individuals, same order, same solutions are required)" % sols,))
                        continue
                    objs = [(getattr(x.fields[1].fields[0], "tag", "?") if isinstance(x.fields[1], Agg) and x.fields[1].variant == "Some" else None) for x in after]
                    want = ["f(%s)" % tg_ for tg_ in tags]
                    if objs != want:
                        bad.append(where + ("leaves objective values %s, expected %s" % (objs, want),))
                    elif sorted(calls) != sorted(tags):
                        bad.append(where + ("calls the objective function on %s: exactly once per individual is required" % calls,))
        ctx.check(not bad, "C06.R2", fn.key, "everyone-evaluated-exactly-once", "slice of individuals %s: evaluate %s" % (bad[0] if bad else ("", "")), detail="%d slices" % n, loc=fn.loc())
    ctx.count("evaluator_slices", n * len(impls))


def r3_every_evaluate_is_counted(ctx):
    F = ctx.facts
    sites = eval_sites(F)
    pe_exec = F.method(PE, "execute", COMPONENT)
    FA_EXEC = "<mahf::components::swarm::fa::FireflyPositionsUpdate as mahf::components::Component>::execute"

    def owners_of(fn_, depth=0, seen=None):
        """the component methods a (helper) function works for: lifted through the callers of private helpers (an extracted
        helper may be shared by several components)"""
        seen = seen if seen is not None else set()
        if fn_.key in seen:
            return set()
        seen.add(fn_.key)
        if depth > 4 or fn_.impl_trait == COMPONENT or getattr(fn_, "vis", None) in ("pub", "public"):
            return {fn_.key}
        callers = {}
        for (g, b_, t_) in F.callers_of(lambda c, k=fn_.key: c.get("key") == k):
            while g.kind == "Closure" and g.parent and F.fn_opt(g.parent) is not None:
                g = F.fn(g.parent)
            callers[g.key] = g
        if not callers:
            return {fn_.key}
        out = set()
        for g in callers.values():
            out |= owners_of(g, depth + 1, seen)
        return out
    site_owners = [(site, owners_of(site[4])) for site in sites]
    ctx.floor("C06.R3", "components that invoke Evaluate::evaluate", len(set().union(*[o for _s, o in site_owners])) if site_owners else 0, 2)
    for ((f, bb, t, sl, root), owners) in site_owners:
        if owners and owners <= {pe_exec.key, FA_EXEC}:
            # the evaluation step itself: what is handed to the evaluator and how far the counter advances is decided exactly
            # (for stacks, sizes, present / absent evaluator) by C06.R1 on the component as a whole, helpers included; the firefly
            # update (every move evaluated once by the held evaluator and counted) by C06.R7, helpers included
            ctx.ok("C06.R3", root.key, "evaluation-counted", "decided on the whole component by %s" % " / ".join(sorted(("C06.R1" if o == pe_exec.key else "C06.R7") for o in owners)))
            continue
        # any OTHER place that invokes an evaluator: the CFG pairing below (evaluation followed by an equal advance of the counter)
        body = root.body
        # the statement in root after which counting must happen: the holding(..)? call (or the call itself)
        anchor_bb = bb
        if root is not f:
            hs = [(b, tt) for b, tt in body.calls() if tt["f"].get("key") == "mahf::state::State::holding" and
                  any(strip(body.expr_of_op(a))[0] == "agg" and strip(body.expr_of_op(a))[2] == f.key for a in tt["args"])]
            if not ctx.check(len(hs) == 1, "C06.R3", root.key, "anchor", "cannot locate the holding() call that runs the evaluating closure", kind="undecided-shape", loc=root.loc()):
                continue
            anchor_bb = hs[0][0]
        # how many individuals were evaluated
        inner = sl[2] if sl[0] == "captured" else sl
        single = any(x[0] == "call" and x[3]["f"].get("name") == "from_mut" for x in subexprs(inner))
        incs = find_increment(body, EVALS)
        lp = enclosing_loop(body, anchor_bb)
        cands = [(ib, c) for (ib, c) in incs if (enclosing_loop(body, ib) or (None,))[0] == (lp or (None,))[0]]
        good = len(cands) == 1
        why = "increments: %s" % incs
        if good:
            ib, c = cands[0]
            if single:
                good = c == 1
                why = "one-element slice, counter += %s" % c
            else:
                good = c is None or not isinstance(c, int)  # len-based: checked in detail by R1 for the evaluation step
                why = "slice of len(), counter += %s" % ("len-expression" if good else c)
            sp = try_split(body, anchor_bb)
            start = sp[0] if sp else body.term(anchor_bb)["target"]
            goal = (lambda b, h=lp[0]: b == h) if lp else None
            path = must_pass(body, start, lambda b: b == ib, goal=goal, excluded_blocks=err_blocks(body))
            good = good and path is None
            if path is not None:
                why += "; a path continues without counting: %s" % path
        ctx.check(good, "C06.R3", root.key, "evaluation-counted",
                  "the objective evaluations made here are not matched by an equal advance of Evaluations (%s)" % why, detail=why, loc=root.loc(t.get("line")))


def r4_identifiers(ctx):
    F = ctx.facts
    req = F.method(PE, "require", COMPONENT)
    # K6: require() over the four presence patterns of (population stack, the evaluator under the component's OWN identifier):
    # Ok iff both are present; every other requirement it may state is taken as met
    from absint import Interp, Sym, Agg, TOP, ok, err, std_oracle, chain
    from collmodel import coll_oracle, install as _inst
    POPS, OWN = "mahf::state::common::Populations<P>", "mahf::state::common::Evaluator<P, I>"
    for have_pops in (True, False):
        for have_eval in (True, False):
            asked = []

            def oracle(interp, env, f, args, t, bb, path):
                if f.get("key") == "mahf::state::require::StateReq::require":
                    ty = (f.get("gargs") or [None])[-1]
                    asked.append(ty)
                    present = have_pops if ty == POPS else have_eval if ty == OWN else True
                    return ok(Agg("tuple", None, None, [])) if present else err(Sym("missing:%s" % ty))
                return TOP
            it = _inst(Interp(req.body, chain(oracle, coll_oracle, std_oracle), [Sym("self"), Sym("problem"), Sym("state_req")], facts=F, max_visits=6))
            outs = sorted({(p.end, p.ret.variant if isinstance(p.ret, Agg) else None) for p in it.run()}, key=str)
            want = [("return", "Ok" if have_pops and have_eval else "Err")]
            ctx.check(outs == want, "C06.R4", req.key, "requires-stack-and-own-evaluator:%s/%s" % ("stack" if have_pops else "no-stack", "evaluator" if have_eval else "no-evaluator"),
                      "population stack %s, Evaluator<P, I> of the component's own identifier %s (it asks for %s): require() yields %s, expected %s"
                      % ("present" if have_pops else "missing", "present" if have_eval else "missing", sorted(set(map(str, asked))), outs, want), loc=req.loc())
    # K6 with instantiated type parameters: what optimize() puts into the state, what the builder's evaluate steps append,
    # what init inserts
    from collmodel import Vec as _Vec, load as _load
    GLOBAL = "mahf::identifier::inner::Global"

    def inserted_by(fn, args, inline, extra=None):
        seen = []

        def oracle(interp, env, f, args_, t, bb, path):
            k = f.get("key", "")
            if k == "mahf::state::registry::StateRegistry::insert":
                seen.append(((f.get("cgargs") or f.get("gargs") or [None])[0], _load(interp, env, args_[1]) if len(args_) > 1 else None))
                return Agg("adt", "core::option::Option", "None", [])
            if k == "mahf::configuration::Configuration::run":
                return ok(Agg("tuple", None, None, []))
            if k in ("mahf::state::registry::StateRegistry::contains", "mahf::state::registry::StateRegistry::has"):
                return True
            if k in ("mahf::state::State::new", "mahf::state::registry::StateRegistry::new"):
                return Sym("state")
            if f.get("kind") == "fnptr":
                return ok(Agg("tuple", None, None, []))
            return TOP
        it = _inst(Interp(fn.body, chain(oracle, coll_oracle, std_oracle), args, facts=F, inline=inline, max_visits=6))
        it.init_state = dict(extra or {})
        return it.run(), seen
    opt = F.fn("mahf::configuration::Configuration::optimize")
    inl_cfg = lambda k: (k.startswith("mahf::configuration::") and not k.endswith("::run")) or k.startswith("mahf::state::State::insert_evaluator") or k.startswith("<mahf::state::State")
    paths, seen = inserted_by(opt, [Sym("self"), Sym("problem"), Sym("evaluator")], inl_cfg)
    tys = [t for t, _ in seen]
    good = any(p.end == "return" for p in paths) and any(t and t.startswith("mahf::state::common::Evaluator<P, ") and t.endswith(GLOBAL + ">") for t in tys)
    ctx.check(good, "C06.R4", opt.key, "registers-global-evaluator", "optimize() does not insert Evaluator<P, Global> before the run (it inserts %s)" % tys, loc=opt.loc())
    inl_b = lambda k: k.startswith("mahf::configuration::") or k.startswith(PE + "::") or k.startswith("<" + PE)
    for name, want, label in (("evaluate", GLOBAL, "default-identifier"), ("evaluate_with", "I", "own-identifier")):
        fn = F.fn("mahf::configuration::ConfigurationBuilder::" + name)
        it = _inst(Interp(fn.body, chain(coll_oracle, std_oracle), [Agg("adt", "mahf::configuration::ConfigurationBuilder", "ConfigurationBuilder", [_Vec("components")])], facts=F, inline=inl_b, max_visits=6))
        it.init_state = {"heap": {"components": ()}, "next_vec": 0}
        got = []
        for p in it.run():
            comps = p.mstate["heap"].get("components", ()) if p.end == "return" else None
            got.append([(c.name, getattr(c, "gargs", None)) if isinstance(c, Agg) else c for c in comps] if comps is not None else p.end)
        ctx.check(got == [[(PE, [want])]], "C06.R4", fn.key, label,
                  "%s() appends %s, expected exactly one PopulationEvaluator<%s>" % (name, got, want), loc=fn.loc())


def r5_scopes_merge_counts(ctx):
    """a Scope whose body evaluates re-inserts its own Evaluations counter (PopulationEvaluator::init runs on the
    child state); unless the scope's merge step adds it to the outer counter the evaluations are lost"""
    import c16
    from absint import Agg
    F = ctx.facts
    sums, fns, res, entered = c16.analyse_templates(ctx)
    n = 0
    for (fn, tree, full, w, final) in res:
        if tree is None or not full:
            continue
        for sc in c16.scopes(tree, []):
            leaves = c16.all_leaves(sc.children[0], [])
            evaluating = [l for l in leaves if l.ty in sums and sums[l.ty][1].evaluates]
            if not evaluating:
                continue
            n += 1
            mf = sc.extra.get("merge_fn")
            good = False
            why = "no merge step"
            key = None
            if isinstance(mf, Agg) and mf.kind == "closure":
                key = mf.name
            elif isinstance(mf, tuple) and mf and mf[0] == "fn":
                key = mf[1].get("key")
            clo = F.fn_opt(key) if key else None
            if clo is not None:
                reads = [t for b, t in clo.body.calls() if t["f"].get("name") in ("get_value", "try_get_value", "borrow_value", "try_borrow_value", "take", "remove", "borrow") and (t["f"].get("gargs") or [""])[0] == EVALS
                         and origin(clo.body.expr_of_op(t["args"][0]))[0] == ("arg", 3 if clo.kind == "Closure" else 2)]
                incs = find_increment(clo.body, EVALS)
                added_from_inner = False
                for b in clo.body.normal_blocks():
                    for st in clo.body.stmts(b):
                        if st[0] == "=" and "*" in st[1][1]:
                            v = clo.body.expr_of_rv(st[2])
                            if any(x[0] == "call" and x[3]["f"].get("name") in ("get_value", "try_get_value", "borrow_value") for x in subexprs(v)):
                                added_from_inner = True
                good = bool(reads) and len(incs) == 1 and added_from_inner
                why = "merge step %s: reads inner counter=%s, increments outer=%s" % (key.split("::")[-1], bool(reads), incs)
            ctx.check(good, "C06.R5", fn.key, "scope-merges-evaluations", "a scope around %s drops the evaluations it counts (%s): the reported number of evaluations is below the objective calls made"
                      % (sorted({l.ty.split("::")[-1] for l in evaluating}), why), detail=why, loc=fn.loc())
    ctx.count("evaluating_scopes", n)
    ctx.floor("C06.R5", "scopes with evaluating bodies in shipped templates", n, 2)


def run(ctx):
    ctx.guard("C06.R6", "evaluation steps reach their evaluator through State::holding: T is put back into the scope it came from", lambda: __import__("c02").r4_holding(ctx, "C06.R6"))
    ctx.guard("C06.R5", "scopes", lambda: r5_scopes_merge_counts(ctx))
    ctx.guard("C06.INIT", "the counter starts at zero, also on a used state", lambda: __import__("initspec").check_for(ctx, "C06"))
    ctx.guard("C06.R1", "PopulationEvaluator", lambda: r1_population_evaluator(ctx))
    ctx.guard("C06.R2", "evaluators", lambda: r2_evaluators(ctx))
    ctx.guard("C06.R3", "every evaluate is counted", lambda: r3_every_evaluate_is_counted(ctx))
    ctx.guard("C06.R4", "identifiers", lambda: r4_identifiers(ctx))
    ctx.guard("C06.R7", "firefly update", lambda: r7_firefly(ctx))


def r7_firefly(ctx):
    """K6 on FireflyPositionsUpdate::execute (the second place where the objective function is invoked): real population stack
    (another population underneath), Evaluations / RandomizationParameter cells of the typed store, one-dimensional float
    solutions, objective values ordered by a scenario ranking in which a moved firefly becomes the best of all (so the control
    flow is decided).  Every move is followed by exactly one evaluation of exactly the moved firefly by the HELD evaluator of
    the component's own identifier, the counter advances by exactly the number of evaluations made, and afterwards the
    population (same size) is back on top of an untouched stack."""
    import itertools
    import statemodel
    from absint import Interp, Sym, Agg, Ref, TOP, ok, err, some, NONE, std_oracle, chain
    from collmodel import coll_oracle, Vec, install as _inst, load as _load, heap_get, view_get
    from c04 import StackModel
    from c10 import mk_oracle
    import c07
    F = ctx.facts
    FA = "mahf::components::swarm::fa::"
    adt = FA + "FireflyPositionsUpdate"
    fn = F.method(adt, "execute", COMPONENT)
    a_ = F.adt(adt)
    flds = {x["name"]: x["i"] for x in a_["variants"][0]["fields"]}
    POP = statemodel.POPULATIONS
    SO = "mahf::problems::objective::single::SingleObjective"
    ev_home = 10000
    bad = []
    n = 0
    for size in range(0, 4):
        for order in (itertools.permutations(range(size)) if size else [()]):
            me = Sym("self", {flds[k_]: v_ for k_, v_ in (("alpha", 0.5), ("beta", 1.0), ("gamma", 0.01)) if k_ in flds})
            cells, popsym, sf = statemodel.stack_and_rng(F, 0)
            cells = dict(cells)
            cells[EVALS] = Agg("adt", EVALS, "Evaluations", [7])
            cells[FA + "RandomizationParameter"] = 0.25
            store = statemodel.Store(F, levels=1, auto=statemodel.by_prefix(F, cells))

            def holding(interp, env, f, args):
                ga = [g for g in (f.get("cgargs") or f.get("gargs") or []) if not g.startswith("closure{") and g != "P"]
                interp.mstate["held"] = interp.mstate.get("held", ()) + (ga[0] if len(ga) == 1 else tuple(ga),)
                outs_ = interp.call_value(args[1], [Ref(ev_home, [], frame="root"), args[0]])
                if outs_ and len(outs_) == 1 and outs_[0][2] == "return":
                    interp.mstate.clear()
                    interp.mstate.update(outs_[0][3])
                    return outs_[0][0]
                return TOP

            def evaluate(interp, env, f, args):
                who = _load(interp, env, args[0])
                sl = _load(interp, env, args[3]) if len(args) > 3 else TOP
                k = interp.mstate.get("nevals", 0)
                interp.mstate["nevals"] = k + 1
                items = None
                if isinstance(sl, Vec):
                    from absint import HRef as _HR
                    items = [_HR(sl.vid, (sl.lo or 0) + i_) for i_ in range(len(view_get(interp, sl)))]     # (`&mut v[i..=i]`: a view of the vector - its elements by reference)
                elif isinstance(sl, Agg) and sl.kind in ("slice", "array"):
                    items = list(sl.fields)
                if items is None or len(items) != 1:
                    interp.mstate["bad_slice"] = repr(sl)
                    return Agg("tuple", None, None, [])
                tgt = items[0]
                from absint import HRef, href_get, href_set
                ind_ = href_get(interp, env, tgt) if isinstance(tgt, HRef) else (interp.read_ref(env, tgt) if isinstance(tgt, Ref) else tgt)
                tag = "o:new%d" % k
                rk = dict(interp.mstate.get("rank", {}))
                rk[tag] = -1 - k                      # a moved firefly is the best of all from now on
                interp.mstate["rank"] = rk
                newi = Agg("adt", c07.IND, "Individual", [ind_.fields[0], some(Sym(tag))]) if isinstance(ind_, Agg) else TOP
                if isinstance(tgt, HRef):
                    href_set(interp, env, tgt, newi)
                elif isinstance(tgt, Ref):
                    interp.write_ref(env, tgt, newi)
                interp.mstate["evaluated"] = interp.mstate.get("evaluated", ()) + ((getattr(who, "tag", repr(who)), c07.otag(ind_) if isinstance(ind_, Agg) else None,
                                                                                  isinstance(ind_, Agg) and isinstance(ind_.fields[1], Agg) and ind_.fields[1].variant == "Some"),)
                return Agg("tuple", None, None, [])
            table = {"mahf::state::State::holding": holding, EVAL: evaluate, "mahf::state::common::Evaluator::as_inner_mut": Sym("held-evaluator:inner"),
                     "mahf::state::common::Evaluator::as_inner": Sym("held-evaluator:inner"), "rand::rng::Rng::gen_range": 0.75, "rand::rng::Rng::gen": 0.75,
                     "mahf::problems::VectorProblem::dimension": 1, "mahf::problems::LimitedVectorProblem::domain": Vec("dom")}
            it = _inst(Interp(fn.body, chain(mk_oracle(table), store, StackModel(sf), coll_oracle, std_oracle), [me, Sym("problem"), Sym("state")], facts=F,
                              inline=lambda k_: k_.startswith(POP + "::") or statemodel.inline(k_) or c07.INLINE(k_), max_visits=40, max_paths=50))
            heap = {"bottom": (c07.ind("b"),), "dom": (Agg("adt", "core::ops::range::Range", "Range", [-5.0, 5.0]),),
                    "top": tuple(Agg("adt", c07.IND, "Individual", [Vec("x%d" % i), some(Sym("o:%d" % i))]) for i in range(size))}
            for i in range(size):
                heap["x%d" % i] = (float(i),)
            it.extra_env = {ev_home: Sym("held-evaluator")}
            it.init_state = {"stack": (Vec("bottom"), Vec("top")), "next_vec": 0, "heap": heap, "rank": {"o:%d" % i: order[i] for i in range(size)}}
            store.install(it)
            n += 1
            # the structured loop: i moves towards every j that is better at that moment
            rk = list(order)
            moves = 0
            for i in range(size):
                for j in range(size):
                    if rk[i] > rk[j]:
                        moves += 1
                        rk[i] = -moves
            label = "fireflies with objective ranks %s" % (list(order),)
            paths = it.run()
            if len(paths) != 1:
                bad.append((label, "is not decided (%d paths: %s%s)" % (len(paths), sorted({p.end for p in paths}), "".join("; panics at %s" % [e.data for e in p_.events if e.kind == "panic"][:2] for p_ in paths if p_.end == "panic")[:300])))
                continue
            p = paths[0]
            if p.end != "return" or not (isinstance(p.ret, Agg) and p.ret.variant == "Ok"):
                bad.append((label, "does not complete (%s %s%s)" % (p.end, p.ret, ("; panics at %s" % [e.data for e in p.events if e.kind == "panic"][:2]) if p.end == "panic" else "")))
                continue
            evd = p.mstate.get("evaluated", ())
            cv = statemodel.payload_of(store, p, EVALS, 7)
            st = [getattr(x, "vid", repr(x)) for x in p.mstate.get("stack", ())]
            top_now = p.mstate["heap"].get(st[-1], ()) if st else ()
            if p.mstate.get("bad_slice"):
                bad.append((label, "hands %s to the evaluator; exactly the moved firefly (a one-element slice) is expected" % p.mstate["bad_slice"]))
            elif len(evd) != moves:
                bad.append((label, "makes %d evaluations for %d moves (every move is evaluated exactly once)" % (len(evd), moves)))
            elif any(e[0] != "held-evaluator:inner" for e in evd) or set(p.mstate.get("held", ())) - {"mahf::state::common::Evaluator<P, I>"}:
                bad.append((label, "evaluates with %s held as %s; expected the held evaluator of its own identifier" % (sorted({e[0] for e in evd}), sorted(set(map(str, p.mstate.get("held", ())))))))
            elif any(e[2] for e in evd):
                bad.append((label, "hands the evaluator a firefly that still carries its old objective value after moving"))
            elif cv != 7 + moves:
                bad.append((label, "advances the evaluation counter from 7 to %s after %d evaluations" % (cv, moves)))
            elif len(st) != 2 or st[0] != "bottom" or len(top_now) != size or [c07.otag(x) for x in p.mstate["heap"].get("bottom", ())] != ["o:b"]:
                bad.append((label, "leaves the stack %s with a top population of %d (expected the %d fireflies back on top of the untouched population underneath)" % (st, len(top_now), size)))
    ctx.count("firefly_scenarios", n)
    ctx.check(not bad, "C06.R7", fn.key, "every-move-evaluated-and-counted", "%s: the update %s" % (bad[0] if bad else ("", "")), detail="%d scenarios" % n, loc=fn.loc())
