"""C06 — evaluation steps evaluate everyone once and the evaluation count is exact."""
from core import expr_str, strip, subexprs, callee_keys, AnchorMissing
from kinds import (closure_capture, enclosing_loop, ident, must_pass, origin, result_disposition, try_split, upvar_field)
from c03 import err_blocks, find_increment, ok_dominates, on_every_ok_path, propagated

EXPLANATION = (
    "Decided statically on the MIR of the evaluation step and the evaluators: (R1) PopulationEvaluator::execute hands "
    "the WHOLE population it popped (same object, no slicing/adapters) to Evaluate::evaluate exactly once, obtained "
    "through holding::<Evaluator<P, I>> with its own identifier I; on the Ok continuation it adds exactly "
    "`population.len()` of that same vector to Evaluations at exactly one site outside any loop, and pushes that same "
    "vector back on every Ok path; (R2) K6 on every Evaluate implementation over slices of 0..4 individuals (evaluated / "
    "unevaluated mixed, distinct opaque solutions) with the objective function an oracle recording its calls: afterwards "
    "the same individuals in the same order carry f(own solution) and the objective was called exactly once per "
    "individual (rayon's par_iter_mut/for_each modelled as the sequential visit; chunking / skipping / filtering "
    "adapters are modelled exactly by the collection model); (R3) every call site of "
    "Evaluate::evaluate in the crate is followed on its Ok continuation by an increment of Evaluations equal to the "
    "length of the slice it evaluated (len() of the same vector, or the constant 1 for a one-element slice); "
    "(R4) require() demands Populations<P> and Evaluator<P, I> for the same I that execute uses; optimize() registers "
    "Evaluator<P, Global>; the builder's evaluate() constructs PopulationEvaluator<Global>; (R5) any Scope a template "
    "builds around an evaluating body merges the inner Evaluations counter back. NOT decided: the numeric budget "
    "overshoot bound; thread-safety of user objective functions.")
ASSUMPTIONS = ["rayon's par_iter_mut().for_each visits every element exactly once"]

EVAL = "mahf::problems::evaluate::Evaluate::evaluate"
EVALS = "mahf::state::common::Evaluations"
PE = "mahf::components::evaluation::PopulationEvaluator"
COMPONENT = "mahf::components::Component"
# element-preserving iteration / access steps
WHOLE_OK = {"deref", "deref_mut", "as_mut", "as_mut_slice", "as_slice", "borrow_mut", "borrow"}
ITER_OK = {"into_iter", "iter_mut", "iter", "par_iter_mut", "into_par_iter", "par_iter", "for_each", "next", "deref", "deref_mut", "by_ref", "enumerate"}


def eval_sites(F):
    """[(fn, bb, term, slice_expr_in_root, root_fn)] all calls of Evaluate::evaluate in the crate"""
    out = []
    for (f, bb, t) in F.callers_of(lambda c: c.get("key") == EVAL):
        sl = f.body.expr_of_op(t["args"][3])
        root = f
        if f.kind == "Closure":
            uv = upvar_field(sl)
            cap = closure_capture(F, f, uv[0]) if uv else None
            if cap:
                root, cexpr = cap
                sl = ("captured", cexpr, sl)
        out.append((f, bb, t, sl, root))
    return out


def r1_population_evaluator(ctx):
    F = ctx.facts
    fn = F.method(PE, "execute", COMPONENT)
    body = fn.body
    sites = [s for s in eval_sites(F) if s[4] is fn]
    if not ctx.check(len(sites) == 1, "C06.R1", fn.key, "one-evaluate", "PopulationEvaluator::execute reaches Evaluate::evaluate at %d sites, expected 1" % len(sites), loc=fn.loc()):
        return
    f, bb, t, sl, root = sites[0]
    # the population: result of try_pop / pop
    pops = [(b, tt) for b, tt in body.calls() if tt["f"].get("key") in ("mahf::state::common::Populations::try_pop", "mahf::state::common::Populations::pop")]
    if not ctx.check(len(pops) == 1, "C06.R1", fn.key, "pops-once", "the evaluation step pops %d populations, expected exactly 1" % len(pops), loc=fn.loc()):
        return
    pop_call = pops[0]

    def is_population(e):
        """expression denotes the popped vector itself"""
        s = strip(e)
        while s[0] in ("downcast", "field"):
            s = strip(s[1])
        return s[0] == "call" and s[3].get("bb") == pop_call[0]

    # slice handed to the evaluator
    if sl[0] == "captured":
        cexpr, inner = sl[1], sl[2]
        leaf, calls_in, fields_in = origin(inner)
        leaf2, calls_out, _ = origin(cexpr)
        good = is_population(cexpr) and all(c in WHOLE_OK for c in calls_in)
        why = "inside closure: %s; captured: %s" % (calls_in, expr_str(cexpr)[:80])
    else:
        leaf, cs, _ = origin(sl)
        good = is_population(sl)
        why = expr_str(sl)[:100]
    ctx.check(good, "C06.R1", fn.key, "whole-population-evaluated", "the slice given to the evaluator is not the whole popped population (%s)" % why, detail=why, loc=fn.loc(t.get("line")))
    ctx.check(enclosing_loop(f.body, bb) is None, "C06.R1", fn.key, "evaluate-once", "Evaluate::evaluate sits in a loop", loc=fn.loc(t.get("line")))
    # through holding::<Evaluator<P, I>>
    hold = [(b, tt) for b, tt in body.calls() if tt["f"].get("key") == "mahf::state::State::holding"]
    okh = len(hold) == 1 and propagated(body, hold[0][0])
    ev_ty = hold[0][1]["f"]["gargs"][1] if okh else None
    ctx.check(okh and ev_ty == "mahf::state::common::Evaluator<P, I>", "C06.R1", fn.key, "holds-own-evaluator",
              "the evaluator is not taken with holding::<Evaluator<P, I>>()? for the component's own identifier I (got %s)" % ev_ty, loc=fn.loc())
    if not okh:
        return
    # the evaluator object used is the held one
    recv = f.body.expr_of_op(t["args"][0])
    leaf, cs, _ = origin(recv)
    ctx.check(leaf == ("arg", 2) and set(cs) <= {"as_inner_mut", "as_inner", "deref_mut", "deref", "as_mut"}, "C06.R1", fn.key, "uses-held-evaluator",
              "evaluate is not called on the held evaluator (%s)" % expr_str(recv)[:80], loc=fn.loc(t.get("line")))
    # counter
    incs = find_increment(body, EVALS)
    good = len(incs) == 1
    why = str(incs)
    if good:
        ib = incs[0][0]
        # the added value: len() of the same population
        val = None
        for st in body.stmts(ib):
            if st[0] == "=" and "*" in st[1][1]:
                val = body.expr_of_rv(st[2])
        add = val[1] if val and val[0] == "field" else val
        addend = add[3] if add and add[0] == "bin" else None
        lens = [x for x in subexprs(addend)] if addend else []
        lcalls = [x for x in lens if x[0] == "call" and x[3]["f"].get("name") == "len"]
        good = bool(addend) and len(lcalls) == 1 and is_population(lcalls[0][2][0]) and all(x[0] in ("call", "cast", "ref", "deref", "downcast", "field", "var", "arg") for x in subexprs(addend))
        why = expr_str(addend)[:100] if addend else "no addend"
        ctx.check(good, "C06.R1", fn.key, "count-is-population-len", "Evaluations is advanced by %s, not by len() of the evaluated population" % why, detail=why, loc=fn.loc())
        ctx.check(ok_dominates(body, hold[0][0], ib) and enclosing_loop(body, ib) is None, "C06.R1", fn.key, "count-after-successful-evaluation",
                  "the counter is not advanced exactly once on the Ok continuation of the evaluation", loc=fn.loc())
        sp = try_split(body, hold[0][0])
        path = must_pass(body, sp[0], lambda b: b == ib, excluded_blocks=err_blocks(body)) if sp else [0]
        ctx.check(path is None, "C06.R1", fn.key, "count-on-every-ok-path", "a successful evaluation can return without advancing Evaluations (blocks %s)" % path, loc=fn.loc())
    else:
        ctx.violation("C06.R1", fn.key, "count-once", "Evaluations is advanced at %d sites (%s), expected exactly one" % (len(incs), why), loc=fn.loc())
    # push back
    pushes = [(b, tt) for b, tt in body.calls() if tt["f"].get("key") == "mahf::state::common::Populations::push"]
    good = len(pushes) == 1 and is_population(body.expr_of_op(pushes[0][1]["args"][1]))
    ctx.check(good, "C06.R1", fn.key, "same-population-pushed-back", "the evaluated population is not pushed back exactly once (pushes: %d)" % len(pushes), loc=fn.loc())
    if good:
        sp = try_split(body, hold[0][0])
        path = must_pass(body, sp[0], lambda b: b == pushes[0][0], excluded_blocks=err_blocks(body)) if sp else [0]
        ctx.check(path is None, "C06.R1", fn.key, "pushed-back-on-every-ok-path", "a successful evaluation can return without pushing the population back", loc=fn.loc())
        ctx.check(enclosing_loop(body, pushes[0][0]) is None, "C06.R1", fn.key, "pushed-back-once", "push sits in a loop", loc=fn.loc())


def r2_evaluators(ctx):
    """K6 on every Evaluate implementation: a slice of 0..4 individuals (evaluated and unevaluated mixed, distinct
    opaque solutions), the objective function an oracle that records each call.  Afterwards every individual of the
    slice - same individuals, same order, solutions untouched - carries exactly f(its own solution), and the objective
    function was called exactly once per individual (rayon's par_iter_mut / for_each are modelled as the sequential
    visit of all elements; anything else that selects, skips, chunks or repeats elements is either modelled exactly
    by the collection model or leaves the result undecided)."""
    import itertools
    from absint import Interp, Sym, Agg, TOP, some, NONE, std_oracle, chain
    from collmodel import coll_oracle, install, Vec, load, It, HRef as _H
    F = ctx.facts
    IND = "mahf::problems::individual::Individual"
    impls = [f for f in F.all_fns if f.impl_trait == "mahf::problems::evaluate::Evaluate" and f.name == "evaluate"]
    ctx.floor("C06.R2", "Evaluate implementations", len(impls), 2)
    inl = lambda k: (k.startswith("mahf::problems::individual::") or k.startswith("<mahf::problems::individual::") or k.startswith("mahf::problems::evaluate::")
                     or k.startswith("<mahf::problems::evaluate::") or k.startswith("mahf::population::") or "as mahf::population::" in k) and not k.endswith("::objective")
    for fn in impls:
        bad = []
        n = 0
        for size in range(0, 5):
            for pattern in itertools.product((False, True), repeat=size):
                if size == 4 and pattern not in ((False,) * 4, (True, False, True, False)):
                    continue
                n += 1
                pop = tuple(Agg("adt", IND, "Individual", [Sym("s%d" % i), some(Sym("old%d" % i)) if pattern[i] else NONE]) for i in range(size))

                def oracle(interp, env, f, args, t, bb, path):
                    k = f.get("key", "")
                    nm = f.get("name")
                    if k == "mahf::problems::evaluate::ObjectiveFunction::objective" or (nm == "objective" and "ObjectiveFunction" in k):
                        sol = load(interp, env, args[1])
                        tag = getattr(sol, "tag", repr(sol))
                        interp.mstate["calls"] = interp.mstate.get("calls", ()) + (tag,)
                        return Sym("f(%s)" % tag)
                    # rayon: the parallel visit of all elements is modelled as the sequential one
                    if nm and nm.startswith("par_") and nm not in ("par_iter_mut", "par_iter") and "rayon" in k:
                        f2 = dict(f)
                        f2["name"] = nm[4:]
                        f2["key"] = "[T]::" + nm[4:]
                        f2["self_ty"] = "[T]"
                        return coll_oracle(interp, env, f2, args, t, bb, path)
                    if nm in ("par_iter_mut", "par_iter", "into_par_iter") and "rayon" in k:
                        v = load(interp, env, args[0])
                        if isinstance(v, Vec):
                            from collmodel import view_get
                            return It([_H(v.vid, (v.lo or 0) + i) for i in range(len(view_get(interp, v)))])
                        return TOP
                    if nm == "for_each" and "rayon" in k:
                        f2 = dict(f)
                        f2["key"] = "core::iter::traits::iterator::Iterator::for_each"
                        return coll_oracle(interp, env, f2, args, t, bb, path)
                    return TOP
                it = install(Interp(fn.body, chain(oracle, coll_oracle, std_oracle), [Sym("self"), Sym("problem"), Sym("state"), Vec("inds", True)], facts=F, inline=inl, max_visits=12))
                it.init_state = {"heap": {"inds": pop}, "next_vec": 0}
                for p in it.run():
                    where = ([("evaluated" if e else "unevaluated") for e in pattern],)
                    if p.end != "return":
                        bad.append(where + ("does not return (%s)" % p.end,))
                        continue
                    after = p.mstate.get("heap", {}).get("inds", ())
                    calls = list(p.mstate.get("calls", ()))
                    sols = [getattr(x.fields[0], "tag", "?") if isinstance(x, Agg) and x.name == IND else "?" for x in after]
                    if sols != ["s%d" % i for i in range(size)]:
                        bad.append(where + ("leaves the individuals %s (same individuals, same order, same solutions are required)" % sols,))
                        continue
                    objs = [(getattr(x.fields[1].fields[0], "tag", "?") if isinstance(x.fields[1], Agg) and x.fields[1].variant == "Some" else None) for x in after]
                    want = ["f(s%d)" % i for i in range(size)]
                    if objs != want:
                        bad.append(where + ("leaves objective values %s, expected %s" % (objs, want),))
                    elif sorted(calls) != sorted("s%d" % i for i in range(size)):
                        bad.append(where + ("calls the objective function on %s: exactly once per individual is required" % calls,))
        ctx.check(not bad, "C06.R2", fn.key, "everyone-evaluated-exactly-once", "slice of individuals %s: evaluate %s" % (bad[0] if bad else ("", "")), detail="%d slices" % n, loc=fn.loc())
    ctx.count("evaluator_slices", n * len(impls))


def r3_every_evaluate_is_counted(ctx):
    F = ctx.facts
    sites = eval_sites(F)
    ctx.floor("C06.R3", "call sites of Evaluate::evaluate", len(sites), 2)
    for (f, bb, t, sl, root) in sites:
        body = root.body
        # the statement in root after which counting must happen: the holding(..)? call (or the call itself)
        anchor_bb = bb
        if root is not f:
            hs = [(b, tt) for b, tt in body.calls() if tt["f"].get("key") == "mahf::state::State::holding" and
                  any(strip(body.expr_of_op(a))[0] == "agg" and strip(body.expr_of_op(a))[2] == f.key for a in tt["args"])]
            if not ctx.check(len(hs) == 1, "C06.R3", root.key, "anchor", "cannot locate the holding() call that runs the evaluating closure", kind="undecided-shape", loc=root.loc()):
                continue
            anchor_bb = hs[0][0]
        # how many individuals were evaluated
        inner = sl[2] if sl[0] == "captured" else sl
        single = any(x[0] == "call" and x[3]["f"].get("name") == "from_mut" for x in subexprs(inner))
        incs = find_increment(body, EVALS)
        lp = enclosing_loop(body, anchor_bb)
        cands = [(ib, c) for (ib, c) in incs if (enclosing_loop(body, ib) or (None,))[0] == (lp or (None,))[0]]
        good = len(cands) == 1
        why = "increments: %s" % incs
        if good:
            ib, c = cands[0]
            if single:
                good = c == 1
                why = "one-element slice, counter += %s" % c
            else:
                good = c is None or not isinstance(c, int)  # len-based: checked in detail by R1 for the evaluation step
                why = "slice of len(), counter += %s" % ("len-expression" if good else c)
            sp = try_split(body, anchor_bb)
            start = sp[0] if sp else body.term(anchor_bb)["target"]
            goal = (lambda b, h=lp[0]: b == h) if lp else None
            path = must_pass(body, start, lambda b: b == ib, goal=goal, excluded_blocks=err_blocks(body))
            good = good and path is None
            if path is not None:
                why += "; a path continues without counting: %s" % path
        ctx.check(good, "C06.R3", root.key, "evaluation-counted",
                  "the objective evaluations made here are not matched by an equal advance of Evaluations (%s)" % why, detail=why, loc=root.loc(t.get("line")))


def r4_identifiers(ctx):
    F = ctx.facts
    req = F.method(PE, "require", COMPONENT)
    reqs = [tt["f"].get("gargs") for b, tt in req.body.calls() if tt["f"].get("key") == "mahf::state::require::StateReq::require"]
    tys = sorted(g[-1] for g in reqs if g and len(g) >= 2)
    want = sorted(["mahf::state::common::Populations<P>", "mahf::state::common::Evaluator<P, I>"])
    ctx.check(tys == want, "C06.R4", req.key, "requires-stack-and-own-evaluator", "require() checks %s, expected %s" % (tys, want), detail=str(tys), loc=req.loc())
    for b, tt in req.body.calls():
        if tt["f"].get("key") == "mahf::state::require::StateReq::require":
            ctx.check(propagated(req.body, b) or result_disposition(req.body, b) == "passed", "C06.R4", req.key, "require-propagated:%s" % tt["f"]["gargs"][-1][-20:], "a failed requirement is not reported", loc=req.loc(tt.get("line")))
    opt = F.fn("mahf::configuration::Configuration::optimize")
    import k4 as _k4
    ins = [tt["f"].get("gargs") for b, tt in opt.body.calls() if tt["f"].get("key") == "mahf::state::registry::StateRegistry::insert"]
    # helpers of State that insert on the caller's behalf (insert_evaluator, insert_evaluator_as::<I>): substitute their type parameters
    for b, tt in opt.body.calls():
        ck = tt["f"].get("key", "")
        cf = F.fn_opt(ck)
        if cf is not None and ck.startswith("mahf::state::State::"):
            names = _k4.type_params(cf.generics)
            ga = tt["f"].get("gargs") or []
            mapping = dict(zip(names, ga)) if len(names) == len(ga) else {}
            for b2, t2 in cf.body.calls():
                if t2["f"].get("key") == "mahf::state::registry::StateRegistry::insert":
                    ins.append([_k4.subst(x, mapping) for x in (t2["f"].get("gargs") or [])])
    ctx.check(any(g and g[0].startswith("mahf::state::common::Evaluator<P, ") and g[0].endswith("::Global>") for g in ins), "C06.R4", opt.key, "registers-global-evaluator", "optimize() does not insert Evaluator<P, Global>: %s" % ins, loc=opt.loc())
    ev = F.fn("mahf::configuration::ConfigurationBuilder::evaluate")
    ks = [tt["f"].get("key") for b, tt in ev.body.calls()]
    ctx.check(PE + "::new" in ks, "C06.R4", ev.key, "default-identifier", "evaluate() does not build PopulationEvaluator::new() (Global identifier): %s" % ks, loc=ev.loc())
    evw = F.fn("mahf::configuration::ConfigurationBuilder::evaluate_with")
    gs = [tt["f"].get("gargs") for b, tt in evw.body.calls() if tt["f"].get("key") == PE + "::new_with"]
    ctx.check(gs and gs[0][0] == "I", "C06.R4", evw.key, "own-identifier", "evaluate_with::<I>() does not build PopulationEvaluator<I>: %s" % gs, loc=evw.loc())
    # init inserts Evaluations(0)
    ini = F.method(PE, "init", COMPONENT)
    ins = [(b, tt) for b, tt in ini.body.calls() if tt["f"].get("key") == "mahf::state::registry::StateRegistry::insert" and tt["f"].get("gargs") == [EVALS]]
    good = len(ins) == 1
    if good:
        v = strip(ini.body.expr_of_op(ins[0][1]["args"][1]))
        good = v[0] == "agg" and v[4] and v[4][0][0] == "const" and v[4][0][2] == 0
    ctx.check(good, "C06.R4", ini.key, "counter-starts-at-zero", "init does not insert Evaluations(0)", loc=ini.loc())


def r5_scopes_merge_counts(ctx):
    """a Scope whose body evaluates re-inserts its own Evaluations counter (PopulationEvaluator::init runs on the
    child state); unless the scope's merge step adds it to the outer counter the evaluations are lost"""
    import c16
    from absint import Agg
    F = ctx.facts
    sums, fns, res, entered = c16.analyse_templates(ctx)
    n = 0
    for (fn, tree, full, w, final) in res:
        if tree is None or not full:
            continue
        for sc in c16.scopes(tree, []):
            leaves = c16.all_leaves(sc.children[0], [])
            evaluating = [l for l in leaves if l.ty in sums and sums[l.ty][1].evaluates]
            if not evaluating:
                continue
            n += 1
            mf = sc.extra.get("merge_fn")
            good = False
            why = "no merge step"
            key = None
            if isinstance(mf, Agg) and mf.kind == "closure":
                key = mf.name
            elif isinstance(mf, tuple) and mf and mf[0] == "fn":
                key = mf[1].get("key")
            clo = F.fn_opt(key) if key else None
            if clo is not None:
                reads = [t for b, t in clo.body.calls() if t["f"].get("name") in ("get_value", "try_get_value", "borrow_value", "try_borrow_value", "take", "remove", "borrow") and (t["f"].get("gargs") or [""])[0] == EVALS
                         and origin(clo.body.expr_of_op(t["args"][0]))[0] == ("arg", 3 if clo.kind == "Closure" else 2)]
                incs = find_increment(clo.body, EVALS)
                added_from_inner = False
                for b in clo.body.normal_blocks():
                    for st in clo.body.stmts(b):
                        if st[0] == "=" and "*" in st[1][1]:
                            v = clo.body.expr_of_rv(st[2])
                            if any(x[0] == "call" and x[3]["f"].get("name") in ("get_value", "try_get_value", "borrow_value") for x in subexprs(v)):
                                added_from_inner = True
                good = bool(reads) and len(incs) == 1 and added_from_inner
                why = "merge step %s: reads inner counter=%s, increments outer=%s" % (key.split("::")[-1], bool(reads), incs)
            ctx.check(good, "C06.R5", fn.key, "scope-merges-evaluations", "a scope around %s drops the evaluations it counts (%s): the reported number of evaluations is below the objective calls made"
                      % (sorted({l.ty.split("::")[-1] for l in evaluating}), why), detail=why, loc=fn.loc())
    ctx.count("evaluating_scopes", n)
    ctx.floor("C06.R5", "scopes with evaluating bodies in shipped templates", n, 2)


def run(ctx):
    ctx.guard("C06.R5", "scopes", lambda: r5_scopes_merge_counts(ctx))
    ctx.guard("C06.R1", "PopulationEvaluator", lambda: r1_population_evaluator(ctx))
    ctx.guard("C06.R2", "evaluators", lambda: r2_evaluators(ctx))
    ctx.guard("C06.R3", "every evaluate is counted", lambda: r3_every_evaluate_is_counted(ctx))
    ctx.guard("C06.R4", "identifiers", lambda: r4_identifiers(ctx))
