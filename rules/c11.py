"""C11 — selection copies members of the source population, in the requested number."""
import itertools

from core import expr_str, strip, subexprs, AnchorMissing
from absint import Interp, Sym, Agg, Ref, HRef, TOP, some, NONE, ok, err, std_oracle, chain
from collmodel import coll_oracle, Vec, install, load, It, heap_get
from orderings import weak_orderings
from c10 import mk_oracle
import c07

EXPLANATION = (
    "(R1) type level: Selection::select ties the lifetime of every returned reference to the `population` slice and to "
    "no other input, so safe code can only return references into the source (no unsafe / leak / transmute exists in "
    "the selection module); (R2) K6 on the selection() driver: it reads the CURRENT population, clones every selected "
    "reference exactly once in order, pushes exactly one population, never pops or edits the source, and pushes "
    "nothing when select() fails; every Selection implementation executes through that driver; (R3) K6 on the "
    "operators whose answer does not depend on random numbers or only through a modelled sample: All returns every "
    "member in order, None nothing, CloneSingle n references to the single member and an error unless the population "
    "has exactly one, RandomWithoutRepetition n distinct members and an error iff fewer than n exist, Tournament over "
    "every weak ordering returns a minimal member of the sampled competitors (the best individual when the whole "
    "population competes) and an error when the population is smaller than the tournament; (R4) fitness never favours "
    "a worse individual: the weights LinearRank / ExponentialRank hand to the sampler are non-increasing in the rank "
    "for every ranking of 1..4 individuals, and proportional_weights over a grid of objective vectors (positive, "
    "negative, mixed, tied, infinite) is non-increasing in the objective, at least `offset`, and None for infinite "
    "values. (R7) reverse_rank is the dense ranking (1 = lowest, ties share a rank) for every weak ordering of up to 4 objective values. NOT decided: sampling frequencies; the DE selections' index arithmetic; panics on degenerate parameters "
    "(tournament size 0, empty populations for samplers) that the operators do not document as errors.")
EXPLANATION += " " + '(R2 revised) the driver runs on the REAL population stack with 0..2 populations underneath; stack and generator are cells of the typed store owned by the current or the ENCLOSING scope and must still be held by exactly their owner afterwards.'
ASSUMPTIONS = ["rand's choose / choose_multiple return members of the slice (choose_multiple: distinct ones)"]

SEL = "mahf::components::selection::"
SELT = SEL + "Selection"
INL = c07.INLINE


def r1_signature(ctx):
    F = ctx.facts
    tr = F.traits.get(SELT)
    if tr is None:
        raise AnchorMissing("trait Selection not found")
    sel = [i for i in tr["items"] if i["name"] == "select"]
    sig = sel[0]["sig"] if sel else None
    import re
    good = False
    why = str(sig)
    if sig:
        m_in = re.match(r"&'(\w+) \[mahf::problems::individual::Individual<", sig["inputs"][1])
        m_out = re.search(r"alloc::vec::Vec<&'(\w+) mahf::problems::individual::Individual<", sig["output"])
        other = [x for x in sig["inputs"][2:] if m_in and ("'" + m_in.group(1)) in x]
        good = bool(m_in and m_out and m_in.group(1) == m_out.group(1) and not other and "'" + m_in.group(1) not in sig["inputs"][0])
    ctx.check(good, "C11.R1", SELT + "::select", "result-borrows-from-population", "select() does not tie its result's lifetime to the population slice only: %s" % why, detail=why[:200])
    bad = [u for u in F.unsafe_blocks if u["source"] == "UserProvided" and u["span"]["file"].startswith("src/components/selection/")]
    ctx.check(not bad, "C11.R1", "src/components/selection", "no-unsafe", "unsafe code in the selection module: %s" % [u["owner"] for u in bad])
    leaks = F.callers_of(lambda c: c.get("key") in ("alloc::boxed::Box::leak", "core::mem::transmute", "core::intrinsics::transmute", "alloc::vec::Vec::leak", "core::mem::forget"))
    leaks = [(f, t) for (f, b, t) in leaks if f.file.startswith("src/components/selection/")]
    ctx.check(not leaks, "C11.R1", "src/components/selection", "no-leak-or-transmute", "leak/transmute in %s" % sorted({f.key for f, t in leaks}))


def r2_driver(ctx, fn=None, rule="C11.R2"):
    """the driver on the REAL population stack (Populations methods inlined over c04's stack model): with 0..2 other
    populations underneath, select() is handed the top population, the picked members are cloned in order into exactly
    one new population on top, everything underneath and the source stay as they were, and a failing select() leaves
    the stack untouched"""
    from c04 import StackModel
    F = ctx.facts
    POP = "mahf::state::common::Populations"
    sf = F.field_index(POP, "stack")
    delegated = fn is None
    fn = fn or F.fn(SEL + "selection")
    called = []
    bad = []
    n = 0
    import statemodel
    for below, owner in (((), 0), (("b0",), 0), (("b0", "b1"), 0), (("b0",), 1)):
      for size in range(0, 4):
        picks = [()] + [tuple(c) for k in range(1, 4) for c in itertools.product(range(size), repeat=k)][:40]
        if below:
            picks = picks[:6]
        for pick in picks:
            for outcome in ("ok", "err"):
                def sel(interp, env, f, args, pick=pick, outcome=outcome):
                    called.append(1)
                    src = load(interp, env, args[1])
                    interp.mstate["select_from"] = (getattr(src, "vid", repr(src)), getattr(src, "lo", None), getattr(src, "hi", None))
                    if outcome == "err":
                        return err(Sym("boom"))
                    from collmodel import new_vec
                    if not isinstance(src, Vec):
                        return TOP
                    return ok(new_vec(interp, [HRef(src.vid, (src.lo or 0) + i) for i in pick]))
                # the stack and the generator are cells of the typed store, owned by the scope the driver runs in (0) or by the
                # enclosing scope (1: the operator sits inside a Scope)
                cells, popsym, _sf = statemodel.stack_and_rng(F, owner)
                store = statemodel.Store(F, levels=2, auto=statemodel.by_prefix(F, cells))
                table = {SELT + "::select": sel}
                it = install(Interp(fn.body, chain(mk_oracle(table), store, StackModel(sf), coll_oracle, std_oracle), [Sym("component"), Sym("problem"), Sym("state")], facts=F,
                                    inline=lambda k: k.startswith(POP + "::") or INL(k) or statemodel.inline(k), max_visits=10))
                it.never_inline = lambda k_: k_.endswith(" as " + SELT + ">::select")      # (the operator is answered by the scenario)
                src_pop = tuple(c07.ind(i) for i in range(size))
                heap = {"cur": src_pop}
                for j, bname in enumerate(below):
                    heap[bname] = tuple(c07.ind(10 * (j + 1) + i) for i in range(2))
                it.init_state = {"stack": tuple(Vec(bname) for bname in below) + (Vec("cur"),), "heap": heap, "next_vec": 0}
                store.install(it)
                n += 1
                for p in it.run():
                    ctxs = ("%d with %d other population(s) underneath%s" % (size, len(below), ", the stack owned by the enclosing scope" if owner else ""), list(pick), outcome)
                    st = list(p.mstate.get("stack", ()))
                    names = [getattr(x, "vid", repr(x)) for x in st]
                    held = {ty.split("<")[0].split("::")[-1]: store.holders(p, ty) for ty in store.types()}
                    if any(ls != [owner] for ls in held.values()):
                        bad.append(ctxs + ("leaves %s held by scope level(s) %s; the stack and the generator belong to scope level %d (0 = the scope the operator runs in, 1 = the enclosing one) and stay there" % (
                            sorted(held), sorted(held.values()), owner),))
                        continue
                    if p.mstate.get("unmodelled"):
                        bad.append(ctxs + ("applies %s to the stack" % (p.mstate["unmodelled"],),))
                        continue
                    if any([c07.otag(x) for x in p.mstate["heap"].get(k, ())] != [c07.otag(x) for x in v] for k, v in heap.items()):
                        bad.append(ctxs + ("modifies a population that was on the stack",))
                        continue
                    if outcome == "err":
                        if p.end != "return" or not (isinstance(p.ret, Agg) and p.ret.variant == "Err") or names != list(below) + ["cur"]:
                            bad.append(ctxs + ("on a selection error: %s %s, stack %s (expected the error and an untouched stack)" % (p.end, p.ret, names),))
                        continue
                    if p.end != "return" or not (isinstance(p.ret, Agg) and p.ret.variant == "Ok"):
                        bad.append(ctxs + ("%s %s (expected Ok)" % (p.end, p.ret),))
                        continue
                    sfrom = p.mstate.get("select_from")
                    if not sfrom or sfrom[0] != "cur" or (sfrom[1] or 0) != 0 or (sfrom[2] is not None and sfrom[2] != size):
                        bad.append(ctxs + ("selects from %s, not from the whole current (top) population" % (sfrom,),))
                        continue
                    if len(names) != len(below) + 2 or names[:len(below) + 1] != list(below) + ["cur"]:
                        bad.append(ctxs + ("leaves the stack as %s (expected the selection pushed once on top of %s)" % (names, list(below) + ["cur"]),))
                        continue
                    items = heap_get_path(p, st[-1])
                    got = [c07.otag(x) for x in items]
                    want = ["o:%d" % i for i in pick]
                    intact = all(isinstance(x, Agg) and c07.otag(x) and getattr(x.fields[0], "tag", "") == "s:" + c07.otag(x)[2:] for x in items)
                    if got != want or not intact:
                        bad.append(ctxs + ("pushes %s, expected exact copies of the selected members %s" % (got, want),))
    if not delegated and not called:
        # the operator's execute() neither calls the driver nor its own select(): driver and select are both written out in it.
        # It must then leave exactly what the driver leaves when it runs this operator's REAL select() - compared on the same stacks
        bad = []
        cmp_n = 0
        adt_ = fn.impl_self_adt
        for below, owner in (((), 0), (("b0",), 0), (("b0",), 1)):
            for size in range(0, 4):
                outs = []
                for body_fn in (fn, F.fn(SEL + "selection")):
                    cells, popsym, _sf = statemodel.stack_and_rng(F, owner)
                    store = statemodel.Store(F, levels=2, auto=statemodel.by_prefix(F, cells))
                    def real_select(interp, env, f, args):
                        outs_ = interp.call_body(F.fn("<%s as %s>::select" % (adt_, SELT)), list(args))
                        if len(outs_) == 1 and outs_[0][2] == "return":
                            interp.mstate.clear()
                            interp.mstate.update(outs_[0][3])
                            return outs_[0][0]
                        return TOP
                    it = install(Interp(body_fn.body, chain(mk_oracle({SELT + "::select": real_select}), store, StackModel(sf), coll_oracle, std_oracle), [Sym("self"), Sym("problem"), Sym("state")], facts=F,
                                        inline=lambda k: k.startswith(POP + "::") or INL(k) or statemodel.inline(k) or k == "<%s as %s>::select" % (adt_, SELT), max_visits=12))
                    it.dispatch = True
                    heap = {"cur": tuple(c07.ind(i) for i in range(size))}
                    for j, bname in enumerate(below):
                        heap[bname] = tuple(c07.ind(10 * (j + 1) + i) for i in range(2))
                    it.init_state = {"stack": tuple(Vec(bname) for bname in below) + (Vec("cur"),), "heap": heap, "next_vec": 0}
                    store.install(it)
                    res = set()
                    for p in it.run():
                        st = list(p.mstate.get("stack", ()))
                        pops = tuple(tuple(c07.otag(x) if isinstance(x, Agg) else repr(x) for x in heap_get_path(p, v)) for v in st)
                        held = tuple(sorted((ty.split("<")[0], tuple(store.holders(p, ty))) for ty in store.types()))
                        res.add((p.end, p.ret.variant if isinstance(p.ret, Agg) else repr(p.ret), pops, held))
                    outs.append(res)
                cmp_n += 1
                undecided = any(any("TOP" in repr(x) for x in r) for r in outs)
                if outs[0] != outs[1] or undecided or not outs[0]:
                    bad.append(("%d with %d other population(s) underneath" % (size, len(below)), [], "written out",
                                "leaves %s; the driver running this operator's select() leaves %s" % (sorted(outs[0], key=repr)[:2], sorted(outs[1], key=repr)[:2])))
        n = cmp_n
    ctx.check(not bad, rule, fn.key, "copies-selected-members-once",
              "source of %s, select() picking members %s (%s): the driver %s" % (bad[0] if bad else ("", "", "", "")), detail="%d scenarios" % n, loc=fn.loc())
    ctx.count("driver_scenarios", n)
    if not delegated:
        return
    impls = [f for f in F.all_fns if f.impl_trait == SELT and f.name == "select"]
    ctx.floor("C11.R2", "Selection implementations", len(impls), 14)
    # (that every operator executes through this driver - or through code that behaves like it - is C11.DRV)


def heap_get_path(p, v):
    if isinstance(v, Vec):
        return p.mstate.get("heap", {}).get(v.vid, ())
    return ()


def sample_oracle(table_extra=None):
    """rand's slice sampling, modelled by a representative: choose -> first member, choose_multiple(n) -> the first n"""
    def choose(interp, env, f, args):
        v = load(interp, env, args[0])
        items = heap_get(interp, v.vid) if isinstance(v, Vec) else None
        if items is None:
            return TOP
        return some(HRef(v.vid, 0)) if items else NONE

    def choose_multiple(interp, env, f, args):
        v = load(interp, env, args[0])
        if not isinstance(v, Vec) or not isinstance(args[2], int):
            return TOP
        items = heap_get(interp, v.vid)
        return It([HRef(v.vid, i) for i in range(min(args[2], len(items)))])
    def index_sample(interp, env, f, args):
        # `rand::seq::index::sample(rng, length, amount)`: `amount` distinct indices below `length` (what choose_multiple maps
        # over); rand panics when amount > length
        ln, am = args[1], args[2]
        if not (isinstance(ln, int) and isinstance(am, int)):
            return TOP
        if am > ln:
            return "DIVERGE"
        from collmodel import new_vec
        return new_vec(interp, list(range(am)))
    t = {"rand::seq::SliceRandom::choose": choose, "rand::seq::SliceRandom::choose_multiple": choose_multiple, "rand::seq::index::sample": index_sample}
    t.update(table_extra or {})
    return t


def run_select(F, fn, me, size, order=None, table=None):
    it = install(Interp(fn.body, chain(mk_oracle(sample_oracle(table)), coll_oracle, std_oracle), [me, Vec("cur", borrowed=True), Sym("rng")], facts=F, inline=INL, max_visits=12))
    order = order if order is not None else tuple(range(size))
    it.init_state = {"rank": {"o:%d" % i: r for i, r in enumerate(order)}, "heap": {"cur": tuple(c07.ind(i) for i in range(size))}, "next_vec": 0}
    return it.run()


def picked(p):
    """indices into the source the Ok result refers to, or None"""
    r = p.ret
    if not (isinstance(r, Agg) and r.variant == "Ok" and isinstance(r.fields[0], Vec)):
        return None
    out = []
    for x in p.mstate["heap"].get(r.fields[0].vid, ()):
        if isinstance(x, HRef) and x.vid == "cur":
            out.append(x.idx)
        else:
            return None
    return out


def r3_operators(ctx):
    F = ctx.facts
    C = SEL + "common::"

    def sel(adt):
        return F.method(adt, "select", SELT)
    # All / None
    for adt, want in ((C + "All", lambda n: list(range(n))), (C + "None", lambda n: [])):
        fn = sel(adt)
        bad = []
        for n in range(0, 4):
            for p in run_select(F, fn, Sym("self"), n):
                if p.end != "return" or picked(p) != want(n):
                    bad.append((n, "%s %s" % (p.end, picked(p))))
        ctx.check(not bad, "C11.R3", fn.key, "everything" if adt.endswith("All") else "nothing", "population of %s: selects %s" % (bad[0] if bad else ("", "")), loc=fn.loc())
    # CloneSingle
    fn = sel(C + "CloneSingle")
    ni = F.field_index(C + "CloneSingle", "num_selected")
    bad = []
    for n in range(0, 4):
        for k in range(0, 4):
            for p in run_select(F, fn, Sym("self", {ni: k}), n):
                if n == 1:
                    if p.end != "return" or picked(p) != [0] * k:
                        bad.append((n, k, "%s %s, expected %d references to the single member" % (p.end, picked(p), k)))
                else:
                    if p.end != "return" or not (isinstance(p.ret, Agg) and p.ret.variant == "Err"):
                        bad.append((n, k, "%s %s, expected an error (not exactly one individual)" % (p.end, p.ret)))
    ctx.check(not bad, "C11.R3", fn.key, "n-copies-of-the-single-member", "population of %s, %s requested: %s" % (bad[0] if bad else ("", "", "")), loc=fn.loc())
    # RandomWithoutRepetition
    fn = sel(C + "RandomWithoutRepetition")
    ni = F.field_index(C + "RandomWithoutRepetition", "num_selected")
    bad = []
    for n in range(0, 5):
        for k in range(0, 5):
            for p in run_select(F, fn, Sym("self", {ni: k}), n):
                got = picked(p)
                if k <= n:
                    if p.end != "return" or got is None or len(got) != k or len(set(got)) != k:
                        bad.append((n, k, "%s %s, expected %d distinct members" % (p.end, got if got is not None else p.ret, k)))
                else:
                    if p.end != "return" or not (isinstance(p.ret, Agg) and p.ret.variant == "Err"):
                        bad.append((n, k, "%s %s, expected an error (too few individuals)" % (p.end, p.ret)))
    ctx.check(not bad, "C11.R3", fn.key, "n-distinct-or-error", "population of %s, %s requested: %s" % (bad[0] if bad else ("", "", "")), loc=fn.loc())
    # Tournament
    fn = sel(C + "Tournament")
    ni, si = F.field_index(C + "Tournament", "num_selected"), F.field_index(C + "Tournament", "size")
    bad = []
    cnt = 0
    for n in range(1, 4):
        for order in weak_orderings(n):
            for size in range(1, 5):
                for k in (1, 2):
                    cnt += 1
                    for p in run_select(F, fn, Sym("self", {ni: k, si: size}), n, order):
                        got = picked(p)
                        if size > n:
                            if p.end != "return" or not (isinstance(p.ret, Agg) and p.ret.variant == "Err"):
                                bad.append((n, list(order), size, "%s %s, expected an error (population smaller than the tournament)" % (p.end, p.ret)))
                            continue
                        sample = list(range(size))
                        best = min(order[i] for i in sample)
                        if p.end != "return" or got is None or len(got) != k or any(order[i] != best or i not in sample for i in got):
                            bad.append((n, list(order), size, "%s selects %s; the best of the competitors %s has rank %d" % (p.end, got if got is not None else p.ret, sample, best)))
    ctx.check(not bad, "C11.R3", fn.key, "winner-is-best-competitor", "population of %s with objective ranks %s, tournament size %s: %s" % (bad[0] if bad else ("", "", "", "")), detail="%d scenarios" % cnt, loc=fn.loc())


def r4_fitness_pressure(ctx):
    F = ctx.facts
    C = SEL + "common::"
    FU = SEL + "functional::"
    for adt, params in ((C + "LinearRank", {}), (C + "ExponentialRank", {"base": [0.5, 0.9, 0.1]})):
        fn = F.method(adt, "select", SELT)
        fields = {F.field_index(adt, "num_selected"): 3}
        bad = []
        cnt = 0
        for base in params.get("base", [None]):
            if base is not None:
                fields[F.field_index(adt, "base")] = base
            for n in range(1, 5):
                for order in weak_orderings(n):
                    ranks = [r + 1 for r in order]
                    captured = []

                    def rr(interp, env, f, args, ranks=ranks):
                        from collmodel import new_vec
                        return new_vec(interp, ranks)

                    def spw(interp, env, f, args):
                        w = load(interp, env, args[1])
                        items = iter_vals(interp, env, w)
                        captured.append(items)
                        from collmodel import new_vec
                        return ok(new_vec(interp, []))
                    def wnew_(interp, env, f, args):
                        # the wheel built directly (`WeightedIndex::new(weights)` in the operator itself): the same weights
                        captured.append(iter_vals(interp, env, load(interp, env, args[0])))
                        return ok(Sym("wheel"))
                    cnt += 1
                    paths = run_select(F, fn, Sym("self", dict(fields)), n, order, {FU + "reverse_rank": rr, FU + "sample_population_weighted": spw,
                                                                                     "rand::distributions::weighted_index::WeightedIndex::new": wnew_})
                    if not captured or any(c is None for c in captured):
                        bad.append((ranks, base, "hands weights to the sampler that the analysis cannot read (%s)" % captured))
                        continue
                    w = captured[-1]
                    if len(w) != n or any(not isinstance(x, (int, float)) or isinstance(x, bool) or not (x > 0) for x in w):
                        bad.append((ranks, base, "uses weights %s (one positive weight per individual is required)" % (w,)))
                        continue
                    for i in range(n):
                        for j in range(n):
                            if ranks[i] < ranks[j] and w[i] < w[j]:
                                bad.append((ranks, base, "gives the better individual (rank %d) weight %s and the worse one (rank %d) weight %s" % (ranks[i], w[i], ranks[j], w[j])))
        ctx.check(not bad, "C11.R4", fn.key, "weights-never-favour-worse", "ranks %s%s: %s %s" % (bad[0][0] if bad else "", (", base %s" % bad[0][1]) if bad and bad[0][1] is not None else "", adt.split("::")[-1], bad[0][2] if bad else ""),
                  detail="%d rankings" % cnt, loc=fn.loc())
    # proportional weights
    fn = F.fn(FU + "proportional_weights")
    SO = "mahf::problems::objective::single::SingleObjective"
    IND = c07.IND
    grid = [[1.0, 2.0, 3.0], [3.0, 1.0], [-1.0, 0.0, 2.0], [-3.0, -5.0, -10.0, -2.0], [0.0, 0.0], [2.0, 2.0, 2.0], [5.0], [0.0, -0.0, 1.0], [1.0, float("inf")], [float("inf"), float("inf")], []]
    bad = []
    for vals in grid:
        for offset in (0.0, 0.5):
            for normalize in (False, True):
                pop = tuple(Agg("adt", IND, "Individual", [Sym("s:%d" % i), some(Agg("adt", SO, "SingleObjective", [v]))]) for i, v in enumerate(vals))
                it = install(Interp(fn.body, chain(coll_oracle, std_oracle), [Vec("cur", borrowed=True), offset, normalize], facts=F, inline=lambda k: INL(k) or k.startswith(FU) or k.startswith("mahf::utils::"), max_visits=12))
                it.init_state = {"heap": {"cur": pop}, "next_vec": 0}
                for p in it.run():
                    ctxs = (vals, offset, normalize)
                    if p.end != "return":
                        if not vals:
                            continue
                        bad.append(ctxs + ("does not return (%s)" % p.end,))
                        continue
                    r = p.ret
                    infinite = any(v == float("inf") for v in vals)
                    if infinite or not vals:
                        if not (isinstance(r, Agg) and r.variant == "None"):
                            bad.append(ctxs + ("yields %s (None is required for infinite or no objective values)" % (r,),))
                        continue
                    if not (isinstance(r, Agg) and r.variant == "Some" and isinstance(r.fields[0], Vec)):
                        bad.append(ctxs + ("yields %s" % (r,),))
                        continue
                    w = list(p.mstate["heap"].get(r.fields[0].vid, ()))
                    if len(w) != len(vals) or any(not isinstance(x, float) for x in w):
                        bad.append(ctxs + ("yields weights %s" % (w,),))
                        continue
                    for i in range(len(vals)):
                        for j in range(len(vals)):
                            if vals[i] < vals[j] and w[i] < w[j]:
                                bad.append(ctxs + ("gives objective %s weight %s but the worse objective %s weight %s" % (vals[i], w[i], vals[j], w[j]),))
                    if not normalize and any(x < offset for x in w) and len(set(vals)) > 1:
                        bad.append(ctxs + ("yields a weight below the offset: %s" % (w,),))
                    if any(not (x >= 0) for x in w) or not any(x > 0 for x in w):
                        bad.append(ctxs + ("yields weights that are not usable for sampling: %s" % (w,),))
    ctx.check(not bad, "C11.R4", fn.key, "proportional-weights-monotone", "objectives %s, offset %s, normalize %s: proportional_weights %s" % (bad[0] if bad else ("", "", "", "")), detail="%d objective vectors" % len(grid), loc=fn.loc())


def iter_vals(interp, env, w):
    """the values an iterable argument yields (a vector, a slice, an eager or a lazy iterator chain)"""
    from collmodel import iter_items
    its = iter_items(interp, env, w)
    if its is None:
        return None
    return [load(interp, env, x) for x in its]


def run(ctx):
    ctx.guard("C11.DRV", "operators execute through their driver", lambda: __import__("initspec").check_delegations(ctx, "C11", 10))
    ctx.guard("C11.R7", "dense ranks", lambda: r7_reverse_rank(ctx))
    ctx.guard("C11.R6", "`better` is the numeric order of the objective values (ties incl. -0.0 / +0.0 are ties)", lambda: __import__("c09").r3_total_order(ctx, "C11.R6"))
    ctx.guard("C11.K17", "constructor fidelity", lambda: __import__("ctor").check_for(ctx, "C11", 28))
    ctx.guard("C11.R1", "signature", lambda: r1_signature(ctx))
    ctx.guard("C11.R2", "driver", lambda: r2_driver(ctx))
    ctx.guard("C11.R3", "operators", lambda: r3_operators(ctx))
    ctx.guard("C11.R4", "fitness pressure", lambda: r4_fitness_pressure(ctx))
    ctx.guard("C11.R5", "sampling operators", lambda: r5_sampling_operators(ctx))


# ------------------------------------------------------------------ R5: the sampling and DE operators on numeric objectives

SO = "mahf::problems::objective::single::SingleObjective"


def num_pop(vals):
    return tuple(Agg("adt", c07.IND, "Individual", [Sym("s:%d" % i), some(Agg("adt", SO, "SingleObjective", [v]))]) for i, v in enumerate(vals))


def run_select_num(F, fn, me, vals, table, extra_inline=()):
    FU = SEL + "functional::"
    inl = lambda k: k not in (table or {}) and (INL(k) or k.startswith(FU) or k.startswith("mahf::utils::") or any(k.startswith(x) for x in extra_inline))
    it = install(Interp(fn.body, chain(mk_oracle(sample_oracle(table)), coll_oracle, std_oracle), [me, Vec("cur", borrowed=True), Sym("rng")], facts=F, inline=inl, max_visits=40))
    it.init_state = {"heap": {"cur": num_pop(vals)}, "next_vec": 0}
    return it.run()


def r5_sampling_operators(ctx):
    """K6 with exact objective values: every remaining operator returns references to source members only, in the
    documented number and group format, an error (not a panic) for the inputs documented as unusable, and the
    deterministic ones never give a worse individual more copies than a better one."""
    F = ctx.facts
    C = SEL + "common::"
    FU = SEL + "functional::"
    inf = float("inf")
    grids = [[1.0, 2.0, 3.0], [3.0, 1.0], [-1.0, 0.0, 2.0], [2.0, 2.0, 2.0], [5.0], [-3.0, -5.0, -10.0, -2.0]]
    total = 0

    def wheel_table(idx, captured):
        def wnew(interp, env, f, args):
            w = iter_vals(interp, env, load(interp, env, args[0]))
            captured.append(w)
            if w is None or any(not isinstance(x, (int, float)) or isinstance(x, bool) for x in w):
                return TOP
            if not w or any(not (x >= 0) for x in w) or not any(x > 0 for x in w):
                return err(Sym("WeightedError"))
            return ok(Sym("wheel", {"n": len(w)}))

        def siter(interp, env, f, args):
            return Agg("repeat", None, None, [idx])
        return {"rand::distributions::weighted_index::WeightedIndex::new": wnew, "rand::distributions::distribution::Distribution::sample_iter": siter,
                "rand::distributions::distribution::Distribution::sample": idx, "rand::rng::Rng::sample": idx,
                "rand::distributions::Distribution::sample_iter": siter}

    # ---- sample_population_weighted + the four weighted operators
    ops = [("RouletteWheel", {"offset": (0.0, 0.5)}), ("LinearRank", {}), ("ExponentialRank", {"base": (0.5,)})]
    for name, params in ops:
        adt = C + name
        fn = F.method(adt, "select", SELT)
        bad = []
        cnt = 0
        pname = next(iter(params), None)
        for pv in (params[pname] if pname else (None,)):
            for vals in grids + [[1.0, inf], [inf, inf]]:
                for k in (0, 1, 3):
                    for idx in range(len(vals)):
                        cnt += 1
                        fields = {F.field_index(adt, "num_selected"): k}
                        if pname:
                            fields[F.field_index(adt, pname)] = pv
                        captured = []
                        tab = wheel_table(idx, captured)
                        # dense ranks, 1 = lowest objective (reverse_rank is pinned by six unit tests and cross-checked in R4)
                        svals = sorted(set(vals))
                        tab[FU + "reverse_rank"] = lambda interp, env, f, args, vals=vals, svals=svals: __import__("collmodel").new_vec(interp, [svals.index(v) + 1 for v in vals])
                        for p in run_select_num(F, fn, Sym("self", fields), vals, tab):
                            got = picked(p)
                            where = (vals, k, "%s=%s, " % (pname, pv) if pname else "")
                            if p.end != "return":
                                bad.append(where + ("does not return (%s)" % p.end,))
                            elif name == "RouletteWheel" and any(v == inf for v in vals):
                                if not (isinstance(p.ret, Agg) and p.ret.variant == "Err"):
                                    bad.append(where + ("yields %s for infinite objective values (an error is documented)" % (p.ret,),))
                            elif got != [idx] * k:
                                bad.append(where + ("with the sampler drawing index %d yields %s, expected %d references to that member" % (idx, got if got is not None else p.ret, k),))
        total += cnt
        ctx.check(not bad, "C11.R5", fn.key, "requested-number-of-sampled-members", "objectives %s, %s requested, %s%s" % (bad[0] if bad else ("", "", "", "")), detail="%d scenarios" % cnt, loc=fn.loc())
    # ---- FullyRandom
    fn = F.method(C + "FullyRandom", "select", SELT)
    ni = F.field_index(C + "FullyRandom", "num_selected")
    bad = []
    for n in range(1, 4):
        for k in range(0, 4):
            for p in run_select(F, fn, Sym("self", {ni: k}), n):
                got = picked(p)
                if p.end != "return" or got is None or len(got) != k:
                    bad.append((n, k, "%s %s" % (p.end, got if got is not None else p.ret)))
    ctx.check(not bad, "C11.R5", fn.key, "n-members", "population of %s, %s requested: %s" % (bad[0] if bad else ("", "", "")), loc=fn.loc())
    # ---- stochastic universal sampling
    adt = C + "StochasticUniversalSampling"
    fn = F.method(adt, "select", SELT)
    bad = []
    cnt = 0
    for vals in grids:
        for offset in (0.0, 0.5):
            for k in (1, 2, 3, 5):
                for u in (0.25, 0.5, 0.999):
                    cnt += 1
                    me = Sym("self", {F.field_index(adt, "num_selected"): k, F.field_index(adt, "offset"): offset})
                    for p in run_select_num(F, fn, me, vals, {"rand::rng::Rng::gen": u}):
                        got = picked(p)
                        where = (vals, offset, k, u)
                        if p.end != "return" or got is None:
                            bad.append(where + ("%s %s" % (p.end, p.ret),))
                            continue
                        if len(got) != k:
                            bad.append(where + ("selects %d members %s" % (len(got), got),))
                            continue
                        cnts = [got.count(i) for i in range(len(vals))]
                        for i in range(len(vals)):
                            for j in range(len(vals)):
                                if vals[i] < vals[j] and cnts[i] + 1 < cnts[j]:
                                    bad.append(where + ("selects the better objective %s %d times and the worse %s %d times" % (vals[i], cnts[i], vals[j], cnts[j]),))
    total += cnt
    ctx.check(not bad, "C11.R5", fn.key, "n-members-proportional", "objectives %s, offset %s, %s requested, start draw %s: %s" % (bad[0] if bad else ("", "", "", "", "")), detail="%d scenarios" % cnt, loc=fn.loc())
    # infinite objectives are an error
    bad = []
    for vals in ([1.0, inf], [inf]):
        me = Sym("self", {F.field_index(adt, "num_selected"): 2, F.field_index(adt, "offset"): 0.0})
        for p in run_select_num(F, fn, me, vals, {"rand::rng::Rng::gen": 0.5}):
            if p.end != "return" or not (isinstance(p.ret, Agg) and p.ret.variant == "Err"):
                bad.append((vals, "%s %s" % (p.end, p.ret)))
    ctx.check(not bad, "C11.R5", fn.key, "infinite-objectives-are-errors", "objectives %s: %s" % (bad[0] if bad else ("", "")), loc=fn.loc())
    # ---- deterministic fitness proportional (IWO)
    adt = SEL + "iwo::DeterministicFitnessProportional"
    fn = F.method(adt, "select", SELT)
    bad = []
    cnt = 0
    for vals in grids + [[0.0, 10.0, 5.0, 2.5]]:
        for lo, hi in ((0, 0), (1, 1), (0, 4), (1, 3), (2, 5)):
            cnt += 1
            me = Sym("self", {F.field_index(adt, "min_selected"): lo, F.field_index(adt, "max_selected"): hi})
            for p in run_select_num(F, fn, me, vals, {}):
                got = picked(p)
                where = (vals, lo, hi)
                if p.end != "return" or got is None:
                    bad.append(where + ("%s %s" % (p.end, p.ret),))
                    continue
                cnts = [got.count(i) for i in range(len(vals))]
                if got != sorted(got):
                    bad.append(where + ("does not keep the population order: %s" % got,))
                if any(not (lo <= c <= hi) for c in cnts):
                    bad.append(where + ("selects members %s times" % cnts,))
                if len(set(vals)) > 1:
                    b, w = vals.index(min(vals)), vals.index(max(vals))
                    if cnts[b] != hi or cnts[w] != lo:
                        bad.append(where + ("selects the best %d and the worst %d times" % (cnts[b], cnts[w]),))
                for i in range(len(vals)):
                    for j in range(len(vals)):
                        if vals[i] < vals[j] and cnts[i] < cnts[j]:
                            bad.append(where + ("selects the better objective %s %d times and the worse %s %d times" % (vals[i], cnts[i], vals[j], cnts[j]),))
    for vals in ([1.0, inf], [inf, inf]):
        me = Sym("self", {F.field_index(adt, "min_selected"): 1, F.field_index(adt, "max_selected"): 3})
        for p in run_select_num(F, fn, me, vals, {}):
            if p.end != "return" or not (isinstance(p.ret, Agg) and p.ret.variant == "Err"):
                bad.append((vals, 1, 3, "yields %s %s for infinite objective values (an error is documented)" % (p.end, p.ret)))
    total += cnt
    ctx.check(not bad, "C11.R5", fn.key, "copies-interpolate-between-min-and-max", "objectives %s, min %s, max %s: %s" % (bad[0] if bad else ("", "", "", "")), detail="%d scenarios" % cnt, loc=fn.loc())
    # ---- DE selections: group format
    D = SEL + "de::"
    for name, head, rnd in (("DERand", [], lambda y: 2 * y + 1), ("DEBest", ["best"], lambda y: 2 * y), ("DECurrentToBest", ["current", "best"], lambda y: 2 * y - 1)):
        adt = D + name
        fn = F.method(adt, "select", SELT)
        bad = []
        cnt = 0
        for y in (1, 2):
            for vals in ([3.0, 1.0, 2.0, 5.0, 4.0, 0.5], [1.0, 1.0, 2.0, 3.0, 4.0, 5.0, 6.0]):
                cnt += 1
                n = len(vals)
                me = Sym("self", {F.field_index(adt, "y"): y})
                for p in run_select_num(F, fn, me, vals, {}):
                    got = picked(p)
                    where = (vals, y)
                    g = 2 * y + 1
                    if p.end != "return" or got is None:
                        bad.append(where + ("%s %s" % (p.end, p.ret),))
                        continue
                    if len(got) != n * g:
                        bad.append(where + ("yields %d references, expected %d groups of %d" % (len(got), n, g),))
                        continue
                    best = min(range(n), key=lambda i: vals[i])
                    for gi in range(n):
                        grp = got[gi * g:(gi + 1) * g]
                        exp_head = [{"best": best, "current": gi}[h] for h in head]
                        if [vals[i] for i in grp[:len(head)]] != [vals[i] for i in exp_head] or ("current" in head and grp[0] != gi):
                            bad.append(where + ("group %d starts with members %s, expected %s (%s)" % (gi, grp[:len(head)], exp_head, "/".join(head)),))
                        tail = grp[len(head):]
                        if len(set(tail)) != len(tail) or len(tail) != rnd(y):
                            bad.append(where + ("group %d samples %s, expected %d distinct members" % (gi, tail, rnd(y)),))
                        if "current" in head and gi in tail:
                            bad.append(where + ("group %d samples the current individual again: %s" % (gi, grp),))
        total += cnt
        ctx.check(not bad, "C11.R5", fn.key, "de-group-format", "objectives %s, y=%s: %s" % (bad[0] if bad else ("", "", "")), detail="%d scenarios" % cnt, loc=fn.loc())
    ctx.count("sampling_operator_scenarios", total)


def r7_reverse_rank(ctx):
    """K6 (itertools' sorted_by_key / group_by modelled): reverse_rank over every weak ordering of up to 4 objective values
    (ties included) returns, per individual in population order, its DENSE rank: 1 for the lowest value, equal values equal
    ranks, the next distinct value the next rank - what the rank-based operators (R4 / R5 answer it from this table) rely on."""
    from orderings import weak_orderings
    F = ctx.facts
    fn = F.fn(SEL + "functional::reverse_rank")
    SO = "mahf::problems::objective::single::SingleObjective"
    bad = []
    n = 0
    for size in range(0, 5):
        for order in (weak_orderings(size) if size else [()]):
            vals = [float(3 * r - 4) for r in order]
            pop = tuple(Agg("adt", c07.IND, "Individual", [Sym("s%d" % i), some(Agg("adt", SO, "SingleObjective", [v]))]) for i, v in enumerate(vals))
            it = install(Interp(fn.body, chain(coll_oracle, std_oracle), [Vec("pop", borrowed=True)], facts=F, inline=INL, max_visits=40))
            it.init_state = {"heap": {"pop": pop}, "next_vec": 0}
            n += 1
            sv = sorted(set(vals))
            want = [sv.index(v) + 1 for v in vals]
            for p in it.run():
                got = list(p.mstate["heap"].get(p.ret.vid, ())) if p.end == "return" and isinstance(p.ret, Vec) else None
                if got != want:
                    bad.append((vals, "yields %s, expected the dense ranks %s" % (got if got is not None else (p.end, str(p.ret)), want)))
    ctx.check(not bad, "C11.R7", fn.key, "dense-ranks-lowest-first", "objective values %s: reverse_rank %s" % (bad[0] if bad else ("", "")), detail="%d orderings" % n, loc=fn.loc())
    ctx.count("rank_scenarios", n)
