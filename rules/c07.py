"""C07 — best-so-far and elitist memories only improve and hold the true best."""
from core import expr_str, strip, subexprs, callee_keys, AnchorMissing
from kinds import all_places, origin
from absint import Interp, Sym, Agg, Ref, HRef, TOP, some, NONE, std_oracle, chain
from collmodel import coll_oracle, Vec, new_vec, heap_get, load, install
from orderings import weak_orderings

EXPLANATION = (
    "Objective values are touched only through comparisons, so the memories are decided by finite-domain abstract "
    "interpretation (K6) over every weak ordering of the objective values involved: (R1) BestIndividual::update from "
    "{empty, holding c} with a candidate k in all three orderings k<c, k=c, k>c: replaced iff strictly better, set when "
    "empty, return value mirrors it, nothing else written; (R2) population.best_individual() over every weak ordering "
    "of populations of size 0..3 returns a member of minimal objective (None iff empty), and BestIndividualUpdate feeds "
    "exactly best_individual() of the CURRENT population to update(); (R3) nobody else writes BestIndividual's inner "
    "value (field writes and DerefMut uses are enumerated crate-wide); (R5) ElitistArchive::update over every weak "
    "ordering of archive (<=2) + population (<=2) and every capacity 0..3 leaves exactly the k best of everything "
    "shown; ElitistArchiveIntoPopulation appends exactly the elitists not already present (equality on solution and "
    "objective), each exactly once, in all presence patterns and for every repetition pattern of up to 3 elitists (an archive may hold equal individuals). (R4) template-level placement of the best-update is checked with the "
    "template interpreter (see C16). (INIT) init() evaluated with every field of self a distinct symbol inserts exactly the state types of a reviewed table, under the component's own instantiation, each built from exactly the documented field or empty / zero. (R7) two individuals are equal iff solution and objective are equal (what `already there` rests on). NOT decided: `reported best = minimum the objective returned during a run` as a "
    "number over whole runs.")
ASSUMPTIONS = ["sort_unstable_by_key / min_by_key behave as documented"]

IND = "mahf::problems::individual::Individual"
BEST = "mahf::state::common::BestIndividual"
ARCH = "mahf::components::archive::ElitistArchive"


def ind(i, obj_tag=None, sol_tag=None):
    return Agg("adt", IND, "Individual", [Sym("s:%s" % (sol_tag if sol_tag is not None else i)), some(Sym("o:%s" % (obj_tag if obj_tag is not None else i)))])


def otag(v):
    if isinstance(v, Agg) and v.name == IND and isinstance(v.fields[1], Agg) and v.fields[1].variant == "Some":
        return v.fields[1].fields[0].tag
    return None


INLINE = lambda k: k.startswith("mahf::problems::individual::") or k.startswith("<mahf::problems::individual::") or \
    k.startswith("mahf::state::common::BestIndividual") or k.startswith("<mahf::state::common::BestIndividual") or \
    k.startswith("mahf::components::archive::") or k.startswith("mahf::population::") or "as mahf::population::" in k or \
    k.startswith("mahf::problems::objective::") or k.startswith("<mahf::problems::objective::")


def r1_update(ctx):
    F = ctx.facts
    fn = F.fn(BEST + "::update")
    bad = []
    n = 0
    for cur in ("empty", "lt", "eq", "gt"):
        home = 10000
        ranks = {"o:c": 1, "o:k": {"lt": 0, "eq": 1, "gt": 2, "empty": 0}[cur]}
        current = NONE if cur == "empty" else some(ind("c"))
        cand = ind("k")
        it = Interp(fn.body, chain(coll_oracle, std_oracle), [Ref(home, [], frame="root"), cand], facts=F, inline=INLINE)
        it.extra_env = {home: Agg("adt", BEST, "BestIndividual", [current])}
        it.init_state = {"rank": ranks}
        paths = it.run()
        n += 1
        for p in paths:
            if p.end != "return":
                bad.append((cur, "does not return (%s)" % p.end))
                continue
            after = p.env.get(home)
            held = after.fields[0] if isinstance(after, Agg) else None
            tag = otag(held.fields[0]) if isinstance(held, Agg) and held.variant == "Some" else None
            want_tag, want_ret = {"empty": ("o:k", True), "lt": ("o:k", True), "eq": ("o:c", False), "gt": ("o:c", False)}[cur]
            if tag != want_tag or p.ret is not want_ret:
                bad.append((cur, "keeps %s and returns %s; expected to keep %s and return %s" % (tag, p.ret, want_tag, want_ret)))
            elif tag == "o:k" and held.fields[0].fields[0] != cand.fields[0]:
                bad.append((cur, "stores objective of the candidate with another solution"))
    names = {"empty": "no best yet", "lt": "candidate strictly better", "eq": "candidate equal to the best", "gt": "candidate worse"}
    ctx.check(not bad, "C07.R1", fn.key, "replace-iff-strictly-better", "with %s: update %s" % (names[bad[0][0]] if bad else "", bad[0][1] if bad else ""), detail="4 scenarios", loc=fn.loc())
    ctx.count("update_scenarios", n)


def r2_best_of_population(ctx):
    F = ctx.facts
    fns = [f for f in F.all_fns if f.key.endswith("as mahf::population::BestIndividual>::best_individual")]
    if not ctx.check(len(fns) == 1, "C07.R2", "best_individual", "anchor", "blanket impl of population::BestIndividual not found", kind="anchor-missing"):
        return
    fn = fns[0]
    bad = []
    n = 0
    for size in range(0, 5 if ctx.tier == "thorough" else 4):
        for order in (weak_orderings(size) if size else [()]):
            it = Interp(fn.body, chain(coll_oracle, std_oracle), [TOP], facts=F, inline=INLINE)
            it.init_state = {"rank": {"o:%d" % i: r for i, r in enumerate(order)}, "heap": {"v0": tuple(ind(i) for i in range(size))}, "next_vec": 1}
            it.args = [Vec("v0")]
            n += 1
            for p in it.run():
                if p.end != "return":
                    bad.append((order, "does not return (%s)" % p.end))
                    continue
                r = p.ret
                if size == 0:
                    if not (isinstance(r, Agg) and r.variant == "None"):
                        bad.append((order, "returns %s for an empty population" % (r,)))
                    continue
                got = None
                if isinstance(r, Agg) and r.variant == "Some":
                    x = r.fields[0]
                    if isinstance(x, HRef) and x.vid == "v0":
                        got = x.idx
                if got is None or order[got] != min(order):
                    bad.append((order, "returns %s; a member of minimal objective is one of %s" % (r, [i for i in range(size) if order[i] == min(order)])))
    ctx.check(not bad, "C07.R2", fn.key, "member-of-minimal-objective", "population with objective ranks %s: best_individual %s" % (bad[0][0] if bad else "", bad[0][1] if bad else ""),
              detail="%d weak orderings of populations of size 0..3" % n, loc=fn.loc())
    ctx.count("best_of_population_scenarios", n)
    # the update component feeds best_individual() of the current population
    up = F.method("mahf::components::evaluation::BestIndividualUpdate", "execute", "mahf::components::Component")
    calls = [(b, t) for b, t in up.body.calls() if t["f"].get("key") == BEST + "::update"]
    good = len(calls) == 1
    why = ""
    if good:
        e = up.body.expr_of_op(calls[0][1]["args"][1])
        leaf, cs, _ = origin(e)
        why = str(cs)
        names = [c for c in cs if c not in ("deref", "deref_mut", "unwrap", "expect", "as_ref")]
        good = names[:3] == ["best_individual", "current", "populations"] and leaf == ("arg", 3)
        recv = up.body.expr_of_op(calls[0][1]["args"][0])
        l2, cs2, _ = origin(recv)
        good = good and any(c in ("borrow_mut", "try_borrow_mut") for c in cs2)
    ctx.check(good, "C07.R2", up.key, "feeds-best-of-current-population", "BestIndividual::update is not fed with current().best_individual() of the state's population stack (%s)" % why, detail=why, loc=up.loc())
    # and only when the population is non-empty it may skip
    ini = F.method("mahf::components::evaluation::BestIndividualUpdate", "init", "mahf::components::Component")
    ins = [t["f"].get("gargs") for b, t in ini.body.calls() if t["f"].get("key") == "mahf::state::registry::StateRegistry::insert"]
    ctx.check(ins == [[BEST + "<P>"]], "C07.R2", ini.key, "init-inserts-empty-best", "init inserts %s" % ins, loc=ini.loc())


def r3_only_update_writes(ctx):
    F = ctx.facts
    n = 0
    for f in F.all_fns:
        for (bb, pl, c, line) in all_places(f.body, normal_only=False):
            for i, e in enumerate(pl[1]):
                if isinstance(e, list) and e[0] == "f" and len(e) > 3 and e[3] == BEST:
                    n += 1
                    if c in ("write", "refmut", "rawptr"):
                        inside = f.key in (BEST + "::update", BEST + "::new") or (f.impl_self_adt == BEST and f.from_expansion)
                        ctx.check(inside, "C07.R3", f.key, "inner:%s" % c, "the inner value of BestIndividual is %s outside update()/new()" % c, loc=f.loc(line))
                    break
    ctx.floor("C07.R3", "projections of BestIndividual's inner value", n, 2)
    users = [(f, t) for (f, bb, t) in F.callers_of(lambda c: c.get("name") == "deref_mut" and (c.get("self_ty") or "").startswith(BEST + "<"))]
    ctx.check(not users, "C07.R3", BEST, "deref_mut-users", "BestIndividual is mutated through DerefMut in %s" % sorted({f.key for f, t in users}))
    users = F.callers_of(lambda c: c.get("key") in ("mahf::state::registry::StateRegistry::set_value", "mahf::state::registry::StateRegistry::borrow_value_mut", "mahf::state::registry::StateRegistry::try_borrow_value_mut")
                         and (c.get("gargs") or [""])[0].startswith(BEST + "<"))
    ctx.check(not users, "C07.R3", BEST, "value-mut-users", "BestIndividual's inner value is overwritten through the registry's value accessors in %s" % sorted({f.key for f, b, t in users}))


def r5_archive(ctx):
    F = ctx.facts
    fn = F.fn(ARCH + "::update")
    bad = []
    n = 0
    NA = 4 if ctx.tier == "thorough" else 3
    for na in range(0, NA):
        for npop in range(0, 3):
            for order in (weak_orderings(na + npop) if na + npop else [()]):
                for cap in range(0, NA + 1):
                    home = 10000
                    it = Interp(fn.body, chain(coll_oracle, std_oracle), [Ref(home, [], frame="root"), Vec("pop"), cap], facts=F, inline=INLINE)
                    it.extra_env = {home: Agg("adt", ARCH, "ElitistArchive", [Vec("arch")])}
                    # the archive content is whatever earlier updates left: sorted by objective
                    arch_idx = sorted(range(na), key=lambda i: order[i])
                    it.init_state = {"rank": {"o:%d" % i: r for i, r in enumerate(order)}, "next_vec": 0,
                                     "heap": {"arch": tuple(ind(i) for i in arch_idx), "pop": tuple(ind(na + j) for j in range(npop))}}
                    n += 1
                    for p in it.run():
                        if p.end != "return":
                            bad.append((na, npop, order, cap, "does not return (%s)" % p.end))
                            continue
                        after = p.mstate["heap"].get("arch", ())
                        got = sorted(order[int(otag(x)[2:])] for x in after if otag(x))
                        want = sorted(order)[:cap]
                        if got != want or len(after) != len(want):
                            bad.append((na, npop, order, cap, "keeps objective ranks %s; the %d best of everything shown are %s" % (got, cap, want)))
                        popafter = p.mstate["heap"].get("pop", ())
                        if len(popafter) != npop:
                            bad.append((na, npop, order, cap, "changes the population it was shown"))
    ctx.check(not bad, "C07.R5", fn.key, "k-best-of-everything-shown",
              "archive of %s + population of %s with objective ranks %s, capacity %s: update %s" % (bad[0] if bad else ("", "", "", "", "")), detail="%d scenarios" % n, loc=fn.loc())
    ctx.count("archive_update_scenarios", n)
    # re-insertion
    comp = F.method("mahf::components::archive::ElitistArchiveIntoPopulation", "execute", "mahf::components::Component")
    bad = []
    m = 0
    import itertools
    # the archive may hold equal individuals (its update extends from a population that contains re-inserted elitists):
    # elitist lists over 0..3 entries with every repetition pattern
    elit_lists = sorted({tuple(ids) for n_ in range(0, 4) for ids in itertools.product(range(n_), repeat=n_) if list(ids) == sorted(ids) and set(ids) == set(range(len(set(ids))))})
    for ids in elit_lists:
        ne = len(set(ids))
        for npop in range(0, 3):
            # presence pattern: which elitists are already in the population (identical solution+objective)
            for present in range(0, 1 << ne):
                pres = [i for i in range(ne) if present >> i & 1]
                if len(pres) > npop:
                    continue
                elit = [ind("e%d" % i) for i in ids]
                pop = [ind("e%d" % i) for i in pres] + [ind("p%d" % j) for j in range(npop - len(pres))]
                ranks = {}
                for i in range(ne):
                    ranks["o:e%d" % i] = i
                for j in range(npop):
                    ranks["o:p%d" % j] = 10 + j
                arch_home = 10000
                popsym = Sym("populations")

                def oracle(interp, env, f, args, t, bb, path):
                    k = f.get("key", "")
                    ga = f.get("gargs") or [""]
                    if k in ("mahf::state::registry::StateRegistry::borrow", "mahf::state::registry::StateRegistry::borrow_mut") and ga[0].startswith(ARCH):
                        return Ref(arch_home, [], frame="root")
                    if k in ("mahf::state::State::populations_mut", "mahf::state::State::populations"):
                        return popsym
                    if k in ("mahf::state::common::Populations::current_mut", "mahf::state::common::Populations::current"):
                        return Vec("pop")
                    return TOP
                it = Interp(comp.body, chain(oracle, coll_oracle, std_oracle), [Sym("self"), Sym("problem"), Sym("state")], facts=F, inline=INLINE)
                it.extra_env = {arch_home: Agg("adt", ARCH, "ElitistArchive", [Vec("arch")])}
                it.init_state = {"rank": ranks, "heap": {"arch": tuple(elit), "pop": tuple(pop)}, "next_vec": 0}
                m += 1
                for p in it.run():
                    if p.end != "return":
                        bad.append((list(ids), npop, pres, "does not return (%s)" % p.end))
                        continue
                    after = [otag(x) for x in p.mstate["heap"].get("pop", ())]
                    want = [otag(x) for x in pop] + ["o:e%d" % i for i in range(ne) if i not in pres]
                    if sorted(after) != sorted(want) or after[:len(pop)] != [otag(x) for x in pop]:
                        bad.append((list(ids), npop, pres, "leaves %s; expected the population plus each absent elitist exactly once: %s" % (after, want)))
                    if [otag(x) for x in p.mstate["heap"].get("arch", ())] != [otag(x) for x in elit]:
                        bad.append((list(ids), npop, pres, "changes the archive"))
    ctx.check(not bad, "C07.R5", comp.key, "reinsert-without-duplicates",
              "archive holding elitists %s (equal numbers = equal individuals), population of %s of which elitists %s are already members: re-insertion %s" % (bad[0] if bad else ("", "", "", "")), detail="%d presence patterns" % m, loc=comp.loc())
    ctx.count("archive_reinsertion_scenarios", m)
    r7_individual_equality(ctx, "C07.R5")
    # the update component shows the current population with its own capacity
    up = F.method("mahf::components::archive::ElitistArchiveUpdate", "execute", "mahf::components::Component")
    calls = [(b, t) for b, t in up.body.calls() if t["f"].get("key") == ARCH + "::update"]
    good = len(calls) == 1
    if good:
        t = calls[0][1]
        l1, c1, _ = origin(up.body.expr_of_op(t["args"][1]))
        l2, c2, f2 = origin(up.body.expr_of_op(t["args"][2]))
        names = [c for c in c1 if c not in ("deref", "deref_mut")]
        good = names[:2] == ["current", "populations"] and l2 == ("arg", 1) and f2 == [F.field_index("mahf::components::archive::ElitistArchiveUpdate", "num_elitists")]
    ctx.check(good, "C07.R5", up.key, "shows-current-population", "the archive is not updated from the current population with the component's capacity", loc=up.loc())



def r7_individual_equality(ctx, rule="C07.R7"):
    """two individuals are equal iff solution AND objective are equal (the equality `already there` / `the selected
    molecule` / `contains` rest on)"""
    F = ctx.facts
    # the equality that `already there` rests on: two individuals are equal iff solution AND objective are equal
    eqs = F.fns.get("<%s as core::cmp::PartialEq>::eq" % IND, [])
    bad = []
    for fe in eqs[:1]:
        for sa, sb in (("x", "x"), ("x", "y")):
            for oa, ob in (("1", "1"), ("1", "2"), ("1", None), (None, None)):
                a = Agg("adt", IND, "Individual", [Sym("s:" + sa), some(Sym("o:" + oa)) if oa else NONE])
                b = Agg("adt", IND, "Individual", [Sym("s:" + sb), some(Sym("o:" + ob)) if ob else NONE])
                it = install(Interp(fe.body, chain(coll_oracle, std_oracle), [Ref(10001, [], frame="root"), Ref(10002, [], frame="root")], facts=F, inline=INLINE, max_visits=6))
                it.extra_env = {10001: a, 10002: b}
                it.init_state = {"rank": {"o:1": 1, "o:2": 2}, "heap": {}, "next_vec": 0}
                want = sa == sb and oa == ob
                for p in it.run():
                    if p.end != "return" or p.ret is not want:
                        bad.append(("%s/%s vs %s/%s" % (sa, oa, sb, ob), "yields %s, expected %s" % (p.ret if p.end == "return" else p.end, want)))
    ctx.check(len(eqs) == 1 and not bad, rule, IND, "equality-is-solution-and-objective", "individuals (solution/objective) %s: == %s" % (bad[0] if bad else ("", "no single PartialEq impl")), loc=eqs[0].loc() if eqs else None)


def r4_templates(ctx):
    """every evaluation is shown to the best-update before its values are overwritten, merged away or the run ends"""
    import c16
    sums, fns, res, entered = c16.analyse_templates(ctx)
    n = 0
    for (fn, tree, full, w, final) in res:
        if not full or w is None:
            continue
        n += 1
        seen = set()
        for (rule, inst, msg) in w.findings:
            if rule != "C07.R4" or inst in seen:
                continue
            seen.add(inst)
            ctx.violation("C07.R4", fn.key, inst, msg, loc=fn.loc())
        # at the end of the run nothing evaluated may be unreported
        for st in (final or {}).values():
            for sl in st:
                if sl.evaluated and not sl.reported and ("end", sl.origin) not in seen:
                    seen.add(("end", sl.origin))
                    ctx.violation("C07.R4", fn.key, "end<-%s" % (sl.origin or "?").split("@")[0], "the run can end with objective values (evaluated by %s) that no best-individual update has seen" % sl.origin, loc=fn.loc())
        if not seen:
            ctx.ok("C07.R4", fn.key, "every-evaluation-reaches-best-update", "excepted: %s" % sorted(w.excepted) if w.excepted else "")
    ctx.floor("C07.R4", "complete templates analysed", n, 18)


def run(ctx):
    ctx.guard("C07.R6", "`better` is the numeric order of the objective values (ties incl. -0.0 / +0.0 are ties)", lambda: __import__("c09").r3_total_order(ctx, "C07.R6"))
    ctx.guard("C07.REQ", "requirements are checked", lambda: __import__("initspec").check_requires(ctx, "C07"))
    ctx.guard("C07.INIT", "init installs the configured state", lambda: __import__("initspec").check_for(ctx, "C07"))
    ctx.guard("C07.K17", "constructor fidelity", lambda: __import__("ctor").check_for(ctx, "C07", 5))
    ctx.guard("C07.R4", "templates", lambda: r4_templates(ctx))
    ctx.guard("C07.R1", "BestIndividual::update", lambda: r1_update(ctx))
    ctx.guard("C07.R2", "best of population", lambda: r2_best_of_population(ctx))
    ctx.guard("C07.R3", "writers", lambda: r3_only_update_writes(ctx))
    ctx.guard("C07.R5", "elitist archive", lambda: r5_archive(ctx))
