"""C07 — best-so-far and elitist memories only improve and hold the true best."""
from core import expr_str, strip, subexprs, callee_keys, AnchorMissing
from kinds import all_places, origin
from absint import Interp, Sym, Agg, Ref, HRef, TOP, some, NONE, std_oracle, chain
from collmodel import coll_oracle, Vec, new_vec, heap_get, load, install
from orderings import weak_orderings

EXPLANATION = (
    "Objective values are touched only through comparisons, so the memories are decided by finite-domain abstract "
    "interpretation (K6) over every weak ordering of the objective values involved: (R1) BestIndividual::update from "
    "{empty, holding c} with a candidate k in all three orderings k<c, k=c, k>c: replaced iff strictly better, set when "
    "empty, return value mirrors it, nothing else written; (R2) population.best_individual() over every weak ordering "
    "of populations of size 0..3 returns a member of minimal objective (None iff empty), and BestIndividualUpdate feeds "
    "exactly best_individual() of the CURRENT population to update(); (R3) nobody else writes BestIndividual's inner "
    "value (field writes and DerefMut uses are enumerated crate-wide); (R5) ElitistArchive::update over every weak "
    "ordering of archive (<=2) + population (<=2) and every capacity 0..3 leaves exactly the k best of everything "
    "shown; ElitistArchiveIntoPopulation appends exactly the elitists not already present (equality on solution and "
    "objective), each exactly once, in all presence patterns and for every repetition pattern of up to 3 elitists (an archive may hold equal individuals). (R4) template-level placement of the best-update is checked with the "
    "template interpreter (see C16). (INIT) init() evaluated with every field of self a distinct symbol inserts exactly the state types of a reviewed table, under the component's own instantiation, each built from exactly the documented field or empty / zero. (R7) two individuals are equal iff solution and objective are equal (what `already there` rests on). NOT decided: `reported best = minimum the objective returned during a run` as a "
    "number over whole runs.")
EXPLANATION += " " + '(R2/R5 revised) BestIndividualUpdate / ElitistArchiveUpdate / ElitistArchiveIntoPopulation run on the real population stack (a better individual sits in the population underneath) with their state as cells of the typed store: the recorded best / the archive afterwards is what the CURRENT population prescribes.'
ASSUMPTIONS = ["sort_unstable_by_key / min_by_key behave as documented"]

IND = "mahf::problems::individual::Individual"
BEST = "mahf::state::common::BestIndividual"
ARCH = "mahf::components::archive::ElitistArchive"


def ind(i, obj_tag=None, sol_tag=None):
    return Agg("adt", IND, "Individual", [Sym("s:%s" % (sol_tag if sol_tag is not None else i)), some(Sym("o:%s" % (obj_tag if obj_tag is not None else i)))])


def otag(v):
    if isinstance(v, Agg) and v.name == IND and isinstance(v.fields[1], Agg) and v.fields[1].variant == "Some":
        return v.fields[1].fields[0].tag
    return None


INLINE = lambda k: k.startswith("mahf::problems::individual::") or k.startswith("<mahf::problems::individual::") or \
    k.startswith("mahf::state::common::BestIndividual") or k.startswith("<mahf::state::common::BestIndividual") or \
    k.startswith("mahf::components::archive::") or k.startswith("mahf::population::") or "as mahf::population::" in k or \
    k.startswith("mahf::problems::objective::") or k.startswith("<mahf::problems::objective::")


def r1_update(ctx):
    F = ctx.facts
    fn = F.fn(BEST + "::update")
    bad = []
    n = 0
    for cur in ("empty", "empty-inf", "lt", "eq", "gt", "eq-inf"):
        home = 10000
        # (`-inf` variants: the candidate's objective value is +infinity - an infeasible individual is still the best seen so
        # far when nothing better was seen, and a tie at infinity is a tie)
        ranks = {"o:c": float("inf") if cur == "eq-inf" else 1, "o:k": {"lt": 0, "eq": 1, "gt": 2, "empty": 0, "empty-inf": float("inf"), "eq-inf": float("inf")}[cur]}
        current = NONE if cur.startswith("empty") else some(ind("c"))
        cand = ind("k")
        it = Interp(fn.body, chain(coll_oracle, std_oracle), [Ref(home, [], frame="root"), cand], facts=F, inline=INLINE)
        it.extra_env = {home: Agg("adt", BEST, "BestIndividual", [current])}
        it.init_state = {"rank": ranks}
        paths = it.run()
        n += 1
        for p in paths:
            if p.end != "return":
                bad.append((cur, "does not return (%s)" % p.end))
                continue
            after = p.env.get(home)
            held = after.fields[0] if isinstance(after, Agg) else None
            tag = otag(held.fields[0]) if isinstance(held, Agg) and held.variant == "Some" else None
            want_tag, want_ret = {"empty": ("o:k", True), "empty-inf": ("o:k", True), "lt": ("o:k", True), "eq": ("o:c", False), "gt": ("o:c", False), "eq-inf": ("o:c", False)}[cur]
            if tag != want_tag or p.ret is not want_ret:
                bad.append((cur, "keeps %s and returns %s; expected to keep %s and return %s" % (tag, p.ret, want_tag, want_ret)))
            elif tag == "o:k" and held.fields[0].fields[0] != cand.fields[0]:
                bad.append((cur, "stores objective of the candidate with another solution"))
    names = {"empty": "no best yet", "empty-inf": "no best yet, candidate with objective +inf", "lt": "candidate strictly better", "eq": "candidate equal to the best", "gt": "candidate worse", "eq-inf": "candidate and best both +inf"}
    ctx.check(not bad, "C07.R1", fn.key, "replace-iff-strictly-better", "with %s: update %s" % (names[bad[0][0]] if bad else "", bad[0][1] if bad else ""), detail="6 scenarios", loc=fn.loc())
    ctx.count("update_scenarios", n)


def r2_best_of_population(ctx):
    F = ctx.facts
    fns = [f for f in F.all_fns if f.key.endswith("as mahf::population::BestIndividual>::best_individual")]
    if not ctx.check(len(fns) == 1, "C07.R2", "best_individual", "anchor", "blanket impl of population::BestIndividual not found", kind="anchor-missing"):
        return
    fn = fns[0]
    bad = []
    n = 0
    for size in range(0, 5 if ctx.tier == "thorough" else 4):
        for order in (weak_orderings(size) if size else [()]):
            it = Interp(fn.body, chain(coll_oracle, std_oracle), [TOP], facts=F, inline=INLINE)
            it.init_state = {"rank": {"o:%d" % i: r for i, r in enumerate(order)}, "heap": {"v0": tuple(ind(i) for i in range(size))}, "next_vec": 1}
            it.args = [Vec("v0")]
            n += 1
            for p in it.run():
                if p.end != "return":
                    bad.append((order, "does not return (%s)" % p.end))
                    continue
                r = p.ret
                if size == 0:
                    if not (isinstance(r, Agg) and r.variant == "None"):
                        bad.append((order, "returns %s for an empty population" % (r,)))
                    continue
                got = None
                if isinstance(r, Agg) and r.variant == "Some":
                    x = r.fields[0]
                    if isinstance(x, HRef) and x.vid == "v0":
                        got = x.idx
                if got is None or order[got] != min(order):
                    bad.append((order, "returns %s; a member of minimal objective is one of %s" % (r, [i for i in range(size) if order[i] == min(order)])))
    ctx.check(not bad, "C07.R2", fn.key, "member-of-minimal-objective", "population with objective ranks %s: best_individual %s" % (bad[0][0] if bad else "", bad[0][1] if bad else ""),
              detail="%d weak orderings of populations of size 0..3" % n, loc=fn.loc())
    ctx.count("best_of_population_scenarios", n)
    # the update component, on the real population stack (a second population underneath) and the typed store: afterwards
    # the state's BestIndividual is the old one unless a member of the CURRENT (top) population is strictly better, then a
    # best member of it; an empty population changes nothing; the populations are untouched
    import statemodel
    from c04 import StackModel
    from collmodel import install
    up = F.method("mahf::components::evaluation::BestIndividualUpdate", "execute", "mahf::components::Component")
    POP = "mahf::state::common::Populations"
    sf = F.field_index(POP, "stack")
    bad = []
    n2 = 0
    for has_best in (False, True):
        for size in range(0, 3):
            k = size + (1 if has_best else 0)
            for order in (weak_orderings(k) if k else [()]):
                cellv = Agg("adt", BEST, "BestIndividual", [some(ind(size)) if has_best else NONE])
                store = statemodel.Store(F, levels=1, auto=lambda ty, cellv=cellv: {0: cellv} if ty.startswith(BEST + "<") else None)
                popsym = Sym("populations", {sf: Sym("stack")})
                tab = {"mahf::state::State::populations_mut": popsym, "mahf::state::State::populations": popsym}

                def orc(interp, env, f, args, t, bb, path, tab=tab):
                    k_ = f.get("key", "")
                    if k_ in tab:
                        return tab[k_]
                    if k_.startswith("mahf::state::registry::StateRegistry::") and f.get("name") in ("borrow", "borrow_mut") and ((f.get("cgargs") or f.get("gargs") or [""])[0] or "").startswith(POP + "<"):
                        return popsym
                    return TOP
                it = install(Interp(up.body, chain(orc, store, StackModel(sf), coll_oracle, std_oracle), [Sym("self"), Sym("problem"), Sym("state")], facts=F,
                                    inline=lambda kk: kk.startswith(POP + "::") or statemodel.inline(kk) or INLINE(kk), max_visits=12))
                rk = {"o:%d" % i: r for i, r in enumerate(order)}
                rk["o:below"] = -5        # the population underneath holds an even better individual: it must not be looked at
                it.init_state = {"rank": rk, "next_vec": 0, "stack": (Vec("below"), Vec("cur")), "heap": {"below": (ind("below"),), "cur": tuple(ind(i) for i in range(size))}}
                store.install(it)
                n2 += 1
                paths = it.run()
                if len(paths) != 1 or paths[0].end != "return" or not (isinstance(paths[0].ret, Agg) and paths[0].ret.variant == "Ok"):
                    bad.append((has_best, list(order), "is not decided / does not complete (%s)" % [(p.end, str(p.ret)[:30]) for p in paths]))
                    continue
                p = paths[0]
                tys = [ty for ty in store.types() if ty.startswith(BEST + "<")]
                after = store.value(p, tys[0], 0) if tys else cellv       # (never looked at: still what it was)
                held = after.fields[0] if isinstance(after, Agg) and after.fields else None
                tag = otag(held.fields[0]) if isinstance(held, Agg) and held.variant == "Some" else None
                if size == 0:
                    want = {("o:%d" % size) if has_best else None}
                else:
                    m = min(order[:size])
                    cands = {"o:%d" % i for i in range(size) if order[i] == m}
                    want = cands if (not has_best or m < order[size]) else {"o:%d" % size}
                if tag not in want:
                    bad.append((has_best, list(order), "leaves %s as the recorded best, expected one of %s" % (tag, sorted(map(str, want)))))
                elif [otag(x) for x in p.mstate["heap"].get("cur", ())] != ["o:%d" % i for i in range(size)] or [getattr(x, "vid", None) for x in p.mstate.get("stack", ())] != ["below", "cur"]:
                    bad.append((has_best, list(order), "changes the population stack"))
    ctx.count("best_update_scenarios", n2)
    ctx.check(not bad, "C07.R2", up.key, "feeds-best-of-current-population", "existing best: %s, objective ranks (population, then the existing best) %s: BestIndividualUpdate %s" % (bad[0] if bad else ("", "", "")),
              detail="%d scenarios" % n2, loc=up.loc())


def r3_only_update_writes(ctx):
    F = ctx.facts
    n = 0
    for f in F.all_fns:
        for (bb, pl, c, line) in all_places(f.body, normal_only=False):
            for i, e in enumerate(pl[1]):
                if isinstance(e, list) and e[0] == "f" and len(e) > 3 and e[3] == BEST:
                    n += 1
                    if c in ("write", "refmut", "rawptr"):
                        inside = f.key in (BEST + "::update", BEST + "::new", "<mahf::components::evaluation::BestIndividualUpdate as mahf::components::Component>::init") or (f.impl_self_adt == BEST and f.from_expansion)
                        ctx.check(inside, "C07.R3", f.key, "inner:%s" % c, "the inner value of BestIndividual is %s outside update()/new()" % c, loc=f.loc(line))
                    break
    ctx.floor("C07.R3", "projections of BestIndividual's inner value", n, 2)
    INIT_FN = "<mahf::components::evaluation::BestIndividualUpdate as mahf::components::Component>::init"   # may reset the memory in place: C07.INIT decides what it leaves
    users = [(f, t) for (f, bb, t) in F.callers_of(lambda c: c.get("name") == "deref_mut" and (c.get("self_ty") or "").startswith(BEST + "<")) if f.key != INIT_FN]
    ctx.check(not users, "C07.R3", BEST, "deref_mut-users", "BestIndividual is mutated through DerefMut in %s" % sorted({f.key for f, t in users}))
    users = F.callers_of(lambda c: c.get("key") in ("mahf::state::registry::StateRegistry::set_value", "mahf::state::registry::StateRegistry::borrow_value_mut", "mahf::state::registry::StateRegistry::try_borrow_value_mut")
                         and (c.get("gargs") or [""])[0].startswith(BEST + "<"))
    # (init of the update component may reset the memory in place: C07.INIT decides what init leaves behind)
    users = [(f, b, t) for (f, b, t) in users if f.key != "<mahf::components::evaluation::BestIndividualUpdate as mahf::components::Component>::init"]
    ctx.check(not users, "C07.R3", BEST, "value-mut-users", "BestIndividual's inner value is overwritten through the registry's value accessors in %s" % sorted({f.key for f, b, t in users}))


def _archive_component_runner(ctx):
    """run(cap, arch, cur, ranks) -> (problem or None, tags the archive holds afterwards): the real ElitistArchiveUpdate::execute on the
    real population stack (another population, holding the best individual of all, lies underneath) and the typed store"""
    import statemodel
    from c04 import StackModel
    from collmodel import install
    F = ctx.facts
    up = F.method("mahf::components::archive::ElitistArchiveUpdate", "execute", "mahf::components::Component")
    POP = "mahf::state::common::Populations"
    sf = F.field_index(POP, "stack")
    ki = F.field_index("mahf::components::archive::ElitistArchiveUpdate", "num_elitists")

    def run(cap, arch, cur, ranks):
        def orc(interp, env, f, args, t, bb, path):
            if f.get("key", "") in ("mahf::state::State::populations_mut", "mahf::state::State::populations"):
                return Sym("populations", {sf: Sym("stack")})
            return TOP
        cellv = Agg("adt", ARCH, "ElitistArchive", [Vec("arch")])
        store = statemodel.Store(F, levels=1, auto=lambda ty, cellv=cellv: {0: cellv} if ty.startswith(ARCH + "<") or ty == ARCH else None)
        it = install(Interp(up.body, chain(orc, store, StackModel(sf), coll_oracle, std_oracle), [Sym("self", {ki: cap}), Sym("problem"), Sym("state")], facts=F,
                            inline=lambda kk: kk.startswith(POP + "::") or statemodel.inline(kk) or INLINE(kk), max_visits=12))
        rk = dict(ranks)
        rk["o:b0"] = -5
        it.init_state = {"next_vec": 0, "stack": (Vec("below"), Vec("cur")), "rank": rk,
                         "heap": {"below": (ind("b0"),), "cur": tuple(cur), "arch": tuple(arch)}}
        store.install(it)
        paths = it.run()
        if len(paths) != 1 or paths[0].end != "return" or not (isinstance(paths[0].ret, Agg) and paths[0].ret.variant == "Ok"):
            return "does not complete on a single path (%s)" % [(p.end, str(p.ret)[:30]) for p in paths], None
        p = paths[0]
        tys = [ty for ty in store.types() if ty.startswith(ARCH)]
        after = store.value(p, tys[0], 0) if tys else cellv
        v = after.fields[0] if isinstance(after, Agg) and after.fields else None
        got = [otag(x) for x in p.mstate["heap"].get(getattr(v, "vid", None), ())]
        if [getattr(x, "vid", None) for x in p.mstate.get("stack", ())] != ["below", "cur"] or [otag(x) for x in p.mstate["heap"].get("cur", ())] != [otag(x) for x in cur]:
            return "changes the population stack", got
        return None, got
    return up, run


def r5_archive(ctx):
    F = ctx.facts
    fn = F.fn_opt(ARCH + "::update")
    bad = []
    n = 0
    NA = 4 if ctx.tier == "thorough" else 3
    if fn is None:
        # the archive's (private) update method is written out in the component: the same scenarios, through the component
        fn, run = _archive_component_runner(ctx)
        for na in range(0, NA):
            for npop in range(0, 3):
                for order in (weak_orderings(na + npop) if na + npop else [()]):
                    for cap in range(0, NA + 1):
                        arch_idx = sorted(range(na), key=lambda i: order[i])
                        n += 1
                        problem, after = run(cap, [ind(i) for i in arch_idx], [ind(na + j) for j in range(npop)], {"o:%d" % i: r for i, r in enumerate(order)})
                        if problem:
                            bad.append((na, npop, order, cap, problem))
                            continue
                        got = sorted(order[int(x[2:])] for x in after if x and x[2:].isdigit())
                        want = sorted(order)[:cap]
                        if got != want or len(after) != len(want):
                            bad.append((na, npop, order, cap, "keeps objective ranks %s; the %d best of everything shown are %s" % (got, cap, want)))
        NA = 0
    for na in range(0, NA):
        for npop in range(0, 3):
            for order in (weak_orderings(na + npop) if na + npop else [()]):
                for cap in range(0, NA + 1):
                    home = 10000
                    it = Interp(fn.body, chain(coll_oracle, std_oracle), [Ref(home, [], frame="root"), Vec("pop"), cap], facts=F, inline=INLINE)
                    it.extra_env = {home: Agg("adt", ARCH, "ElitistArchive", [Vec("arch")])}
                    # the archive content is whatever earlier updates left: sorted by objective
                    arch_idx = sorted(range(na), key=lambda i: order[i])
                    it.init_state = {"rank": {"o:%d" % i: r for i, r in enumerate(order)}, "next_vec": 0,
                                     "heap": {"arch": tuple(ind(i) for i in arch_idx), "pop": tuple(ind(na + j) for j in range(npop))}}
                    n += 1
                    for p in it.run():
                        if p.end != "return":
                            bad.append((na, npop, order, cap, "does not return (%s)" % p.end))
                            continue
                        after = p.mstate["heap"].get("arch", ())
                        got = sorted(order[int(otag(x)[2:])] for x in after if otag(x))
                        want = sorted(order)[:cap]
                        if got != want or len(after) != len(want):
                            bad.append((na, npop, order, cap, "keeps objective ranks %s; the %d best of everything shown are %s" % (got, cap, want)))
                        popafter = p.mstate["heap"].get("pop", ())
                        if len(popafter) != npop:
                            bad.append((na, npop, order, cap, "changes the population it was shown"))
    ctx.check(not bad, "C07.R5", fn.key, "k-best-of-everything-shown",
              "archive of %s + population of %s with objective ranks %s, capacity %s: update %s" % (bad[0] if bad else ("", "", "", "", "")), detail="%d scenarios" % n, loc=fn.loc())
    ctx.count("archive_update_scenarios", n)
    # re-insertion
    comp = F.method("mahf::components::archive::ElitistArchiveIntoPopulation", "execute", "mahf::components::Component")
    bad = []
    m = 0
    import itertools
    # the archive may hold equal individuals (its update extends from a population that contains re-inserted elitists):
    # elitist lists over 0..3 entries with every repetition pattern
    elit_lists = sorted({tuple(ids) for n_ in range(0, 4) for ids in itertools.product(range(n_), repeat=n_) if list(ids) == sorted(ids) and set(ids) == set(range(len(set(ids))))})
    for ids in elit_lists:
        ne = len(set(ids))
        for npop in range(0, 3):
            # presence pattern: which elitists are already in the population (identical solution+objective)
            for present in range(0, 1 << ne):
                pres = [i for i in range(ne) if present >> i & 1]
                if len(pres) > npop:
                    continue
                elit = [ind("e%d" % i) for i in ids]
                pop = [ind("e%d" % i) for i in pres] + [ind("p%d" % j) for j in range(npop - len(pres))]
                ranks = {}
                for i in range(ne):
                    ranks["o:e%d" % i] = i
                for j in range(npop):
                    ranks["o:p%d" % j] = 10 + j
                # real population stack (another population underneath) + the archive as a cell of the typed store
                import statemodel
                from c04 import StackModel
                from collmodel import install as _install
                POP_ = "mahf::state::common::Populations"
                sf_ = F.field_index(POP_, "stack")
                popsym = Sym("populations", {sf_: Sym("stack")})
                store = statemodel.Store(F, levels=1, auto=statemodel.by_prefix(F, {ARCH: Vec("arch")}))

                def oracle(interp, env, f, args, t, bb, path, popsym=popsym):
                    if f.get("key", "") in ("mahf::state::State::populations_mut", "mahf::state::State::populations"):
                        return popsym
                    return TOP
                it = _install(Interp(comp.body, chain(oracle, statemodel.well_known(popsym, Sym("rng")), store, StackModel(sf_), coll_oracle, std_oracle), [Sym("self"), Sym("problem"), Sym("state")], facts=F,
                                     inline=lambda k_: INLINE(k_) or k_.startswith(POP_ + "::") or statemodel.inline(k_)))
                it.init_state = {"rank": ranks, "heap": {"arch": tuple(elit), "pop": tuple(pop), "below": (ind("below"),)}, "next_vec": 0, "stack": (Vec("below"), Vec("pop"))}
                store.install(it)
                m += 1
                for p in it.run():
                    if p.end != "return":
                        bad.append((list(ids), npop, pres, "does not return (%s)" % p.end))
                        continue
                    after = [otag(x) for x in p.mstate["heap"].get("pop", ())]
                    want = [otag(x) for x in pop] + ["o:e%d" % i for i in range(ne) if i not in pres]
                    if sorted(after) != sorted(want) or after[:len(pop)] != [otag(x) for x in pop]:
                        bad.append((list(ids), npop, pres, "leaves %s; expected the population plus each absent elitist exactly once: %s" % (after, want)))
                    if [otag(x) for x in p.mstate["heap"].get("arch", ())] != [otag(x) for x in elit]:
                        bad.append((list(ids), npop, pres, "changes the archive"))
    ctx.check(not bad, "C07.R5", comp.key, "reinsert-without-duplicates",
              "archive holding elitists %s (equal numbers = equal individuals), population of %s of which elitists %s are already members: re-insertion %s" % (bad[0] if bad else ("", "", "", "")), detail="%d presence patterns" % m, loc=comp.loc())
    ctx.count("archive_reinsertion_scenarios", m)
    r7_individual_equality(ctx, "C07.R5")
    # the update component shows the CURRENT population (the top one; another population lies underneath) to the state's
    # archive, with its own capacity, exactly once - evaluated on the real population stack and the typed store
    up, run = _archive_component_runner(ctx)
    bad = []
    for cap in (0, 1, 2, 4):
        # ranks: the population underneath holds the best individual of all - it must not be shown to the archive
        problem, got = run(cap, [ind("e0")], [ind(0), ind(1)], {"o:0": 0, "o:e0": 1, "o:1": 2})
        want = ["o:0", "o:e0", "o:1"][:cap]
        if problem:
            bad.append((cap, problem))
        elif sorted(map(str, got)) != sorted(want):
            bad.append((cap, "leaves the archive holding %s; the %d best of the old archive [o:e0] and the CURRENT population [o:0, o:1] (objective order o:0 < o:e0 < o:1; o:b0, in the population underneath, is better than all) are %s" % (got, cap, want)))
    ctx.check(not bad, "C07.R5", up.key, "shows-current-population", "capacity %s: the update component %s" % (bad[0] if bad else ("", "")), loc=up.loc())


def r7_individual_equality(ctx, rule="C07.R7"):
    """two individuals are equal iff solution AND objective are equal (the equality `already there` / `the selected
    molecule` / `contains` rest on)"""
    F = ctx.facts
    # the equality that `already there` rests on: two individuals are equal iff solution AND objective are equal
    eqs = F.fns.get("<%s as core::cmp::PartialEq>::eq" % IND, [])
    bad = []
    for fe in eqs[:1]:
        for sa, sb in (("x", "x"), ("x", "y")):
            for oa, ob in (("1", "1"), ("1", "2"), ("1", None), (None, None)):
                a = Agg("adt", IND, "Individual", [Sym("s:" + sa), some(Sym("o:" + oa)) if oa else NONE])
                b = Agg("adt", IND, "Individual", [Sym("s:" + sb), some(Sym("o:" + ob)) if ob else NONE])
                it = install(Interp(fe.body, chain(coll_oracle, std_oracle), [Ref(10001, [], frame="root"), Ref(10002, [], frame="root")], facts=F, inline=INLINE, max_visits=6))
                it.extra_env = {10001: a, 10002: b}
                it.init_state = {"rank": {"o:1": 1, "o:2": 2}, "heap": {}, "next_vec": 0}
                want = sa == sb and oa == ob
                for p in it.run():
                    if p.end != "return" or p.ret is not want:
                        bad.append(("%s/%s vs %s/%s" % (sa, oa, sb, ob), "yields %s, expected %s" % (p.ret if p.end == "return" else p.end, want)))
    ctx.check(len(eqs) == 1 and not bad, rule, IND, "equality-is-solution-and-objective", "individuals (solution/objective) %s: == %s" % (bad[0] if bad else ("", "no single PartialEq impl")), loc=eqs[0].loc() if eqs else None)


def r4_templates(ctx):
    """every evaluation is shown to the best-update before its values are overwritten, merged away or the run ends"""
    import c16
    sums, fns, res, entered = c16.analyse_templates(ctx)
    n = 0
    for (fn, tree, full, w, final) in res:
        if not full or w is None:
            continue
        n += 1
        seen = set()
        for (rule, inst, msg) in w.findings:
            if rule != "C07.R4" or inst in seen:
                continue
            seen.add(inst)
            ctx.violation("C07.R4", fn.key, inst, msg, loc=fn.loc())
        # at the end of the run nothing evaluated may be unreported
        for st in (final or {}).values():
            for sl in st:
                if sl.evaluated and not sl.reported and ("end", sl.origin) not in seen:
                    seen.add(("end", sl.origin))
                    ctx.violation("C07.R4", fn.key, "end<-%s" % (sl.origin or "?").split("@")[0], "the run can end with objective values (evaluated by %s) that no best-individual update has seen" % sl.origin, loc=fn.loc())
        if not seen:
            ctx.ok("C07.R4", fn.key, "every-evaluation-reaches-best-update", "excepted: %s" % sorted(w.excepted) if w.excepted else "")
    ctx.floor("C07.R4", "complete templates analysed", n, 18)


def run(ctx):
    ctx.guard("C07.R6", "`better` is the numeric order of the objective values (ties incl. -0.0 / +0.0 are ties)", lambda: __import__("c09").r3_total_order(ctx, "C07.R6"))
    ctx.guard("C07.REQ", "requirements are checked", lambda: __import__("initspec").check_requires(ctx, "C07"))
    ctx.guard("C07.INIT", "init installs the configured state", lambda: __import__("initspec").check_for(ctx, "C07"))
    ctx.guard("C07.K17", "constructor fidelity", lambda: __import__("ctor").check_for(ctx, "C07", 5))
    ctx.guard("C07.R4", "templates", lambda: r4_templates(ctx))
    ctx.guard("C07.R1", "BestIndividual::update", lambda: r1_update(ctx))
    ctx.guard("C07.R2", "best of population", lambda: r2_best_of_population(ctx))
    ctx.guard("C07.R3", "writers", lambda: r3_only_update_writes(ctx))
    ctx.guard("C07.R5", "elitist archive", lambda: r5_archive(ctx))
