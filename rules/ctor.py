"""K17 — constructor fidelity: the public constructors of component / condition types store the parameters they are
given.  Every inherent associated function of a type that returns the type (plain, boxed as a trait object, or
inside Result/Option) is interpreted with OPAQUE parameters: on every non-error path, each field whose name equals
a parameter name must hold exactly that parameter.  Any arithmetic, clamping or substitution on the way turns the
opaque value into something else and is reported; validation (`ensure!`) only adds error paths, which are ignored.
The rules that evaluate the operators take the fields as given, so this is what ties `Type::new(x)` to them."""
from absint import Interp, Sym, Agg, TOP, std_oracle, chain
from collmodel import coll_oracle, install

# reviewed exceptions: (type, field) -> reason
EXEMPT = {
}


def unwrap(v, adt, depth=0):
    """the constructed value inside Box / Result::Ok / Option::Some; None for error results"""
    while depth < 6:
        depth += 1
        if isinstance(v, Agg) and v.name in ("core::result::Result", "core::option::Option"):
            if v.variant in ("Err", "None"):
                return None
            v = v.fields[0] if v.fields else TOP
            continue
        return v
    return v


def same_file(F, key, file):
    """constructors may delegate validation / construction to a sibling type of the same source file"""
    g = F.fn_opt(key)
    return g is not None and g.file == file and g.kind in ("Fn", "AssocFn")


def constructors(F, prefixes):
    for f in F.all_fns:
        if f.kind != "AssocFn" or not f.impl_self_adt or f.impl_trait or not f.sig or f.from_expansion:
            continue
        if not f.file.startswith(prefixes):
            continue
        adt = f.impl_self_adt
        out = f.sig["output"]
        short = adt
        is_ctor = out.startswith(adt) or ("Result<" + adt) in out or ("Option<" + adt) in out or \
            ("alloc::boxed::Box<dyn mahf::components::Component<" in out or "alloc::boxed::Box<dyn mahf::conditions::Condition<" in out)
        if not is_ctor or any(i.startswith("&") and "self" in i.lower() for i in f.sig["inputs"][:0]):
            continue
        params = [(d["arg"], d["name"]) for d in f.body.dbg if d.get("arg") is not None]
        if f.body.argc and len(params) != f.body.argc:
            # parameters without debug names (patterns): positions only
            names = {a: n for a, n in params}
            params = [(i + 1, names.get(i + 1, "_%d" % (i + 1))) for i in range(f.body.argc)]
        if any(n == "self" for _, n in params):
            continue
        yield f, adt, params


def check(ctx, rule, prefixes, floor):
    F = ctx.facts
    n = 0
    n_fields = 0
    for f, adt, params in constructors(F, tuple(prefixes)):
        info = F.adts.get(adt)
        if not info or info["kind"] != "Struct":
            continue
        fields = info["variants"][0]["fields"]
        fnames = {fl["name"]: fl["i"] for fl in fields}
        args = [Sym("param:%s" % name) for _, name in sorted(params)]
        it = install(Interp(f.body, chain(coll_oracle, std_oracle), args, facts=F,
                            inline=lambda k, adt=adt, file=f.file: k.startswith(adt + "::") or k.startswith("<" + adt) or same_file(F, k, file), max_visits=6, max_paths=200))
        it.init_state = {"next_vec": 0}
        n += 1
        bad = []
        okpaths = 0
        for p in it.run():
            if p.end != "return":
                continue
            v = unwrap(p.ret, adt)
            if v is None:
                continue
            okpaths += 1
            if not (isinstance(v, Agg) and v.name == adt):
                if v is TOP and any(pn in fnames for _, pn in params):
                    bad.append(("<result>", "the constructed value could not be followed (%s)" % (v,)))
                continue
            for _, pname in params:
                if pname in fnames and (adt, pname) not in EXEMPT:
                    got = v.fields[fnames[pname]] if fnames[pname] < len(v.fields) else TOP
                    n_fields += 1
                    if not (isinstance(got, Sym) and got.tag == "param:%s" % pname):
                        bad.append((pname, "field `%s` holds %s instead of the parameter `%s` it was given" % (pname, "a computed value" if got is TOP else got, pname)))
        if okpaths == 0 and f.body.argc == 0:
            continue
        seen = set()
        for (fld, msg) in bad:
            if fld in seen:
                continue
            seen.add(fld)
            ctx.violation(rule, f.key, "stores-parameter:" + fld, "%s: %s" % (f.key.split("::")[-1], msg), loc=f.loc())
        if not bad:
            ctx.ok(rule, f.key, "stores-parameters", "%d parameters" % len(params))
    ctx.count("constructors_evaluated", n)
    ctx.count("constructor_fields_checked", n_fields)
    ctx.floor(rule, "constructors evaluated", n, max(1, (floor * 7) // 10))   # counted on the reference tree; tolerate merged / removed constructors


# which property's operators a constructor feeds (by source file); control_flow.rs is owned by C03.R6 (builder mapping)
OWNERS = {
    "C06": ("src/components/evaluation.rs",),
    "C07": ("src/components/archive.rs",),
    "C10": ("src/conditions/",),
    "C11": ("src/components/selection/",),
    "C12": ("src/components/replacement/common.rs", "src/components/replacement/bh.rs"),
    "C13": ("src/components/mutation/", "src/components/recombination/"),
    "C14": ("src/components/boundary.rs", "src/components/initialization/"),
    "C15": ("src/logging/",),
    "C16": ("src/components/diversity.rs", "src/components/utils/", "src/components/misc/", "src/components/swarm/", "src/components/mapping/"),
    "C17": ("src/components/replacement/sa.rs", "src/components/mapping/sa.rs"),
    "C18": ("src/components/swarm/pso.rs", "src/components/mapping/"),
    "C19": ("src/components/generative.rs",),
    "C20": ("src/components/misc/cro.rs",),
}


def check_for(ctx, prop, floor):
    check(ctx, prop + ".K17", OWNERS[prop], floor)
