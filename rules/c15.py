"""C15 — experiment records are exact: log entries, log export, configuration export."""
import itertools

from core import expr_str, strip, subexprs, callee_keys, AnchorMissing
from kinds import origin, all_places
from absint import Interp, Sym, Agg, Ref, HRef, TOP, some, NONE, ok, err, std_oracle, chain
from collmodel import coll_oracle, Vec, install, load, heap_get, new_vec
from c10 import mk_oracle

EXPLANATION = (
    "(R1/R2) K6 on Logger::execute with the real LogConfig / ExtractionRule / Step code inlined, for 0..3 rules, every "
    "trigger outcome vector and entry-name patterns (distinct, repeated, a rule that logs the iteration counter itself): "
    "exactly one step is appended iff at least one trigger fired; it holds one entry per fired rule, the first rule "
    "winning a repeated name, in rule order, with the iteration entry first (unless a rule supplied it); nothing is "
    "appended otherwise; a failing trigger propagates. extract_entry stores lens.get(..).ok() under the lens' entry "
    "name (missing state => explicit null). (R3) K6 on CompressedLog::from with a modelled hash map: the name table "
    "lists names in order of first appearance, every step becomes one map with one (key of the name -> that entry's "
    "value) pair per entry. (R4) serialisation coverage: for every Component / Condition type and every crate-local "
    "type nested in their fields, the Serialize::serialize body (derived or hand-written) reads every field that is "
    "not a marker (PhantomData, PhantomId, SerializablePhantom, fn pointer); (R5) to_ron serialises self.heuristic() "
    "with struct_names(true), and par_experiment writes it before the parallel runs start. (R7) State::holding puts the held LogConfig back where it came from; (R8) Logger::init initialises every trigger once, in rule order, stopping at the first failure; (R9) to_json / to_cbor serialise the compressed form of the whole log into a writer on the file at the caller's path, Ok iff both steps succeed. NOT decided: the JSON / "
    "CBOR / RON codecs themselves (third-party), equality of logged values with the state at that moment beyond the "
    "dataflow shown.")
EXPLANATION += " " + '(R1/R10 revised) LogConfig and Log are cells of the typed store and the real State::holding is followed: one step per firing execution, and the LogConfig stays in the scope (own / enclosing / two up) it lives in.'
ASSUMPTIONS = ["serde_json, ciborium and ron encode what Serialize emits", "type_name::<T>() is injective on the logged state types"]

LOG = "mahf::logging::"
STEP = LOG + "log::Step"
ENTRY = LOG + "log::Entry"
COND = "mahf::conditions::Condition"
INL = lambda k: k.startswith(LOG) or k.startswith("<" + LOG)


def r1_logger(ctx):
    F = ctx.facts
    fn = F.method(LOG + "logger::Logger", "execute", "mahf::components::Component")
    RULE = LOG + "config::ExtractionRule"
    CONF = LOG + "config::LogConfig"
    ti, xi = F.field_index(RULE, "trigger"), F.field_index(RULE, "extractor")
    bad = []
    n = 0
    ITER = "type_name:mahf::state::common::Iterations"
    name_patterns = {0: [[]], 1: [["a"], [ITER]], 2: [["a", "b"], ["a", "a"], ["a", ITER]], 3: [["a", "b", "c"], ["a", "b", "a"], ["a", "a", "a"], [ITER, "a", "b"]]}
    for k in range(0, 4):
        for names in name_patterns[k]:
            for outs in itertools.product((True, False), repeat=k):
                log_home, conf_home = 10001, 10002
                rules = []
                for i in range(k):
                    vals = [None, None]
                    vals[ti] = Sym("trigger:%d" % i, boxlike=True)
                    vals[xi] = Sym("extractor:%d" % i, boxlike=True)
                    rules.append(Agg("adt", RULE, "ExtractionRule", vals))

                def ev(interp, env, f, args, outs=outs):
                    c = load(interp, env, args[0])
                    i = int(c.tag.split(":")[1]) if isinstance(c, Sym) and c.tag.startswith("trigger:") else -1
                    return ok(outs[i]) if 0 <= i < len(outs) else TOP

                def ex(interp, env, f, args, names=names):
                    c = load(interp, env, args[0])
                    i = int(c.tag.split(":")[1]) if isinstance(c, Sym) and c.tag.startswith("extractor:") else -1
                    if i < 0:
                        return TOP
                    vals = [None, None]
                    vals[F.field_index(ENTRY, "name")] = Sym(names[i])
                    vals[F.field_index(ENTRY, "value")] = Sym("value:%d" % i)
                    return Agg("adt", ENTRY, "Entry", vals)

                # the LogConfig and the Log are cells of the typed store; the real State::holding is followed
                import statemodel
                conf_val = Agg("adt", CONF, "LogConfig", [Vec("rules")])
                log_val = Agg("adt", LOG + "log::Log", "Log", [Vec("steps")])

                def auto(ty, conf_val=conf_val, log_val=log_val):
                    if ty.startswith(CONF + "<") or ty == CONF:
                        return {0: conf_val}
                    if ty == LOG + "log::Log":
                        return {0: log_val}
                    if "::holding::" in ty:
                        return {}
                    return None
                store = statemodel.Store(F, levels=1, auto=auto)
                table = {COND + "::evaluate": ev, LOG + "extractor::EntryExtractor::extract_entry": ex, "mahf::state::State::iterations": Sym("iterations-now")}
                reg_i = F.field_index("mahf::state::State", "registry")
                nf = len(F.adt("mahf::state::State")["variants"][0]["fields"])
                svals = [Sym("phantom")] * nf
                svals[reg_i] = Sym("reg:0")
                state_home = 11001
                inl = lambda k_: INL(k_) or (k_.startswith("mahf::state::State::holding") or _private_state_fn(F, k_)) or k_.startswith("<mahf::state::State as core::ops::deref") or statemodel.inline(k_)
                it = install(Interp(fn.body, chain(mk_oracle(table), store, coll_oracle, std_oracle), [Sym("self"), Sym("problem"), Ref(state_home, [], frame="root")], facts=F, inline=inl, max_visits=12, max_paths=100))
                log_idx = F.field_index(LOG + "log::Log", "steps")
                it.extra_env = {state_home: Agg("adt", "mahf::state::State", "State", svals)}
                it.init_state = {"heap": {"steps": (Sym("earlier-step"),), "rules": tuple(rules)}, "next_vec": 0}
                store.install(it)
                n += 1
                fired = [i for i in range(k) if outs[i]]
                want_entries = []
                seen_names = set()
                for i in fired:
                    if names[i] not in seen_names:
                        seen_names.add(names[i])
                        want_entries.append((names[i], "value:%d" % i))
                if want_entries and ITER not in seen_names:
                    want_entries.insert(0, (ITER, "iterations-now"))
                for p in it.run():
                    ctxs = (names, list(outs))
                    if p.end != "return" or not (isinstance(p.ret, Agg) and p.ret.variant == "Ok"):
                        bad.append(ctxs + ("does not complete (%s %s)" % (p.end, p.ret),))
                        continue
                    lv_ = statemodel.payload_of(store, p, LOG + "log::Log", Vec("steps"))
                    steps = p.mstate["heap"].get(getattr(lv_, "vid", None), ())
                    if not fired:
                        if len(steps) != 1:
                            bad.append(ctxs + ("appends %d step(s) although no trigger fired" % (len(steps) - 1),))
                        continue
                    if len(steps) != 2 or getattr(steps[0], "tag", None) != "earlier-step":
                        bad.append(ctxs + ("leaves %d steps (expected the earlier one plus exactly one new, in execution order)" % len(steps),))
                        continue
                    st = steps[1]
                    ents = p.mstate["heap"].get(st.fields[0].vid, ()) if isinstance(st, Agg) and isinstance(st.fields[0], Vec) else None
                    got = [(getattr(e.fields[F.field_index(ENTRY, "name")], "tag", "?"), getattr(load_val(e.fields[F.field_index(ENTRY, "value")]), "tag", "?")) if isinstance(e, Agg) else ("?", "?") for e in ents] if ents is not None else None
                    if got != want_entries:
                        bad.append(ctxs + ("logs the step %s, expected %s" % (got, want_entries),))
    ctx.check(not bad, "C15.R1", fn.key, "one-step-per-firing-execution",
              "rules named %s with trigger outcomes %s: the logger %s" % (bad[0] if bad else ("", "", "")), detail="%d scenarios" % n, loc=fn.loc())
    ctx.count("logger_scenarios", n)
    # extract_entry (K6): the entry is named T::entry_name() and holds Some(lens value), or None when the lens fails
    ee = [f for f in F.all_fns if f.key.endswith("as mahf::logging::extractor::EntryExtractor>::extract_entry")]
    good = len(ee) == 1
    why = "%d implementations" % len(ee)
    if good:
        ni, vi = F.field_index(ENTRY, "name"), F.field_index(ENTRY, "value")
        for present in (True, False):
            tbl = {"mahf::lens::Lens::get": (ok(Sym("lens-value")) if present else err(Sym("lens-error"))), "mahf::logging::extractor::EntryName::entry_name": Sym("lens-name")}
            it = install(Interp(ee[0].body, chain(mk_oracle(tbl), coll_oracle, std_oracle), [Sym("self"), Sym("problem"), Sym("state")], facts=F, inline=INL, max_visits=6))
            outs = []
            for p in it.run():
                r = p.ret
                if p.end == "return" and isinstance(r, Agg) and r.name == ENTRY:
                    v = r.fields[vi]
                    outs.append((getattr(r.fields[ni], "tag", "?"), (v.variant, getattr(v.fields[0], "tag", None) if v.fields else None) if isinstance(v, Agg) else repr(v)))
                else:
                    outs.append((p.end, repr(r)))
            want = [("lens-name", ("Some", "lens-value") if present else ("None", None))]
            if outs != want:
                good = False
                why = "source state %s: the entry is %s, expected %s" % ("present" if present else "missing", outs, want)
    ctx.check(good, "C15.R2", "EntryExtractor::extract_entry", "value-or-null-under-lens-name", "extract_entry does not store Some(lens value) / None under T::entry_name(): %s" % why, loc=ee[0].loc() if ee else None)


def _private_state_fn(F, k):
    """private helpers of `State` (e.g. an `exchange` extracted from `holding`) are followed like `holding` itself"""
    if not (k.startswith("mahf::state::") and not k.startswith("mahf::state::registry::") and not k.startswith("mahf::state::common::")):
        return False
    fn = F.fn_opt(k)
    return fn is not None and getattr(fn, "vis", None) not in ("pub", "public")


def load_val(v):
    return v


def compress_fn(ctx, report=True):
    """the one function that builds a CompressedLog out of a `&Log` - a `From<&Log>` impl or a private constructor, wherever in
    the logging module it lives: located by its signature (one parameter `&Log`, returns CompressedLog)"""
    F = ctx.facts
    fns = []
    for f in F.all_fns:
        if f.kind not in ("Fn", "AssocFn") or not f.file.startswith("src/logging/") or f.body.argc != 1:
            continue
        try:
            rt, at = f.body.local_ty(0), f.body.local_ty(1)
        except Exception:
            continue
        if rt.split("<")[0].endswith("::CompressedLog") and at.startswith("&") and at.lstrip("&").split("<")[0].endswith("logging::log::Log"):
            # (a plain forwarder - Log::as_compressed calling it - is not the builder)
            calls = [t for _b, t in f.body.calls()]
            if len(calls) == 1 and (calls[0]["f"].get("ret") or "").split("<")[0].endswith("::CompressedLog"):
                continue
            fns.append(f)
    if len(fns) != 1:
        if report:
            ctx.check(False, "C15.R3", "CompressedLog::from", "anchor", "the function building a CompressedLog from a &Log was not found (%s)" % [f.key for f in fns], kind="anchor-missing")
        return None
    return fns[0]


def r3_compressed(ctx):
    F = ctx.facts
    fn = compress_fn(ctx)
    if fn is None:
        return
    CL = fn.body.local_ty(0).split("<")[0]      # (wherever in the logging module the type lives)
    bad = []
    n = 0
    name_i, val_i = F.field_index(ENTRY, "name"), F.field_index(ENTRY, "value")
    logs = [[], [["a"]], [["a", "b"], ["b", "a", "c"]], [["x"], [], ["y", "x"]], [["a"], ["a"], ["a"]]]
    for steps in logs:
        heap = {}
        step_vals = []
        for si, names in enumerate(steps):
            ents = []
            for ei, nm in enumerate(names):
                vals = [None, None]
                vals[name_i] = Sym(nm)
                vals[val_i] = Sym("v%d.%d" % (si, ei))
                ents.append(Agg("adt", ENTRY, "Entry", vals))
            heap["e%d" % si] = tuple(ents)
            step_vals.append(Agg("adt", STEP, "Step", [Vec("e%d" % si)]))
        heap["steps"] = tuple(step_vals)
        log = Agg("adt", LOG + "log::Log", "Log", [Vec("steps")])

        class HM:
            pass

        def hm_new(interp, env, f, args):
            k = interp.mstate.get("nmaps", 0)
            interp.mstate["nmaps"] = k + 1
            interp.mstate["map:%d" % k] = ()
            return Sym("map:%d" % k)

        HME = "std::collections::hash::map::Entry"

        def hm_entry(interp, env, f, args):
            m = load(interp, env, args[0])
            key = load(interp, env, args[1])
            kt = getattr(key, "tag", key)
            present = isinstance(m, Sym) and kt in dict(interp.mstate.get(m.tag, ()))
            # std's enum: Entry::Occupied(OccupiedEntry) | Entry::Vacant(VacantEntry); the payload remembers map and key
            return Agg("adt", HME, "Occupied" if present else "Vacant", [Agg("hmentry", None, None, [m, key])])

        def slot_of(interp, env, v):
            v = load(interp, env, v)
            if isinstance(v, Agg) and v.name == HME and v.fields:
                v = v.fields[0]
            return v if isinstance(v, Agg) and v.kind == "hmentry" and isinstance(v.fields[0], Sym) else None

        def entry_op(interp, env, f, args):
            """VacantEntry::insert, OccupiedEntry::get / get_mut / into_mut / insert, Entry::key"""
            e = slot_of(interp, env, args[0])
            if e is None:
                return TOP
            mid, key = e.fields[0].tag, e.fields[1]
            kt = getattr(key, "tag", key)
            pairs = list(interp.mstate.get(mid, ()))
            nm_ = f.get("name")
            cur = dict(pairs).get(kt)
            if nm_ == "key":
                return key
            if nm_ in ("get", "get_mut", "into_mut"):
                return cur if kt in dict(pairs) else TOP
            if nm_ == "insert":
                if kt in dict(pairs):
                    pairs = [(a, (args[1] if a == kt else b)) for (a, b) in pairs]
                else:
                    pairs.append((kt, args[1]))
                interp.mstate[mid] = tuple(pairs)
                return args[1] if "Vacant" in f.get("key", "") else cur
            return TOP

        def or_insert_with(interp, env, f, args):
            e = slot_of(interp, env, args[0])
            if e is None:
                return TOP
            mid, key = e.fields[0].tag, e.fields[1]
            pairs = dict(interp.mstate.get(mid, ()))
            kt = getattr(key, "tag", key)
            if kt in pairs:
                return pairs[kt]
            outs = interp.call_value(args[1], [])
            if not outs or len(outs) != 1 or outs[0][2] != "return":
                return TOP
            interp.mstate.clear()
            interp.mstate.update(outs[0][3])
            pairs = dict(interp.mstate.get(mid, ()))
            pairs[kt] = outs[0][0]
            interp.mstate[mid] = tuple(pairs.items())
            return outs[0][0]

        def collect_map(interp, env, f, args):
            if not (f.get("ret") or "").startswith("std::collections::hash::map::HashMap<"):
                return TOP
            from collmodel import iter_items
            its = iter_items(interp, env, args[0])
            if its is None:
                return TOP
            m = hm_new(interp, env, f, args)
            pairs = []
            for x in its:
                x = load(interp, env, x)
                if not (isinstance(x, Agg) and x.kind == "tuple" and len(x.fields) == 2):
                    return TOP
                k_ = load(interp, env, x.fields[0])
                k_ = getattr(k_, "tag", k_)
                pairs = [(a, b) for (a, b) in pairs if a != k_] + [(k_, x.fields[1])]
            interp.mstate[m.tag] = tuple(pairs)
            return m

        def hm_extend(interp, env, f, args):
            # `map.extend(iter of (key, value))`: consumes the iterator (its closures run now), inserting pair by pair
            m = load(interp, env, args[0]) if args else None
            if not (isinstance(m, Sym) and m.tag.startswith("map:")) or len(args) != 2:
                return TOP
            from collmodel import iter_items
            its = iter_items(interp, env, args[1])
            if its is None:
                return TOP
            pairs = list(interp.mstate.get(m.tag, ()))
            for x in its:
                x = load(interp, env, x)
                if not (isinstance(x, Agg) and x.kind == "tuple" and len(x.fields) == 2):
                    return TOP
                k_ = load(interp, env, x.fields[0])
                k_ = getattr(k_, "tag", k_)
                if any(a == k_ for a, b in pairs):
                    pairs = [(a, (x.fields[1] if a == k_ else b)) for (a, b) in pairs]
                else:
                    pairs.append((k_, x.fields[1]))
            interp.mstate[m.tag] = tuple(pairs)
            return Agg("tuple", None, None, [])

        def or_insert_value(interp, env, f, args):
            e = slot_of(interp, env, args[0])
            if e is None:
                return TOP
            mid, key = e.fields[0].tag, e.fields[1]
            kt = getattr(key, "tag", key)
            pairs = dict(interp.mstate.get(mid, ()))
            if kt not in pairs:
                pairs[kt] = args[1]
                interp.mstate[mid] = tuple(pairs.items())
            return pairs[kt]

        def hm_insert(interp, env, f, args):
            m = load(interp, env, args[0])
            if not isinstance(m, Sym):
                return TOP
            k, v = load(interp, env, args[1]), args[2]
            k = getattr(k, "tag", k)
            pairs = list(interp.mstate.get(m.tag, ()))
            old = [x for x in pairs if x[0] == k]
            if old:
                pairs = [(a, (v if a == k else b)) for (a, b) in pairs]
            else:
                pairs.append((k, v))
            interp.mstate[m.tag] = tuple(pairs)
            return some(old[0][1]) if old else NONE
        def hm_get(interp, env, f, args):
            m = load(interp, env, args[0])
            if not (isinstance(m, Sym) and m.tag.startswith("map:")):
                return TOP
            key = load(interp, env, args[1])
            kt = getattr(key, "tag", key)
            pairs = dict(interp.mstate.get(m.tag, ()))
            nm_ = f.get("name")
            if nm_ == "contains_key":
                return kt in pairs
            return some(pairs[kt]) if kt in pairs else NONE

        def hm_len(interp, env, f, args):
            m = load(interp, env, args[0])
            return len(interp.mstate.get(m.tag, ())) if isinstance(m, Sym) and m.tag.startswith("map:") else TOP

        def hm_is_empty(interp, env, f, args):
            r = hm_len(interp, env, f, args)
            return TOP if r is TOP else r == 0
        table = {"core::iter::traits::iterator::Iterator::collect": collect_map, "core::iter::traits::collect::FromIterator::from_iter": collect_map,
                 "std::collections::hash::map::VacantEntry::insert": entry_op, "std::collections::hash::map::OccupiedEntry::get": entry_op,
                 "std::collections::hash::map::OccupiedEntry::get_mut": entry_op, "std::collections::hash::map::OccupiedEntry::into_mut": entry_op,
                 "std::collections::hash::map::OccupiedEntry::insert": entry_op, "std::collections::hash::map::Entry::key": entry_op,
                 "std::collections::hash::map::Entry::or_insert": lambda i_, e_, f_, a_: or_insert_value(i_, e_, f_, a_),
                 "std::collections::hash::map::HashMap::get": hm_get, "std::collections::hash::map::HashMap::contains_key": hm_get,
                 "std::collections::hash::map::HashMap::len": hm_len, "std::collections::hash::map::HashMap::is_empty": hm_is_empty,
                 "std::collections::hash::map::HashMap::new": hm_new, "std::collections::hash::map::HashMap::with_capacity": hm_new,
                 "<std::collections::hash::map::HashMap as core::default::Default>::default": hm_new,
                 "std::collections::hash::map::HashMap::entry": hm_entry, "std::collections::hash::map::Entry::or_insert_with": or_insert_with,
                 "std::collections::hash::map::HashMap::insert": hm_insert, "core::iter::traits::collect::Extend::extend": hm_extend}
        it = install(Interp(fn.body, chain(mk_oracle(table), coll_oracle, std_oracle), [log], facts=F, inline=INL, max_visits=20, max_paths=50))
        it.init_state = {"heap": heap, "next_vec": 0}
        n += 1
        want_names = []
        for names in steps:
            for nm in names:
                if nm not in want_names:
                    want_names.append(nm)
        want_steps = [[(want_names.index(nm), "v%d.%d" % (si, ei)) for ei, nm in enumerate(names)] for si, names in enumerate(steps)]
        for p in it.run():
            if p.end != "return" or not (isinstance(p.ret, Agg) and p.ret.name == CL):
                bad.append((steps, "does not complete (%s %s)" % (p.end, p.ret)))
                continue
            r = p.ret
            nf, ef = F.field_index(CL, "names"), F.field_index(CL, "entries")
            names_got = [getattr(x, "tag", "?") for x in p.mstate["heap"].get(getattr(r.fields[nf], "vid", None), ())]
            maps = p.mstate["heap"].get(getattr(r.fields[ef], "vid", None), ())
            steps_got = []
            for m in maps:
                pairs = p.mstate.get(getattr(m, "tag", ""), ())
                steps_got.append([(k, getattr(strip_ref(interp_load(p, v)), "tag", "?")) for (k, v) in pairs])
            if names_got != want_names:
                bad.append((steps, "builds the name table %s, expected names in order of first appearance %s" % (names_got, want_names)))
            elif steps_got != want_steps:
                bad.append((steps, "encodes the steps as %s, expected %s" % (steps_got, want_steps)))
    ctx.check(not bad, "C15.R3", fn.key, "name-table-and-per-step-maps", "log with entry names %s: the compressed export %s" % (bad[0] if bad else ("", "")), detail="%d logs" % n, loc=fn.loc())


def interp_load(p, v):
    # values stored in the per-step maps are references to entry values: resolve Ref/HRef through the final heap
    from absint import HRef as _H
    seen = 0
    while isinstance(v, _H) and seen < 4:
        items = p.mstate["heap"].get(v.vid, ())
        v = items[v.idx] if v.idx < len(items) else None
        seen += 1
    return v


def strip_ref(v):
    return v


MARKERS = ("core::marker::PhantomData<", "mahf::identifier::PhantomId<", "mahf::utils::SerializablePhantom<", "fn(", "for<")
# behaviour (a closure), not a parameter value: cannot be serialised; reviewed one by one
NOT_DATA = {("mahf::components::utils::debug::Debug", "0"): "user debugging closure (Box<dyn DebugFn>): code, not configuration data"}


def r4_serialization_coverage(ctx):
    F = ctx.facts
    SER = "serde_core::ser::Serialize"
    ser_fns = {}
    for f in F.all_fns:
        if f.name == "serialize" and f.impl_trait and f.impl_trait.endswith("ser::Serialize") and f.impl_self_adt:
            ser_fns[f.impl_self_adt] = f
    roots = sorted({i["self_adt"] for i in F.impls if i["trait"] in ("mahf::components::Component", "mahf::conditions::Condition") and i["self_adt"]})
    ctx.floor("C15.R4", "component and condition types", len(roots), 85)
    import re
    work = list(roots)
    seen = set()
    n = 0
    while work:
        adt = work.pop()
        if adt in seen:
            continue
        seen.add(adt)
        a = F.adts.get(adt)
        if a is None or a["kind"] != "Struct":
            continue
        fields = a["variants"][0]["fields"]
        sf = ser_fns.get(adt)
        if sf is None:
            if adt in roots:
                ctx.violation("C15.R4", adt, "serialize-impl", "no Serialize implementation found: the configuration export cannot name this component's parameters")
            continue
        read = set()
        for g in F.with_closures(sf):
            for (bb, pl, c, line) in all_places(g.body, normal_only=False):
                for e in pl[1]:
                    if isinstance(e, list) and e[0] == "f" and len(e) > 3 and e[3] == adt:
                        read.add(e[1])
                        break
        n += 1
        missing = [fd for fd in fields if fd["i"] not in read and not fd["ty"].startswith(MARKERS) and (adt, fd["name"]) not in NOT_DATA]
        ctx.check(not missing, "C15.R4", adt, "all-parameters-serialised",
                  "Serialize for %s does not read field(s) %s: configurations that differ there export identically" % (adt.split("::")[-1], [fd["name"] + ": " + fd["ty"][:50] for fd in missing]), loc=sf.loc())
        for fd in fields:
            for m in re.finditer(r"mahf::[A-Za-z0-9_:]+", fd["ty"]):
                if m.group(0) in F.adts and m.group(0) not in seen and not fd["ty"].startswith(MARKERS):
                    work.append(m.group(0))
    ctx.count("serialize_impls_checked", n)


def r5_to_ron(ctx):
    F = ctx.facts
    fn = F.fn("mahf::configuration::Configuration::to_ron")
    calls = {t["f"].get("key"): (b, t) for b, t in fn.body.calls()}
    sn = [v for k, v in calls.items() if k and k.endswith("PrettyConfig::struct_names")]
    good = len(sn) == 1
    if good:
        a = fn.body.expr_of_op(sn[0][1]["args"][1])
        good = a[0] == "const" and a[2] in (1, True)
    ctx.check(good, "C15.R5", fn.key, "struct-names-on", "to_ron does not enable struct_names(true): component names would be missing from the export", loc=fn.loc())
    tw = [v for k, v in calls.items() if k and k.startswith("ron::ser::to_writer")]
    good = len(tw) == 1
    if good:
        e = fn.body.expr_of_op(tw[0][1]["args"][1])
        # what is serialised is the configuration's own root component: `self.heuristic()` or the field itself, through accessors only
        from kinds import ACCESS_CALLS as _AC
        lf_, cs_, fs_ = origin(e)
        good = lf_ == ("arg", 1) and all(c in _AC or c == "heuristic" for c in cs_) and ("heuristic" in cs_ or fs_[:1] == [0])
        cfg = fn.body.expr_of_op(tw[0][1]["args"][2])
        good = good and any(x[0] == "call" and (x[1] or "").endswith("struct_names") for x in subexprs(cfg))
    ctx.check(good, "C15.R5", fn.key, "serialises-own-heuristic", "to_ron does not serialise self.heuristic() with the configured PrettyConfig", loc=fn.loc())
    pe = F.fn("mahf::experiments::par_experiment")
    tr = [(b, t) for b, t in pe.body.calls() if t["f"].get("key") == "mahf::configuration::Configuration::to_ron"]
    par = [(b, t) for b, t in pe.body.calls() if (t["f"].get("key") or "").startswith("rayon::")]
    from c03 import propagated
    good = len(tr) == 1 and par and all(pe.body.dominates(tr[0][0], b) for b, t in par) and propagated(pe.body, tr[0][0])
    ctx.check(good, "C15.R5", pe.key, "configuration-written-first", "par_experiment does not write configuration.ron (and propagate its error) before the runs start", loc=pe.loc())


def run(ctx):
    ctx.guard("C15.R10", "the logger leaves its LogConfig in the scope it lives in", lambda: r10_config_stays(ctx))
    ctx.guard("C15.R9", "the exports write the compressed form of the whole log", lambda: r9_exports(ctx))
    ctx.guard("C15.R8", "the logger initialises its triggers", lambda: r8_logger_init(ctx))
    ctx.guard("C15.R7", "the logger reaches its LogConfig through State::holding: T is put back into the scope it came from", lambda: __import__("c02").r4_holding(ctx, "C15.R7"))
    ctx.guard("C15.R1", "logger", lambda: r1_logger(ctx))
    ctx.guard("C15.R3", "compressed export", lambda: r3_compressed(ctx))
    ctx.guard("C15.R4", "serialisation coverage", lambda: r4_serialization_coverage(ctx))
    ctx.guard("C15.R5", "configuration export", lambda: r5_to_ron(ctx))
    ctx.guard("C15.R6", "serialised names are identifiers", lambda: r6_names_are_identifiers(ctx))


# ------------------------------------------------------------------ R6: names handed to the serializer

NAME_ARGS = {  # Serializer method -> indices (after self) of the arguments that become struct / variant NAMES in the output
    "serialize_unit_struct": (1,), "serialize_newtype_struct": (1,), "serialize_tuple_struct": (1,), "serialize_struct": (1,),
    "serialize_unit_variant": (1, 3), "serialize_newtype_variant": (1, 3), "serialize_tuple_variant": (1, 3), "serialize_struct_variant": (1, 3),
}


def r6_names_are_identifiers(ctx):
    """Configuration::to_ron writes with `struct_names(true)`: every struct / variant name handed to the serializer is
    emitted as a RON identifier, and the RON serializer rejects anything that is not one ("Invalid identifier") - the
    whole export then fails.  So every name argument of a Serializer::serialize_*struct / *variant call in the crate
    (derive-generated ones included) must be a string constant of identifier shape; a run-time string such as
    type_name::<T>() ("mahf::state::common::Iterations") is not."""
    import re
    from core import op_const
    from kinds import origin
    F = ctx.facts
    n = 0
    ident = re.compile(r"^(r#)?[A-Za-z_][A-Za-z0-9_]*$")
    for f in F.all_fns:
        for bb, t in f.body.calls():
            ff = t["f"]
            k = ff.get("key", "")
            nm = ff.get("name")
            if nm not in NAME_ARGS or not re.match(r"^serde(_core)?::ser::Serializer::", k):
                continue
            for ai in NAME_ARGS[nm]:
                if ai >= len(t["args"]):
                    continue
                n += 1
                c = op_const(t["args"][ai])
                text = None
                if c is not None:
                    m = re.match(r'^const "(.*)"$', c.get("text", "")) or re.match(r'^"(.*)"$', c.get("text", ""))
                    text = m.group(1) if m else None
                if text is None:
                    e = f.body.expr_of_op(t["args"][ai])
                    from core import expr_str, subexprs
                    src = [x[1] for x in subexprs(e) if x[0] == "call"]
                    ctx.violation("C15.R6", f.key, "name-argument:%s" % nm,
                                  "%s is given a run-time string as %s name (%s): with struct_names(true) the RON export emits it as an identifier and fails with `Invalid identifier` for any path-like name, so no configuration containing this type can be exported"
                                  % (nm, "variant" if ai == 3 else "struct", ", ".join(src) or expr_str(e)[:80]), loc=f.loc(t.get("line")))
                elif not ident.match(text):
                    ctx.violation("C15.R6", f.key, "name-argument:%s" % nm, "%s is given the name %r, which is not an identifier" % (nm, text), loc=f.loc(t.get("line")))
    ctx.count("serializer_name_arguments", n)
    ctx.floor("C15.R6", "struct / variant names handed to serializers", n, 80)
    if not any(r.get("rule") == "C15.R6" and r.get("verdict") == "violation" for r in ctx.results):
        ctx.ok("C15.R6", "crate", "names-are-identifiers", "%d name arguments" % n)


def r8_logger_init(ctx):
    """K6: Logger::init with a LogConfig of 0..3 rules: every rule's trigger is initialised exactly once, in rule order, the
    first failure stops and is returned; without a LogConfig nothing happens.  (Stateful triggers - every-n, change-of,
    less-than-n - keep their memory in state their init inserts: an uninitialised trigger errs on its first evaluation and
    the logger execution with it.)"""
    F = ctx.facts
    fn = F.method(LOG + "logger::Logger", "init", "mahf::components::Component")
    RULE = LOG + "config::ExtractionRule"
    CONF = LOG + "config::LogConfig"
    ti, xi = F.field_index(RULE, "trigger"), F.field_index(RULE, "extractor")
    bad = []
    n = 0
    conf_home = 10002
    for have in (True, False):
        for k in (range(0, 4) if have else (0,)):
            for fail in [None] + list(range(k)):
                rules = []
                for i in range(k):
                    vals = [None, None]
                    vals[ti] = Sym("trigger:%d" % i, boxlike=True)
                    vals[xi] = Sym("extractor:%d" % i, boxlike=True)
                    rules.append(Agg("adt", RULE, "ExtractionRule", vals))
                seen = []

                def ini(interp, env, f, args, fail=fail):
                    c = load(interp, env, args[0])
                    i = int(c.tag.split(":")[1]) if isinstance(c, Sym) and c.tag.startswith("trigger:") else -1
                    seen.append(i)
                    return err(Sym("boom")) if i == fail else ok(Agg("tuple", None, None, []))

                def holding(interp, env, f, args):
                    if not have:
                        return err(Sym("StateError::NotFound"))
                    outs_ = interp.call_value(args[1], [Ref(conf_home, [], frame="root"), args[0]])
                    if outs_ and len(outs_) == 1 and outs_[0][2] == "return":
                        interp.mstate.clear()
                        interp.mstate.update(outs_[0][3])
                        return outs_[0][0]
                    return TOP
                table = {COND + "::init": ini, "mahf::state::State::holding": holding, "mahf::state::registry::StateRegistry::contains": have}
                it = install(Interp(fn.body, chain(mk_oracle(table), coll_oracle, std_oracle), [Sym("self"), Sym("problem"), Sym("state")], facts=F, inline=INL, max_visits=12))
                it.extra_env = {conf_home: Agg("adt", CONF, "LogConfig", [Vec("rules")])}
                it.init_state = {"heap": {"rules": tuple(rules)}, "next_vec": 0}
                n += 1
                outs = [(p.end, p.ret.variant if isinstance(p.ret, Agg) else None) for p in it.run()]
                want_seen = [] if not have else (list(range(k)) if fail is None else list(range(fail + 1)))
                want = [("return", "Ok" if fail is None else "Err")]
                if outs != want or seen != want_seen:
                    bad.append(("%d rule(s)" % k if have else "no LogConfig", fail, "ends %s after initialising triggers %s; expected %s after %s" % (outs, seen, want, want_seen)))
    ctx.check(not bad, "C15.R8", fn.key, "every-trigger-initialised-once", "%s, trigger %s failing: Logger::init %s" % (bad[0] if bad else ("", "", "")), detail="%d scenarios" % n, loc=fn.loc())


def r9_exports(ctx):
    """K6 on Log::to_json / to_cbor: exactly one serialisation, of the compressed form (CompressedLog::from - decided by R3) of
    the WHOLE log `self`, into a writer on the file created at the caller's path; Ok iff creating the file and serialising
    succeed.  The codecs themselves (serde_json, ciborium) are trusted."""
    F = ctx.facts
    n = 0
    comp = compress_fn(ctx, report=False)

    def makes_compressed(k):
        """the function that builds the compressed form from the log (decided by R3): answered symbolically here"""
        return comp is not None and k == comp.key
    for name, crate in (("to_json", "serde_json"), ("to_cbor", "ciborium")):
        fn = F.fn(LOG + "log::Log::" + name)
        bad = []
        for create_ok in (True, False):
            for ser_ok in ((True, False) if create_ok else (True,)):
                events = []

                def oracle(interp, env, f, args, t, bb, path, create_ok=create_ok, ser_ok=ser_ok):
                    k = f.get("key", "")
                    nm = f.get("name")
                    vals = [load(interp, env, a) for a in args]
                    if k == "std::fs::File::create":
                        events.append(("create", str(vals[0])))
                        return ok(Sym("file")) if create_ok else err(Sym("io-error"))
                    if k in ("std::io::buffered::bufwriter::BufWriter::new", "std::io::BufWriter::new", "std::io::buffered::bufwriter::BufWriter::with_capacity"):
                        return Sym("writer(%s)" % getattr(vals[-1], "tag", "?"))
                    if k in ("core::convert::AsRef::as_ref",) and vals and isinstance(vals[0], Sym):
                        return vals[0]
                    if ((k in ("core::convert::Into::into", "core::convert::From::from")) and "CompressedLog" in " ".join(f.get("gargs") or [])) or makes_compressed(k):
                        return Sym("compressed(%s)" % getattr(vals[0], "tag", "?"))
                    if k.startswith(crate + "::") or k.startswith("serde_json::") or k.startswith("ciborium::"):
                        tags = sorted(getattr(v, "tag", "?") for v in vals)
                        events.append(("serialise", nm, tuple(tags)))
                        if "writer" in nm:
                            return ok(Agg("tuple", None, None, [])) if ser_ok else err(Sym("codec-error"))
                        return ok(Sym("bytes-of:" + "+".join(tags))) if ser_ok else err(Sym("codec-error"))
                    if nm in ("write_all", "write") and len(vals) == 2:
                        events.append(("write", getattr(vals[0], "tag", "?"), getattr(vals[1], "tag", "?")))
                        return ok(Agg("tuple", None, None, []))
                    if nm in ("as_bytes", "as_slice", "as_str", "flush") and vals:
                        return vals[0] if nm != "flush" else ok(Agg("tuple", None, None, []))
                    return TOP
                it = install(Interp(fn.body, chain(oracle, coll_oracle, std_oracle), [Sym("log"), Sym("path")], facts=F, inline=lambda k: k.startswith(LOG + "log::") or k.startswith("<" + LOG + "log::Log"), max_visits=8))
                it.never_inline = makes_compressed
                n += 1
                outs = [(p.end, p.ret.variant if isinstance(p.ret, Agg) else None) for p in it.run()]
                want = [("return", "Ok" if create_ok and ser_ok else "Err")]
                ser = [e for e in events if e[0] == "serialise"]
                wr = [e for e in events if e[0] == "write"]
                label = ("file creation %s, codec %s" % ("succeeds" if create_ok else "fails", "succeeds" if ser_ok else "fails"),)
                if outs != want:
                    bad.append(label + ("ends %s, expected %s" % (outs, want),))
                elif [e for e in events if e[0] == "create"] != [("create", "Sym(path)")]:
                    bad.append(label + ("creates %s, expected exactly the file at the caller's path" % [e for e in events if e[0] == "create"],))
                elif create_ok:
                    direct = len(ser) == 1 and set(ser[0][2]) == {"compressed(log)", "writer(file)"}
                    via_buffer = len(ser) == 1 and set(ser[0][2]) == {"compressed(log)"} and ser_ok and len(wr) == 1 and wr[0][1] == "writer(file)" and "compressed(log)" in wr[0][2]
                    if not (direct or via_buffer or (not ser_ok and len(ser) == 1 and "compressed(log)" in ser[0][2])):
                        bad.append(label + ("serialises %s / writes %s; expected one serialisation of the compressed form of the whole log into the writer on that file" % (ser, wr),))
                elif ser:
                    bad.append(label + ("serialises although the file could not be created",))
        ctx.check(not bad, "C15.R9", fn.key, "whole-log-compressed-into-the-file", "%s: %s %s" % ((bad[0][0], name, bad[0][1]) if bad else ("", name, "")), loc=fn.loc())
    ctx.count("export_scenarios", n)


def r10_config_stays(ctx):
    """K6 with the registry a chain of three scopes (the Logger runs in scope 0, the LogConfig lives in scope 0, 1 or 2 -
    a logger inside a Scope / nested Scopes whose configuration sits in the enclosing state): after init and after execute the
    LogConfig is in exactly the scope it was in (the real State::holding is evaluated, and so is taking it out and putting it
    back by hand).  A LogConfig that ends up in the logger's own scope is dropped when that scope ends, and every later logger
    execution silently logs nothing."""
    F = ctx.facts
    CONF = LOG + "config::LogConfig"
    RREG = "mahf::state::registry::StateRegistry::"
    reg_i = F.field_index("mahf::state::State", "registry")
    nf = len(F.adt("mahf::state::State")["variants"][0]["fields"])
    import statemodel
    for meth in ("init", "execute"):
        fn = F.method(LOG + "logger::Logger", meth, "mahf::components::Component")
        bad = []
        for level in (0, 1, 2):
            RULE = LOG + "config::ExtractionRule"
            ti, xi = F.field_index(RULE, "trigger"), F.field_index(RULE, "extractor")
            rv = [None, None]
            rv[ti] = Sym("trigger:0", boxlike=True)
            rv[xi] = Sym("extractor:0", boxlike=True)
            conf_val = Agg("adt", CONF, "LogConfig", [Vec("rules")])
            conf_ty = []

            def auto(ty, level=level):
                if ty.startswith(CONF + "<") or ty == CONF:
                    conf_ty.append(ty)
                    return {level: conf_val}
                if ty == LOG + "log::Log":
                    return {2: Agg("adt", LOG + "log::Log", "Log", [Vec("steps")])}
                if "::holding::" in ty:
                    return {}
                return None
            store = statemodel.Store(F, levels=3, auto=auto)

            def oracle(interp, env, f, args, t, bb, path):
                k = f.get("key", "")
                if k in (COND + "::evaluate",):
                    return ok(True)
                if k in (COND + "::init",):
                    return ok(Agg("tuple", None, None, []))
                if k == LOG + "extractor::EntryExtractor::extract_entry":
                    vals = [None, None]
                    vals[F.field_index(ENTRY, "name")] = Sym("a")
                    vals[F.field_index(ENTRY, "value")] = Sym("value")
                    return Agg("adt", ENTRY, "Entry", vals)
                if k == "mahf::state::State::iterations":
                    return Sym("iterations-now")
                return TOP
            vals = [Sym("phantom")] * nf
            vals[reg_i] = Sym("reg:0")
            home = 11001
            inl = lambda k: INL(k) or (k.startswith("mahf::state::State::holding") or _private_state_fn(F, k)) or k.startswith("<mahf::state::State as core::ops::deref") or statemodel.inline(k)
            it = install(Interp(fn.body, chain(oracle, store, coll_oracle, std_oracle), [Sym("self"), Sym("problem"), Ref(home, [], frame="root")], facts=F, inline=inl, max_visits=12, max_paths=100))
            it.extra_env = {home: Agg("adt", "mahf::state::State", "State", vals)}
            it.init_state = {"heap": {"steps": (), "rules": (Agg("adt", RULE, "ExtractionRule", rv),)}, "next_vec": 0}
            store.install(it)
            where = ["its own scope", "the enclosing scope", "the scope two levels up"][level]
            paths = it.run()
            if len(paths) != 1 or paths[0].end != "return" or not (isinstance(paths[0].ret, Agg) and paths[0].ret.variant == "Ok"):
                bad.append((where, "is not decided / does not complete (%s)" % [(p.end, str(p.ret)[:40]) for p in paths]))
                continue
            p0 = paths[0]
            conf_in = sorted(l for (ty, l) in p0.mstate.get("have", ()) if ty in conf_ty)
            markers = sorted(l for (ty, l) in p0.mstate.get("have", ()) if "::holding::" in ty)
            if not conf_ty:
                bad.append((where, "never looks for the LogConfig"))
            elif conf_in != [level] or markers:
                bad.append((where, "leaves the LogConfig in scope(s) %s (placeholder left in %s); expected it back in scope %d" % (conf_in, markers, level)))
        ctx.check(not bad, "C15.R10", fn.key, "config-stays-in-its-scope", "LogConfig in %s: Logger::%s %s" % ((bad[0][0], meth, bad[0][1]) if bad else ("", meth, "")), loc=fn.loc())
