"""A typed store for component-level rules: the state registry as a chain of scopes (level 0 = the scope the code under
evaluation runs in, level 1.. = enclosing scopes), one cell per (state type, level).

Instead of mocking individual accessor calls, a rule declares the cells of its scenario (present / absent, with which
value), evaluates the real `init` / `execute` / `evaluate`, and afterwards reads which scope holds what: the verdict is
about the state the code leaves behind, not about the accessor it used.  Every public accessor of the registry is answered
from the cells the way a stack of type-keyed maps answers (C01 decides that the real registry is such a stack, and
C01.R5 that the entry API resolves like this): lookups / value accessors / entry / set_value / get_mut / remove resolve
to the innermost scope holding the type; insert / contains_at_top address level 0; an absent type is an error (try_*),
None (set_value, get_mut) or a panic (borrow*, get_value, take).  The methods of `Entry` itself (or_insert*, and_modify,
or_default, ...) are NOT modelled: the real ones are inlined over the modelled Occupied / Vacant primitives.

Cell values live in the root frame (home ids) so references to them survive calls; presence is path-sensitive
(interp.mstate['have'])."""
from absint import Sym, Agg, Ref, HRef, TOP, some, NONE, ok, err

REG = "mahf::state::registry::StateRegistry::"
ENT = "mahf::state::registry::entry::"
ABSENT = Sym("<absent>")
UNIT = Agg("tuple", None, None, [])


HELPER_MODULES = ("mahf::state::registry::entry::", "mahf::state::registry::multi::", "mahf::state::registry::error::",
                  "mahf::state::common::", "mahf::state::random::", "mahf::state::require::", "mahf::state::registry::", "mahf::state::")
SUBMODULES = {"mahf::state::": ("common", "registry", "random", "require", "lens", "extract"), "mahf::state::registry::": ("entry", "multi", "error")}


def module_helper(k):
    """free functions (and functions in nested private modules) of the state modules: helpers the typed state's own methods are
    split into.  Types' associated functions start with an upper-case segment, trait impls with `<`; what starts lower-case
    directly below a module is a free function or a nested module; the existing submodules are modules of their own (longest
    prefix first), not helpers of their parent"""
    for m in HELPER_MODULES:
        if k.startswith(m):
            seg = k[len(m):].split("::")[0]
            if seg in SUBMODULES.get(m, ()):
                return False
            return bool(seg) and seg[0].islower() and not seg.startswith("{")
    return False


def inline(k):
    """callee keys a rule using the store should let the interpreter inline: the Entry combinators, and the State sugar
    that is more than a renamed accessor (best_individual / best_objective_value, decided by C01.R6), and the (derived)
    Deref / DerefMut of the crate's state newtypes - the cells hold the newtype, the code works on what it wraps"""
    if module_helper(k):
        return True
    return k.startswith(ENT + "Entry::") or k.startswith("<" + ENT + "Entry") or k.startswith("mahf::state::State::best_") \
        or k.startswith("<mahf::state::common::BestIndividual") \
        or (k.startswith("<mahf::") and not k.startswith("<mahf::state::State") and (k.endswith(" as core::ops::deref::Deref>::deref") or k.endswith(" as core::ops::deref::DerefMut>::deref_mut")))


def shaped(F, ty, tag, heap=None):
    """a value of state type `ty` whose leaves are symbols tagged `tag` (a value left behind by earlier steps): the
    ADT's field layout is taken from the facts; marker fields are markers, vectors are two-element heap vectors, options
    are Some"""
    name = ty.split("<")[0]
    try:
        adt = F.adt(name)
    except Exception:
        adt = None
    if not adt or len(adt.get("variants", [])) != 1:
        return Sym(tag)
    vals = []
    for fd in adt["variants"][0]["fields"]:
        fty = fd.get("ty") or ""
        if fty.startswith("core::marker::PhantomData"):
            vals.append(Agg("adt", "core::marker::PhantomData", "PhantomData", []))
        elif fty.startswith("alloc::vec::Vec<") and heap is not None:
            from collmodel import Vec
            vid = "%s.%d" % (tag, fd["i"])
            heap[vid] = (Sym("%s.%d[0]" % (tag, fd["i"])), Sym("%s.%d[1]" % (tag, fd["i"])))
            vals.append(Vec(vid))
        elif fty.startswith("core::option::Option<"):
            vals.append(some(Sym("%s.%d" % (tag, fd["i"]))))
        else:
            vals.append(Sym("%s.%d" % (tag, fd["i"])))
    return Agg("adt", name, adt["variants"][0].get("name") or name.split("::")[-1], vals)


def newtype(F, ty, payload):
    """a value of the crate's newtype state `ty` (payload in field 0, markers where the ADT has marker fields)"""
    name = ty.split("<")[0]
    try:
        adt = F.adt(name)
        flds = adt["variants"][0]["fields"]
    except Exception:
        return Agg("adt", name, name.split("::")[-1], [payload])
    vals = []
    for fd in flds:
        if (fd.get("ty") or "").startswith("core::marker::PhantomData"):
            vals.append(Agg("adt", "core::marker::PhantomData", "PhantomData", []))
        else:
            vals.append(payload if fd["i"] == 0 else TOP)
    return Agg("adt", name, adt["variants"][0].get("name") or name.split("::")[-1], vals)


def by_prefix(F, cells, level=0):
    """auto-cell function from {type name (prefix before `<`): payload | Agg value}: the listed state types are held at
    `level` as newtypes around the payload; every other type is left to the other oracles"""
    def auto(ty):
        base = ty.split("<")[0]
        if base in cells:
            v = cells[base]
            if v is ABSENT:
                return {}
            lvl = level
            if isinstance(v, tuple) and len(v) == 3 and v[0] == "at":      # ("at", level, value)
                lvl, v = v[1], v[2]
            if isinstance(v, tuple) and len(v) == 2 and v[0] == "whole":    # ("whole", value): the cell IS this value
                return {lvl: v[1]}
            return {lvl: v if (isinstance(v, Agg) and v.name == base) else newtype(F, ty, v)}
        return None
    return auto


def payload_of(store, p, prefix, default=None):
    """the payload (field 0) of the state type whose name starts with `prefix`, as the state holds it at the end of path p
    (default: the code never looked at the type, it still holds what the scenario put there)"""
    for ty in store.types():
        if ty.split("<")[0] == prefix:
            v = store.value(p, ty, 0)
            if v is ABSENT:
                return ABSENT
            return v.fields[0] if isinstance(v, Agg) and v.fields else v
    return default


POPULATIONS = "mahf::state::common::Populations"
RANDOM = "mahf::state::random::Random"


def stack_and_rng(F, level=0, rng=None):
    """cells for the two state types every component uses: the population stack (a symbol whose `stack` field is the modelled
    stack of c04.StackModel) and the random generator, both held by scope `level` (0 = the scope the code runs in, 1 = the
    enclosing scope: a component inside a Scope works on its surroundings' stack and generator)"""
    sf = F.field_index(POPULATIONS, "stack")
    popsym = Sym("populations", {sf: Sym("stack")})
    return {POPULATIONS: ("at", level, ("whole", popsym)), RANDOM: ("at", level, ("whole", rng if rng is not None else Sym("rng")))}, popsym, sf


def well_known(populations=None, rng=None):
    """oracle for the two state types every component reaches through `State` sugar, when the code names them with the
    generic accessors instead (`borrow_mut::<Populations<P>>()`, `borrow_mut::<Random>()`; the try_ forms follow by the
    accessor family)"""
    def oracle(interp, env, f, args, t, bb, path):
        k = f.get("key") or ""
        if k.startswith(REG) and f.get("name") in ("borrow", "borrow_mut"):
            g = ((f.get("cgargs") or f.get("gargs") or [""])[0] or "")
            if populations is not None and g.startswith("mahf::state::common::Populations<"):
                return populations
            if rng is not None and g == "mahf::state::random::Random":
                return rng
        return TOP
    return oracle


class Store:
    def __init__(self, F, levels=2, base=30000, auto=None, outward=1, level_of=None, newtypes=()):
        """auto(ty) -> {level: initial value} for a type met during evaluation that has no declared cell (None: such
        types are left to the other oracles)"""
        self.F = F
        self.levels = levels
        self.base = base
        self.homes = {}      # (ty, lvl) -> home
        self.init = {}       # home -> initial value (ABSENT: not held)
        self.auto = auto
        self.heap = {}       # heap vectors of shaped initial values
        self.outward = outward      # +1: enclosing scopes have GREATER level numbers (0 = innermost); -1: smaller (0 = root)
        self.level_of = level_of    # how a receiver value maps to its scope level (default: `reg:<n>` symbols, else 0)
        self.newtypes = set(newtypes)   # type names (e.g. a type parameter `T`) to be treated as newtypes whose Deref target is field 0
        self.touched = []    # types in order of first access
        self._auto_types = set()

    # ---- declaration
    def cell(self, ty, lvl=0, value=ABSENT):
        h = self.homes.get((ty, lvl))
        if h is None:
            h = self.base + len(self.homes)
            self.homes[(ty, lvl)] = h
        self.init[h] = value
        return h

    def install(self, it):
        it.extra_env = dict(getattr(it, "extra_env", None) or {})
        for h, v in self.init.items():
            it.extra_env[h] = v
        st = dict(getattr(it, "init_state", None) or {})
        st["have"] = tuple(sorted(k for k, h in self.homes.items() if self.init[h] is not ABSENT))
        hp = dict(st.get("heap", {}))
        hp.update(self.heap)
        st["heap"] = hp
        st.setdefault("next_vec", 0)
        it.init_state = st
        self._it = it
        return it

    # ---- reading a finished path
    def holders(self, p, ty):
        return sorted(l for (t, l) in p.mstate.get("have", ()) if t == ty)

    def value(self, p, ty, lvl=0):
        h = self.homes.get((ty, lvl))
        if h is None:
            return ABSENT
        if (ty, lvl) not in p.mstate.get("have", ()):
            return ABSENT
        return p.env.get(h, TOP)

    def types(self):
        return list(self.touched)

    # ---- the oracle
    def _known(self, interp, env, ty):
        declared = any(t == ty for (t, _l) in self.homes) and ty not in self._auto_types
        if declared:
            return True
        if self.auto is None:
            return False
        if ty in interp.mstate.get("known", ()):
            return True
        spec = self.auto(ty)
        if spec is None:
            return False
        # a cell first met on this path: its initial values are written into this path's root frame now
        self._auto_types.add(ty)
        have = set(interp.mstate.get("have", ()))
        for lvl in range(self.levels):
            v = spec.get(lvl, ABSENT)
            h = self.cell(ty, lvl, v)
            interp.write_ref(env, Ref(h, [], frame="root"), v)
            if v is not ABSENT:
                have.add((ty, lvl))
        interp.mstate["have"] = tuple(sorted(have))
        interp.mstate["known"] = tuple(sorted(set(interp.mstate.get("known", ())) | {ty}))
        if self.heap:
            hp = dict(interp.mstate.get("heap", {}))
            for k_, v_ in self.heap.items():
                hp.setdefault(k_, v_)
            interp.mstate["heap"] = hp
        return True

    def _holder(self, interp, ty, lvl=0):
        """the innermost scope at or outside `lvl` that holds ty (a registry value `reg:L` stands for scope L and its parents)"""
        if self.outward > 0:
            ls = sorted(l for (t, l) in interp.mstate.get("have", ()) if t == ty and l >= lvl)
            return ls[0] if ls else None
        ls = sorted(l for (t, l) in interp.mstate.get("have", ()) if t == ty and l <= lvl)
        return ls[-1] if ls else None

    def clear_level(self, interp, lvl):
        """a scope is opened / closed: nothing is held at that level"""
        interp.mstate["have"] = tuple(x for x in interp.mstate.get("have", ()) if x[1] != lvl)

    def visible_value(self, interp, env, ty, lvl):
        h = self._holder(interp, ty, lvl)
        return interp.read_ref(env, self._ref(ty, h)) if h is not None else None

    def _level(self, interp, env, recv):
        if self.level_of is not None:
            r = self.level_of(interp, env, recv)
            return r if r is not None else 0
        v = load_(interp, env, recv)
        if isinstance(v, Sym) and v.tag.startswith("reg:"):
            try:
                return int(v.tag[4:])
            except ValueError:
                return 0
        return 0

    def put(self, interp, env, ty, lvl, value):
        """a scenario's own actor (e.g. a user closure) inserts a value"""
        interp.write_ref(env, self._ref(ty, lvl), value)
        self._set_have(interp, ty, lvl, True)

    def _set_have(self, interp, ty, lvl, present):
        have = set(interp.mstate.get("have", ()))
        (have.add if present else have.discard)((ty, lvl))
        interp.mstate["have"] = tuple(sorted(have))

    def _ref(self, ty, lvl, value=False):
        h = self.homes.get((ty, lvl))
        if h is None:
            h = self.cell(ty, lvl, ABSENT)
        return Ref(h, [["f", 0, None]] if value else [], frame="root")

    def _single_payload(self, ty):
        """value accessors reach the Deref target of T: for the crate's newtype states that is field 0"""
        if ty in self.newtypes:
            return True
        try:
            adt = self.F.adt(ty.split("<")[0])
            flds = [fd for fd in adt["variants"][0]["fields"] if not (fd.get("ty") or "").startswith("core::marker::PhantomData")]
            return len(adt["variants"]) == 1 and len(flds) == 1 and flds[0]["i"] == 0
        except Exception:
            return False

    def __call__(self, interp, env, f, args, t, bb, path):
        k = f.get("key") or ""
        nm = f.get("name")
        if k.startswith(REG):
            ty = (f.get("cgargs") or f.get("gargs") or [None])[0]
            if not ty or not self._known(interp, env, ty):
                return TOP
            if ty not in self.touched:
                self.touched.append(ty)
            lvl = self._level(interp, env, args[0]) if args else 0
            h = self._holder(interp, ty, lvl)
            missing = err(Sym("StateError::NotFound"))
            if nm in ("find", "find_mut"):
                return ok(Sym("reg:%d" % h)) if h is not None else missing
            if nm in ("contains", "has"):
                return h is not None
            if nm == "contains_at_top":
                return (ty, lvl) in interp.mstate.get("have", ())
            if nm == "insert" and len(args) == 2:
                had = (ty, lvl) in interp.mstate.get("have", ())
                r = self._ref(ty, lvl)
                old = interp.read_ref(env, r) if had else None
                interp.write_ref(env, r, load_(interp, env, args[1]))
                self._set_have(interp, ty, lvl, True)
                interp.mstate["inserted"] = interp.mstate.get("inserted", ()) + (ty,)
                return some(old) if had else NONE
            if nm in ("try_borrow", "try_borrow_mut"):
                return ok(self._ref(ty, h)) if h is not None else missing
            if nm in ("borrow", "borrow_mut"):
                return self._ref(ty, h) if h is not None else "DIVERGE"
            if nm == "get_mut":
                return some(self._ref(ty, h)) if h is not None else NONE
            if nm in ("remove", "take", "try_remove"):
                if h is None:
                    return "DIVERGE" if nm == "take" else missing
                v = interp.read_ref(env, self._ref(ty, h))
                self._set_have(interp, ty, h, False)
                return v if nm == "take" else ok(v)
            if nm == "entry":
                if h is not None:
                    return Agg("adt", ENT + "Entry", "Occupied", [Sym("occupied|%s|%d" % (ty, h))])
                return Agg("adt", ENT + "Entry", "Vacant", [Sym("vacant|%s|%d" % (ty, lvl))])
            if nm in ("try_borrow_value", "try_borrow_value_mut", "borrow_value", "borrow_value_mut", "get_value", "try_get_value", "set_value"):
                if not self._single_payload(ty):
                    return TOP
                if h is None:
                    if nm == "set_value":
                        return NONE
                    return missing if nm.startswith("try_") else "DIVERGE"
                r = self._ref(ty, h, value=True)
                if nm == "set_value":
                    old = interp.read_ref(env, r)
                    interp.write_ref(env, r, load_(interp, env, args[1]))
                    return some(old)
                if nm in ("get_value", "try_get_value"):
                    v = interp.read_ref(env, r)
                    return v if nm == "get_value" else ok(v)
                return ok(r) if nm.startswith("try_") else r
            return TOP
        if k.startswith(ENT + "OccupiedEntry::") or k.startswith(ENT + "VacantEntry::"):
            a0 = load_(interp, env, args[0]) if args else None
            if not (isinstance(a0, Sym) and "|" in a0.tag):
                return TOP
            kind, ty, lvl = a0.tag.split("|")
            lvl = int(lvl)
            r = self._ref(ty, lvl)
            if kind == "occupied":
                if nm in ("get", "get_mut", "into_mut"):
                    return r
                if nm == "insert" and len(args) == 2:
                    old = interp.read_ref(env, r)
                    interp.write_ref(env, r, load_(interp, env, args[1]))
                    return old
                if nm == "remove":
                    v = interp.read_ref(env, r)
                    self._set_have(interp, ty, lvl, False)
                    return v
                return TOP
            if kind == "vacant":
                if nm == "insert" and len(args) == 2:
                    interp.write_ref(env, r, load_(interp, env, args[1]))
                    self._set_have(interp, ty, lvl, True)
                    interp.mstate["inserted"] = interp.mstate.get("inserted", ()) + (ty,)
                    return r
                return TOP
        return TOP


def load_(interp, env, v, n=0):
    while n < 6 and isinstance(v, Ref):
        n += 1
        tgt = interp.read_ref(env, v)
        if isinstance(tgt, (Sym,)) or hasattr(tgt, "vid"):
            return tgt
        v = tgt
    return v
