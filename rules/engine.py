"""Check driver: extraction management (tree hash, cache, cargo + rustc driver), rule execution,
known findings, evidence and VIOLATION output."""
import argparse
import fcntl
import glob
import hashlib
import importlib
import json
import os
import shutil
import subprocess
import sys
import time
import traceback

VERIF = os.path.dirname(os.path.dirname(os.path.abspath(__file__)))
REPO = os.environ.get("MAHF_REPO", "/repo")
CACHE = os.environ.get("MAHF_SA_CACHE", os.path.join(VERIF, ".cache"))
DRIVER = os.path.join(VERIF, "extractor", "target", "release", "mahf-facts")

sys.path.insert(0, os.path.join(VERIF, "rules"))
from core import load_facts, AnchorMissing  # noqa: E402


# --------------------------------------------------------------------------- extraction

def tree_hash(repo=REPO):
    h = hashlib.sha256()
    files = []
    for top in ("src", "examples", "benches", "tests"):
        for root, dirs, fs in os.walk(os.path.join(repo, top)):
            dirs.sort()
            for f in sorted(fs):
                files.append(os.path.join(root, f))
    for f in ("Cargo.toml", "Cargo.lock", "build.rs"):
        p = os.path.join(repo, f)
        if os.path.exists(p):
            files.append(p)
    for p in files:
        h.update(os.path.relpath(p, repo).encode())
        h.update(b"\0")
        with open(p, "rb") as fh:
            h.update(fh.read())
        h.update(b"\0")
    with open(DRIVER, "rb") as fh:
        h.update(hashlib.sha256(fh.read()).digest())
    return h.hexdigest()[:24]


def nightly_sysroot():
    return subprocess.check_output(["rustc", "+nightly", "--print", "sysroot"], text=True).strip()


def ensure_driver():
    if os.path.exists(DRIVER):
        return
    env = dict(os.environ, CARGO_NET_OFFLINE="true")
    subprocess.check_call(["cargo", "build", "--release", "--offline"], cwd=os.path.join(VERIF, "extractor"), env=env)


def run_driver(crate_dir, out_dir, target_dir, all_targets, crate_names):
    """run `cargo +nightly check` with the fact driver as workspace wrapper; returns (rc, log)"""
    os.makedirs(out_dir, exist_ok=True)
    os.makedirs(target_dir, exist_ok=True)
    # cargo's freshness cache would skip the wrapper: remove the members' fingerprints
    for nm in crate_names:
        for p in glob.glob(os.path.join(target_dir, "debug", ".fingerprint", nm + "-*")):
            shutil.rmtree(p, ignore_errors=True)
    env = dict(os.environ)
    env.update({
        "LD_LIBRARY_PATH": os.path.join(nightly_sysroot(), "lib") + ":" + env.get("LD_LIBRARY_PATH", ""),
        "RUSTFLAGS": "-Zmir-opt-level=0 -Zmir-enable-passes=-CheckAlignment,-CheckNull,-CheckEnums -Awarnings",
        "RUSTC_WORKSPACE_WRAPPER": DRIVER,
        "CARGO_TARGET_DIR": target_dir,
        "CARGO_NET_OFFLINE": "true",
        "MAHF_FACTS_OUT": out_dir,
        "MAHF_FACTS_CRATES": "*",
    })
    env.pop("RUSTC_WRAPPER", None)
    cmd = ["cargo", "+nightly", "check", "--offline"]
    cmd += ["--all-targets"] if all_targets else ["--lib"]
    p = subprocess.run(cmd, cwd=crate_dir, env=env, stdout=subprocess.PIPE, stderr=subprocess.STDOUT, text=True)
    return p.returncode, p.stdout


def extract(all_targets=False, repo=REPO):
    """returns (tree_hash, [fact files]) for the current working tree of the repo"""
    ensure_driver()
    os.makedirs(CACHE, exist_ok=True)
    with open(os.path.join(CACHE, "lock"), "w") as lk:
        fcntl.flock(lk, fcntl.LOCK_EX)
        th = tree_hash(repo)
        tag = "all" if all_targets else "lib"
        out_dir = os.path.join(CACHE, "facts", th + "-" + tag)
        done = os.path.join(out_dir, ".done")
        if not os.path.exists(done):
            shutil.rmtree(out_dir, ignore_errors=True)
            # keep the cache small: only the most recently used fact sets survive
            olds = sorted(glob.glob(os.path.join(CACHE, "facts", "*")), key=os.path.getmtime, reverse=True)
            for old in olds[8:]:
                shutil.rmtree(old, ignore_errors=True)
            rc, log = run_driver(repo, out_dir, os.path.join(CACHE, "target"), all_targets, ["mahf"])
            if rc != 0:
                sys.stdout.write(log[-6000:])
                print("ERROR: /repo does not build under the fact driver (exit %d); no verdict" % rc)
                sys.exit(2)
            with open(done, "w") as fh:
                fh.write(th)
        files = sorted(glob.glob(os.path.join(out_dir, "*.json")))
        # the fact file's existence is asserted, never assumed
        libs = [f for f in files if os.path.basename(f).startswith("mahf-") and "-test" not in os.path.basename(f)]
        if not libs:
            print("ERROR: no fact file for crate mahf was produced in %s" % out_dir)
            sys.exit(2)
        ordered = libs + [f for f in files if f not in libs]
        return th, ordered


def extract_fixtures(repo=REPO):
    """fact file of the fixtures crate (positive/negative examples of the expected-zero rules), built against
    the same tree; returns the path or None when the fixtures cannot be built (then the self-test is skipped
    and says so - it tests the rules, not the repository)."""
    ensure_driver()
    os.makedirs(CACHE, exist_ok=True)
    with open(os.path.join(CACHE, "lock"), "w") as lk:
        fcntl.flock(lk, fcntl.LOCK_EX)
        h = hashlib.sha256()
        h.update(tree_hash(repo).encode())
        for root, dirs, fs in os.walk(os.path.join(VERIF, "fixtures", "src")):
            for f in sorted(fs):
                with open(os.path.join(root, f), "rb") as fh:
                    h.update(fh.read())
        th = h.hexdigest()[:24]
        out_dir = os.path.join(CACHE, "facts", "fx-" + th)
        done = os.path.join(out_dir, ".done")
        if not os.path.exists(done):
            shutil.rmtree(out_dir, ignore_errors=True)
            src = os.path.join(CACHE, "fx-src")
            shutil.rmtree(src, ignore_errors=True)
            shutil.copytree(os.path.join(VERIF, "fixtures"), src, ignore=shutil.ignore_patterns("target", "Cargo.lock"))
            with open(os.path.join(src, "Cargo.toml")) as fh:
                toml = fh.read().replace('path = "/repo"', 'path = "%s"' % repo)
            with open(os.path.join(src, "Cargo.toml"), "w") as fh:
                fh.write(toml)
            shutil.copy(os.path.join(repo, "Cargo.lock"), os.path.join(src, "Cargo.lock"))
            rc, log = run_driver(src, out_dir, os.path.join(CACHE, "target-fx"), False, ["mahf_sa_fixtures", "mahf"])
            if rc != 0:
                sys.stdout.write("NOTE: fixtures crate does not build against this tree; rule self-test skipped\n" + log[-1500:])
                return None
            with open(done, "w") as fh:
                fh.write(th)
        files = sorted(glob.glob(os.path.join(out_dir, "mahf_sa_fixtures-*.json")))
        return files[0] if files else None


# --------------------------------------------------------------------------- known findings

def load_known():
    p = os.path.join(VERIF, "known_findings.json")
    if not os.path.exists(p):
        return {"known": [], "fixed": []}
    with open(p) as fh:
        return json.load(fh)


# --------------------------------------------------------------------------- context

class Ctx:
    def __init__(self, prop, tier, facts, tree):
        self.prop = prop
        self.tier = tier
        self.facts = facts
        self.tree = tree
        self.results = []
        self.counters = {}
        self.floors = {}
        self.notes = []
        self.lib = facts  # alias
        self.alias = {}   # rule ids of a borrowed rule body -> rule id under this property

    def borrow(self, new_rule, item, module, fname, old_prefix):
        """run a rule body of another property's module under a rule id of THIS property: the borrowed rule decides a
        mechanism this property's statement depends on (its results are recorded as `new_rule`)"""
        prev = dict(self.alias)
        self.alias[old_prefix] = new_rule
        try:
            self.guard(new_rule, item, lambda: getattr(__import__(module), fname)(self))
        finally:
            self.alias = prev

    def _r(self, rule):
        for old, new in self.alias.items():
            if rule == old or rule.startswith(old + "."):
                return new
        return rule

    # a rule instance that was evaluated and held
    def ok(self, rule, item, instance="", detail=""):
        rule = self._r(rule)
        self.results.append({"rule": rule, "item": item, "instance": instance, "verdict": "ok", "detail": detail})

    def violation(self, rule, item, instance, msg, kind="rule-violated", loc=None):
        rule = self._r(rule)
        self.results.append({"rule": rule, "item": item, "instance": instance, "verdict": "violation",
                             "kind": kind, "msg": msg, "loc": loc})

    def check(self, cond, rule, item, instance, msg, detail="", loc=None, kind="rule-violated"):
        if cond:
            self.ok(rule, item, instance, detail)
        else:
            self.violation(rule, item, instance, msg, kind=kind, loc=loc)
        return cond

    def floor(self, rule, what, found, expected):
        rule = self._r(rule)
        self.floors["%s:%s" % (rule, what)] = {"found": found, "expected_at_least": expected}
        if found < expected:
            self.violation(rule, what, "floor", "only %d instances of %s found, %d confirmed by hand on the reference tree"
                           % (found, what, expected), kind="floor")
        else:
            self.ok(rule, what, "floor", "%d >= %d" % (found, expected))

    def count(self, name, n=1):
        self.counters[name] = self.counters.get(name, 0) + n

    def guard(self, rule, item, fn):
        """run a rule body; a missing anchor or an engine error fails closed under this rule id"""
        try:
            fn()
        except AnchorMissing as e:
            self.violation(rule, item, "anchor", str(e), kind="anchor-missing")
        except Exception as e:  # engine bug or a shape the rule cannot read: fail closed, say so
            tb = traceback.format_exc(limit=4)
            self.violation(rule, item, "engine", "rule could not be evaluated: %r\n%s" % (e, tb), kind="undecided-shape")


def key_of(prop, r):
    return "%s|%s|%s|%s" % (prop, r["rule"], r["item"], r["instance"])


EXPLANATIONS = {}


def run_property(prop, tier, seed):
    t0 = time.time()
    all_targets = tier == "thorough"
    tree, files = extract(all_targets=False)
    facts = load_facts([files[0]])
    ctx = Ctx(prop, tier, facts, tree)
    if all_targets:
        _, files_all = extract(all_targets=True)
        ctx.all_facts = load_facts(files_all)
    else:
        ctx.all_facts = facts
    mod = importlib.import_module(prop.lower())
    if getattr(mod, "USES_FIXTURES", False):
        fx = extract_fixtures()
        ctx.fixture_facts = load_facts([files[0], fx]) if fx else None
    mod.run(ctx)
    __import__("deps").run(ctx)
    if tier == "thorough" and hasattr(mod, "run_thorough"):
        mod.run_thorough(ctx)

    known = load_known()
    known_keys = {k["key"]: k for k in known.get("known", [])}
    viol = [r for r in ctx.results if r["verdict"] == "violation"]
    new = []
    for r in viol:
        k = key_of(prop, r)
        if k in known_keys:
            r["verdict"] = "known"
            print("KNOWN-FINDING: property=%s %s" % (prop, known_keys[k]["what"]))
        else:
            new.append(r)
    evdir = os.environ.get("MAHF_SA_EVIDENCE", os.path.join(VERIF, "evidence"))
    os.makedirs(os.path.join(evdir, "replay"), exist_ok=True)
    replay = os.path.join(evdir, "replay", "%s.json" % prop)
    if new:
        with open(replay, "w") as fh:
            json.dump({"property": prop, "tree": tree, "violations": [dict(r, key=key_of(prop, r)) for r in new]}, fh, indent=1)
    elif os.path.exists(replay):
        os.remove(replay)

    oks = [r for r in ctx.results if r["verdict"] == "ok"]
    distinct = len({(r["rule"], r["item"], r["instance"]) for r in oks})
    samples = []
    seen_rules = set()
    for r in ctx.results:
        if r["rule"] not in seen_rules or r["verdict"] != "ok":
            seen_rules.add(r["rule"])
            samples.append({k: v for k, v in r.items() if v not in (None, "")})
    samples = samples[:60]
    ev = {
        "property_id": prop,
        "tier": tier,
        "seed": seed,
        "level": "other",
        "coverage": {
            "explanation": getattr(mod, "EXPLANATION", "static rules over rustc MIR of /repo's current tree") + __import__("deps").explain(prop),
            "obligations": len(ctx.results),
            "discharged": len(oks),
            "evaluations": len(ctx.results),
            "distinct_nontrivial": distinct,
            "rule": "rule instances are enumerated from the fact base (every impl/function/call site the rule's "
                    "semantic anchor matches); an instance is non-trivial when it matched at least one site and "
                    "distinct by (rule, item, instance)",
            "samples": samples,
            "rules": sorted({r["rule"] for r in ctx.results}),
            "bodies_in_fact_base": len(facts.all_fns),
            "bodies_evaluated_by_the_interpreter": len(__import__("absint").EVALUATED_BODIES),
            "evaluated_bodies": sorted(__import__("absint").EVALUATED_BODIES),
            "rule_items": sorted({str(r.get("item")) for r in ctx.results}),
            "counters": ctx.counters,
            "floors": ctx.floors,
            "tree_hash": tree,
            "fact_files": [os.path.basename(f) for f in files],
            "known_findings_matched": len(viol) - len(new),
            "notes": ctx.notes,
            "exhaustive": True,
        },
        "assumptions": getattr(mod, "ASSUMPTIONS", []) + [
            "rustc's type checking and MIR construction (nightly 1.97, mir-opt-level=0) are trusted",
            "std and third-party crates behave as documented; panics/unwinding are out of scope unless a rule says otherwise",
        ],
        "wall_s": round(time.time() - t0, 3),
        "violations": len(new),
    }
    with open(os.path.join(evdir, "%s.json" % prop), "w") as fh:
        json.dump(ev, fh, indent=1)
    print("%s tier=%s tree=%s rules=%d instances=%d ok=%d known=%d violations=%d wall=%.1fs" % (
        prop, tier, tree, len(ev["coverage"]["rules"]), len(ctx.results), len(oks), len(viol) - len(new), len(new), ev["wall_s"]))
    for r in new:
        print("  [%s] %s %s %s: %s%s" % (r.get("kind"), r["rule"], r["item"], r["instance"], r["msg"],
                                         (" @ " + r["loc"]) if r.get("loc") else ""))
    if new:
        print("VIOLATION property=%s replay=%s" % (prop, replay))
        return 1
    return 0


def main():
    ap = argparse.ArgumentParser()
    ap.add_argument("prop")
    ap.add_argument("--tier", default=os.environ.get("VERIF_TIER", "quick"))
    args = ap.parse_args()
    seed = int(os.environ.get("VERIF_SEED", "0") or 0)
    tier = args.tier if args.tier in ("quick", "thorough") else "quick"
    sys.exit(run_property(args.prop.upper(), tier, seed))


if __name__ == "__main__":
    main()
