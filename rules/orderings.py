"""finite abstract domain: weak orderings of n opaque objective values"""
import itertools


def weak_orderings(n):
    """all weak orderings of n items as dense rank tuples (n=3 -> 13)"""
    seen = set()
    for t in itertools.product(range(n), repeat=n):
        vals = sorted(set(t))
        dense = tuple(vals.index(x) for x in t)
        seen.add(dense)
    return sorted(seen)
