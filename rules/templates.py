"""K12 — template abstract interpretation: the heuristic template constructors are straight-line builder
code; their MIR is interpreted (absint.Interp) with the real ConfigurationBuilder / control-flow
constructors inlined and every other call that produces a Box<dyn Component|Condition> taken as a leaf.
Result: one component tree per returning path of each template."""
from absint import Interp, Sym, Agg, Ref, HRef, TOP, some, NONE, ok, err, std_oracle, chain
from collmodel import coll_oracle, Vec, heap_get, load

CF = "mahf::components::control_flow::"
INLINE_EXACT = {CF + "Block::new", CF + "Loop::new", CF + "Branch::new", CF + "Branch::new_with_else", CF + "Scope::new", CF + "Scope::new_with",
                "<alloc::boxed::Box as core::convert::From>::from",
                "<alloc::boxed::Box as core::ops::bit::BitOr>::bitor", "<alloc::boxed::Box as core::ops::bit::BitAnd>::bitand", "<alloc::boxed::Box as core::ops::bit::Not>::not",
                "mahf::conditions::logical::And::new", "mahf::conditions::logical::Or::new", "mahf::conditions::logical::Not::new"}


_FACTS = [None]


def composite_ctor(k):
    """a constructor of a type that has no Component/Condition impl of its own: it assembles a composite
    (e.g. ParticleSwarmInit::new builds a Block) and is interpreted like a template"""
    F = _FACTS[0]
    if F is None:
        return False
    fn = F.fn_opt(k)
    if fn is None or not fn.sig or not is_comp_ty(fn.sig["output"]) or not fn.impl_self_adt:
        return False
    adt = fn.impl_self_adt
    return F.fn_opt("<%s as mahf::components::Component>::execute" % adt) is None and F.fn_opt("<%s as mahf::conditions::Condition>::evaluate" % adt) is None


def inline_pred(k):
    return k.startswith("mahf::heuristics::") or k.startswith("mahf::configuration::") or k.startswith("<mahf::configuration::") or k in INLINE_EXACT or composite_ctor(k)


import re
_COMP_RX = re.compile(r"^(core::result::Result<)?alloc::boxed::Box<dyn mahf::(components::Component|conditions::Condition)<")


def is_comp_ty(ty):
    return bool(_COMP_RX.match(ty))


class Leaf:
    def __init__(self, kind, ty, ctor, args, gargs, line=None):
        self.kind = kind      # 'component' | 'condition'
        self.ty = ty          # ADT path of the concrete type, or 'param:<name>'
        self.ctor = ctor
        self.args = args
        self.gargs = gargs
        self.line = line

    def __repr__(self):
        return "%s" % (self.ty.split("::")[-1] if self.ty else self.ctor)


def make_oracle(F):
    _FACTS[0] = F
    from_impl = F.fn_opt("<alloc::boxed::Box as core::convert::From>::from")

    def oracle(interp, env, f, args, t, bb, path):
        k = f.get("resolved", {}).get("key") or f.get("key", "")
        dk = f.get("key", "")
        ret = f.get("ret", "") or ""
        nm = f.get("name")
        if dk == "alloc::boxed::Box::new":
            return args[0]
        if dk in ("eyre::WrapErr::wrap_err", "eyre::WrapErr::wrap_err_with", "eyre::WrapErr::context", "eyre::WrapErr::with_context"):
            return args[0]
        if dk == "core::convert::Into::into" and len(f.get("gargs") or []) == 2:
            src, dst = f.get("cgargs") or f["gargs"]
            if src == dst:
                return args[0]
            a0v = load(interp, env, args[0])
            if is_comp_ty(dst) and ((isinstance(a0v, Agg) and (a0v.kind == "leaf" or (a0v.kind == "adt" and (a0v.name or "").startswith(CF)))) or (isinstance(a0v, Sym) and a0v.tag.startswith("param:"))):
                return args[0]        # `impl Into<Box<dyn Component>>` instantiated with a component: the reflexive conversion
            if is_comp_ty(dst) and from_impl is not None and not is_comp_ty(src):
                outs = interp.call_body(from_impl, [args[0]])
                if len(outs) == 1 and outs[0][2] == "return":
                    interp.mstate.clear()
                    interp.mstate.update(outs[0][3])
                    return outs[0][0]
        if nm and "into_vec" in nm and args:
            from collmodel import new_vec
            a = load(interp, env, args[0])
            if isinstance(a, Agg) and a.kind in ("array", "tuple"):
                return new_vec(interp, a.fields)
            # vec![a, b] = Box::new_uninit(); write the array; box_assume_init_into_vec_unsafe(box)
            for ev in reversed(path.events):
                if ev.kind == "store" and isinstance(ev.data[1], Agg) and ev.data[1].kind == "array":
                    return new_vec(interp, ev.data[1].fields)
        if dk == "core::clone::Clone::clone":
            return TOP
        if f.get("kind") == "def" and is_comp_ty(ret) and not inline_pred(k) and (k.startswith("mahf::") or k.startswith("<mahf::")):
            kind = "condition" if "dyn mahf::conditions::Condition<" in ret else "component"
            ty = f.get("self_adt") or k
            leaf = Agg("leaf", None, None, [Leaf(kind, ty, k, [a for a in args], f.get("cgargs") or f.get("gargs"), t.get("line"))])
            if ret.startswith("core::result::Result<"):
                # constructors may reject parameters: both outcomes are explored, only Ok trees are analysed
                return TOP if False else ok(leaf)
            return leaf
        # a validating constructor that returns the component itself (`from_params(..) -> ExecResult<Self>`, boxed by the caller):
        # the same leaf, one step earlier
        if f.get("kind") == "def" and (k.startswith("mahf::components::") or k.startswith("mahf::conditions::")) and not inline_pred(k):
            base = ret[len("core::result::Result<"):] if ret.startswith("core::result::Result<") else ret
            adt_ = base.split("<")[0].split(",")[0].strip()
            kinds_ = getattr(F, "_leaf_kinds", None)
            if kinds_ is None:
                to_tree(F, {}, Agg("adt", "?", None, []))      # (fills F._leaf_kinds)
                kinds_ = getattr(F, "_leaf_kinds", {})
            if adt_ in kinds_ and not adt_.startswith(CF) and f.get("self_adt") == adt_:
                leaf = Agg("leaf", None, None, [Leaf(kinds_[adt_], adt_, k, [a for a in args], f.get("cgargs") or f.get("gargs"), t.get("line"))])
                return ok(leaf) if ret.startswith("core::result::Result<") else leaf
        return TOP
    return oracle


def unbox(interp_state, v):
    return v


class Node:
    def __init__(self, kind, ty=None, children=None, leaf=None, extra=None):
        self.kind = kind          # 'block' | 'loop' | 'branch' | 'scope' | 'leaf' | 'unknown'
        self.ty = ty
        self.children = children or []
        self.leaf = leaf
        self.extra = extra or {}

    def __repr__(self):
        if self.kind == "leaf":
            return repr(self.leaf)
        if self.kind == "block":
            return "[" + ", ".join(map(repr, self.children)) + "]"
        if self.kind == "loop":
            return "while(%r){%r}" % (self.extra.get("condition"), self.children[0])
        if self.kind == "branch":
            return "if(%r){%r}else{%r}" % (self.extra.get("condition"), self.children[0], self.children[1] if len(self.children) > 1 else None)
        if self.kind == "scope":
            return "scope%s{%r}" % ("+merge" if self.extra.get("merge") else "", self.children[0])
        return "?%s" % self.ty


def to_tree(F, heap, v, depth=0):
    """abstract value -> Node"""
    if depth > 60:
        return Node("unknown", "depth")
    if isinstance(v, Agg) and v.kind == "leaf":
        return Node("leaf", v.fields[0].ty, leaf=v.fields[0])
    if isinstance(v, Sym) and v.tag.startswith("param:"):
        return Node("leaf", v.tag, leaf=Leaf("component", v.tag, None, [], None))
    if isinstance(v, Agg) and v.kind == "adt":
        if v.name == CF + "Block":
            items = v.fields[0]
            kids = []
            if isinstance(items, Vec):
                kids = [to_tree(F, heap, x, depth + 1) for x in heap.get(items.vid, ())]
            else:
                kids = [Node("unknown", "block-items:%r" % (items,))]
            return Node("block", children=kids)
        if v.name == CF + "Loop":
            ci = F.field_index(CF + "Loop", "condition")
            bi = F.field_index(CF + "Loop", "body")
            return Node("loop", children=[to_tree(F, heap, v.fields[bi], depth + 1)], extra={"condition": to_tree(F, heap, v.fields[ci], depth + 1)})
        if v.name == CF + "Branch":
            ci = F.field_index(CF + "Branch", "condition")
            ii = F.field_index(CF + "Branch", "if_body")
            ei = F.field_index(CF + "Branch", "else_body")
            kids = [to_tree(F, heap, v.fields[ii], depth + 1)]
            e = v.fields[ei]
            if isinstance(e, Agg) and e.variant == "Some":
                kids.append(to_tree(F, heap, e.fields[0], depth + 1))
            return Node("branch", children=kids, extra={"condition": to_tree(F, heap, v.fields[ci], depth + 1)})
        if v.name == CF + "Scope":
            bi = F.field_index(CF + "Scope", "body")
            mi = F.field_index(CF + "Scope", "states_merge")
            si = F.field_index(CF + "Scope", "state_init")
            return Node("scope", children=[to_tree(F, heap, v.fields[bi], depth + 1)], extra={"merge_fn": v.fields[mi], "init_fn": v.fields[si]})
        if v.name == "mahf::configuration::Configuration":
            return to_tree(F, heap, v.fields[0], depth + 1)
        if v.name.startswith("mahf::conditions::logical::"):
            ops = v.fields[0]
            kids = [to_tree(F, heap, x, depth + 1) for x in heap.get(ops.vid, ())] if isinstance(ops, Vec) else [to_tree(F, heap, ops, depth + 1)]
            return Node("leaf", v.name, leaf=Leaf("condition", v.name, None, kids, None))
        # a component / condition built by a struct literal instead of its constructor (`Box::new(AcoGeneration { .. })`): the same leaf
        kinds_ = getattr(F, "_leaf_kinds", None)
        if kinds_ is None:
            kinds_ = F._leaf_kinds = {}
            for im in F.impls:
                if im.get("self_adt") and im.get("trait") == "mahf::components::Component":
                    kinds_[im["self_adt"]] = "component"
                elif im.get("self_adt") and im.get("trait") == "mahf::conditions::Condition":
                    kinds_.setdefault(im["self_adt"], "condition")
        if v.name in kinds_ and not v.name.startswith(CF):
            return Node("leaf", v.name, leaf=Leaf(kinds_[v.name], v.name, None, list(v.fields), getattr(v, "gargs", None)))
    return Node("unknown", repr(v)[:80])


def template_trees(F, fn):
    """[(Node, path)] one tree per Ok-returning path of the template constructor"""
    import itertools
    from collmodel import install as _install
    OPT = "core::option::Option<alloc::boxed::Box<dyn mahf::"
    ins = fn.sig["inputs"]
    names = {}
    for d in fn.body.dbg:
        if d.get("arg"):
            names[d["arg"]] = d["name"]

    def leaf(kind_ty, name):
        kind = "condition" if "Condition<" in kind_ty else "component"
        return Agg("leaf", None, None, [Leaf(kind, "param:" + name, None, [], None)])
    # optional component parameters (`archive: Option<Box<dyn Component<P>>>`): every combination of present / absent is a template
    optional = []
    specs = []
    for i, ty in enumerate(ins):
        if is_comp_ty(ty):
            specs.append(("leaf", ty, names.get(i + 1, str(i))))
        elif ty.startswith(OPT):
            optional.append(("arg", i))
            specs.append(("opt", ty, names.get(i + 1, str(i))))
        else:
            adt = F.adts.get(ty.split("<")[0])
            if adt is not None and ty.startswith("mahf::heuristics::") and adt["kind"] == "Struct":
                fds = []
                for fd in adt["variants"][0]["fields"]:
                    if is_comp_ty(fd["ty"]):
                        fds.append(("leaf", fd["ty"], fd["name"]))
                    elif fd["ty"].startswith(OPT):
                        optional.append(("field", i, len(fds)))
                        fds.append(("opt", fd["ty"], fd["name"]))
                    else:
                        fds.append(("top", None, None))
                specs.append(("struct", adt, fds))
            else:
                specs.append(("top", None, None))
    out = []
    for present in itertools.product((True, False), repeat=len(optional)):
        choice = dict(zip([tuple(o) for o in optional], present))

        def value(spec, where):
            k = spec[0]
            if k == "leaf":
                return leaf(spec[1], spec[2])
            if k == "opt":
                return some(leaf(spec[1], spec[2])) if choice[where] else NONE
            if k == "struct":
                adt, fds = spec[1], spec[2]
                return Agg("adt", adt["path"], adt["variants"][0]["name"], [value(fd, ("field", where[1], j)) for j, fd in enumerate(fds)])
            return TOP
        args = [value(sp, ("arg", i)) for i, sp in enumerate(specs)]
        it = _install(Interp(fn.body, chain(make_oracle(F), coll_oracle, std_oracle), args, facts=F, inline=inline_pred, max_paths=400, max_depth=12))
        for p in it.run():
            if p.end != "return":
                continue
            r = p.ret
            if isinstance(r, Agg) and r.name == "core::result::Result":
                if r.variant != "Ok":
                    continue
                r = r.fields[0]
            out.append((to_tree(F, p.mstate.get("heap", {}), r), p))
    return out


def all_templates(F):
    # functions of the heuristics modules that BUILD something: they return a configuration or a component (possibly
    # inside a Result).  Helper fn items (scope init / merge functions, parameter conversions) are not templates.
    def builds(f):
        out = (f.sig or {}).get("output", "")
        return ("configuration::Configuration<" in out) or ("dyn mahf::components::Component<" in out) or ("dyn mahf::conditions::Condition<" in out)
    # private helpers (a factored-out sub-sequence of a template) are analysed through the public templates that call them
    return [f for f in F.all_fns if f.key.startswith("mahf::heuristics::") and f.kind == "Fn" and builds(f) and f.vis in ("pub", "public")]


if __name__ == "__main__":
    import engine
    from core import load_facts
    th, files = engine.extract()
    F = load_facts(files[:1])
    for fn in all_templates(F):
        trees = template_trees(F, fn)
        print(fn.key, len(trees))
        for tr, p in trees[:3]:
            print("   ", tr)
