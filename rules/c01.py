"""C01 — the state registry is a stack of typed maps with innermost-scope resolution."""
from core import expr_str, strip, subexprs, callee_keys, AnchorMissing
from kinds import (all_places, bool_branch, closure_arg_source, edge_dominates, field_accesses, origin,
                   result_disposition, self_field, strip_bool, try_split)

EXPLANATION = (
    "Which map each registry operation touches is decided for all histories by finite-domain abstract interpretation "
    "(K6) of the operations' MIR: a three-scope chain self->parent->grandparent with the type T held by any subset "
    "of the scopes (8 placements, shadowing included) is the abstract input; HashMap primitives on the scopes' maps are answered by the "
    "model, everything between (find/find_mut recursion, contains, closures passed to Option/Result combinators, `?`) "
    "is interpreted from the fact base with crate-local calls inlined. For each of 20 operations and each placement "
    "the set of (primitive, scope) effects and the result class must equal what a stack of typed maps does: lookups, "
    "removals, value access and entry act on the innermost holder, insert always on the innermost scope, absence is "
    "Err/None with no map effect (nothing invented). Also: state maps are touched only inside the registry module and "
    "only under the key T::id() of the operation's own T; into_child/into_parent move exactly {parent: self, fresh "
    "map} resp. (self.parent, detached self.map). (R5) the entry API (Entry / OccupiedEntry / VacantEntry) evaluated on an "
    "occupied and a vacant std entry applies exactly the HashMap entry primitive each method names, with the caller's "
    "value, and runs the caller's closure exactly when occupied (and_modify*) resp. vacant (or_insert_with / or_default). (R6) State's named accessors (populations[_mut], random_mut, log, iterations, "
    "evaluations, pareto_front) ask the registry for exactly the named type and return its answer; best_individual() / "
    "best_objective_value() are the recorded best, None when empty or absent. NOT decided: equality of returned values with a model over all "
    "histories (run-time); HashMap, RefCell and better_any downcasts are trusted.")
EXPLANATION += " " + "(R2 revised) the scopes' maps are stateful: what every registry operation LEAVES in the maps of a three-scope chain (every subset of scopes holding T), that it reaches no shadowed holder's cell, and its result class are compared with the stack of typed maps - not the primitives it happens to use."
ASSUMPTIONS = ["std::collections::HashMap and better_any::Tid behave as documented"]

REG = "mahf::state::registry::StateRegistry"
R = REG + "::"
STATEMAP_MARK = "core::any::TypeId, core::cell::RefCell<alloc::boxed::Box<dyn mahf::state::registry::custom::CustomState"


def is_ref_to(e, key, garg=None):
    """expression mentions function `key` (called or as fn item), optionally with the given generic args"""
    for x in subexprs(e):
        if x[0] == "call" and key in callee_keys(x[3]["f"]):
            if garg is None or x[3]["f"].get("gargs") == garg:
                return True
        if x[0] == "fnconst" and key in callee_keys(x[2]):
            if garg is None or x[2].get("gargs") == garg:
                return True
    return False


ORDER = ["self", "parent", "grandparent"]
# every subset of the three scopes may hold T (shadowing included); the model resolves to the innermost holder
HOLDERS = {}
for _m in range(8):
    _hs = tuple(n for i, n in enumerate(ORDER) if _m >> i & 1)
    HOLDERS["+".join(_hs) if _hs else "absent"] = _hs
PLACEMENTS = {k: (v[0] if v else None) for k, v in HOLDERS.items()}
PLACEMENT_TEXT = {k: ("held by {%s}" % ", ".join(v) if v else "held nowhere") for k, v in HOLDERS.items()}
HM = "std::collections::hash::map::HashMap::"
EFFECT_PRIMS = ("get", "get_mut", "remove", "insert", "entry")


CELL_HOME = {"self": 41000, "parent": 41001, "grandparent": 41002}


def scope_model(F, placement, conflict=False):
    """three-scope chain self -> parent -> grandparent, T held by any subset of them, and the oracle that answers the
    HashMap primitives on the scopes' maps.  The maps are STATEFUL (one key, T::id()): which scopes hold T is path state
    (mstate['maps_have']), the cells live in the root frame (CELL_HOME) so that `get_mut` hands out a place that can be
    written through, and insert / remove update both - what an operation did to the maps is read off the final state,
    not off the primitives it happened to use."""
    from absint import Sym, Ref, Agg, TOP, some, NONE, ok, err, std_oracle, chain
    map_idx = F.field_index(REG, "map")
    parent_idx = F.field_index(REG, "parent")
    order = ["self", "parent", "grandparent"]
    scopes = {n: Sym(n, {}) for n in order}
    for i, n in enumerate(order):
        scopes[n].fields[map_idx] = Sym(n + ".map")
        scopes[n].fields[parent_idx] = some(scopes[order[i + 1]]) if i + 1 < len(order) else NONE
    holder = PLACEMENTS[placement]
    holders = HOLDERS[placement]

    def ld(interp, env, v, n=0):
        while isinstance(v, Ref) and n < 5:
            v = interp.read_ref(env, v)
            n += 1
        return v

    def oracle(interp, env, f, args, t, bb, path):
        k = f.get("key", "")
        a0 = ld(interp, env, args[0]) if args else TOP
        if k.startswith(HM) and isinstance(a0, Sym) and a0.tag.endswith(".map"):
            sc = a0.tag[:-4]
            nm = f.get("name")
            have = interp.mstate.get("maps_have", holders)
            has = sc in have
            cell = Ref(CELL_HOME[sc], [], frame="root")
            # which primitive touched which scope's map is path state (a closure run by `find_map` / `position` is part of the path)
            interp.mstate["prims"] = tuple(interp.mstate.get("prims", ())) + ((nm, a0.tag),)
            if nm == "contains_key":
                return has
            if nm in ("get", "get_mut"):
                return some(cell) if has else NONE
            if nm in ("remove", "remove_entry"):
                if not has:
                    return NONE
                v = interp.read_ref(env, cell)
                interp.mstate["maps_have"] = tuple(x for x in have if x != sc)
                return some(v) if nm == "remove" else some(Agg("tuple", None, None, [Sym("T::id"), v]))
            if nm == "insert" and len(args) == 3:
                old = interp.read_ref(env, cell) if has else None
                interp.write_ref(env, cell, args[2])
                if not has:
                    interp.mstate["maps_have"] = tuple(sorted(set(have) | {sc}, key=order.index))
                return some(old) if has else NONE
            if nm == "entry":
                # the std entry of that scope's map: occupied (the cell) or vacant - what is done through it is done to the map
                return Agg("adt", "std::collections::hash::map::Entry", "Occupied" if has else "Vacant", [Sym(("occ@" if has else "vac@") + sc)])
        if k.startswith("std::collections::hash::map::OccupiedEntry::") and isinstance(a0, Sym) and a0.tag.startswith("occ@"):
            sc = a0.tag[4:]
            nm = f.get("name")
            cell = Ref(CELL_HOME[sc], [], frame="root")
            have = interp.mstate.get("maps_have", holders)
            if nm in ("get", "get_mut", "into_mut"):
                return cell
            if nm == "insert" and len(args) == 2:
                old = interp.read_ref(env, cell)
                interp.write_ref(env, cell, args[1])
                return old
            if nm in ("remove", "remove_entry"):
                v = interp.read_ref(env, cell)
                interp.mstate["maps_have"] = tuple(x for x in have if x != sc)
                return v if nm == "remove" else Agg("tuple", None, None, [Sym("T::id"), v])
        if k.startswith("std::collections::hash::map::VacantEntry::") and isinstance(a0, Sym) and a0.tag.startswith("vac@"):
            sc = a0.tag[4:]
            cell = Ref(CELL_HOME[sc], [], frame="root")
            have = interp.mstate.get("maps_have", holders)
            if f.get("name") == "insert" and len(args) == 2:
                interp.write_ref(env, cell, args[1])
                interp.mstate["maps_have"] = tuple(sorted(set(have) | {sc}, key=order.index))
                return cell
        if f.get("name") in ("as_deref", "as_deref_mut") and f.get("self_adt") == "core::option::Option":
            return args[0]
        if k == "better_any::Tid::id":
            return Sym("T::id")
        # no borrow conflicts in this model (C02 owns those); downcasts to the stored type succeed
        if k in ("core::cell::RefCell::try_borrow", "core::cell::RefCell::try_borrow_mut") and isinstance(a0, Sym):
            # conflict: True - every cell is already borrowed; "innermost" - only the cell of the innermost holder is (the
            # shadowed holders further out are free: a request must still be refused, not served from one of them)
            if conflict is True or (conflict == "innermost" and a0.tag == "cell@%s" % holder):
                return err(Sym("BorrowMutError" if k.endswith("_mut") else "BorrowError"))
            return ok(Sym("guard:" + a0.tag))
        if k == "core::cell::RefCell::into_inner" and isinstance(a0, Sym):
            return Sym("box:" + a0.tag)
        if k == "better_any::TidExt::downcast_box" and isinstance(a0, Sym):
            return ok(Sym("T:" + a0.tag))
        return TOP

    from collmodel import coll_oracle
    return scopes, holder, chain(oracle, coll_oracle, std_oracle)


def placement_eval(F, fn, placement, extra_args=(), conflict=False, want_paths=False):
    from absint import Interp, Sym, TOP
    scopes, holder, oracle = scope_model(F, placement, conflict)
    args = [scopes["self"]] + list(extra_args)
    args = args[:fn.body.argc] + [TOP] * max(0, fn.body.argc - len(args))
    from collmodel import install as _cm_install
    it = _cm_install(Interp(fn.body, oracle, args, facts=F, inline=lambda k: k.startswith("mahf::state::registry::") or k.startswith("<mahf::state::registry::")))
    it.extra_env = {CELL_HOME[sc]: Sym("cell@" + sc) for sc in ORDER}
    it.init_state = {"maps_have": HOLDERS[placement]}
    paths = it.run()
    prims = set()
    rets = set()
    ends = set()
    for p in paths:
        ends.add(p.end)
        if p.end == "return":
            r = p.ret
            from absint import Agg
            if isinstance(r, Agg):
                inner = r.fields[0] if r.fields else None
                rets.add((r.variant, inner.tag if isinstance(inner, Sym) else None))
            elif isinstance(r, (bool, int)):
                rets.add((r, None))
            elif isinstance(r, Sym):
                rets.add(("sym", r.tag))
            else:
                rets.add(("?", None))
        for pr in p.mstate.get("prims", ()):
            prims.add(tuple(pr))
        for ev in p.events:
            if ev.kind == "call" and isinstance(ev.data[0], str) and ev.data[0].startswith(HM):
                recv = ev.data[2][0] if ev.data[2] else None
                nm = ev.data[0][len(HM):]
                prims.add((nm, recv.tag if isinstance(recv, Sym) else repr(recv)))
    if want_paths:
        return prims, rets, ends, paths
    return prims, rets, ends


def map_changes(paths, placement):
    """what the operation did to the scopes' maps, read off the final state of every completed path: (scope, 'inserted' |
    'removed' | 'replaced')"""
    from absint import Sym
    out = set()
    before = set(HOLDERS[placement])
    for p in paths:
        if p.end != "return":
            continue
        after = set(p.mstate.get("maps_have", HOLDERS[placement]))
        for sc in ORDER:
            if sc in after and sc not in before:
                out.add((sc, "inserted"))
            elif sc in before and sc not in after:
                out.add((sc, "removed"))
            elif sc in after and p.env.get(CELL_HOME[sc]) != Sym("cell@" + sc):
                out.add((sc, "replaced"))
    return out


def expected_effects(op, placement):
    """the stack-of-typed-maps model: (changes to the maps, scopes whose cell the operation must reach, result class)"""
    h = PLACEMENTS[placement]
    hs = HOLDERS[placement]
    if op == "contains_at_top":
        return set(), None, {(h == "self", None)}
    if op in ("find", "find_mut"):
        return set(), None, {("Ok", h)} if h else {("Err", None)}
    if op == "contains":
        return set(), None, {(h is not None, None)}
    if op == "insert":
        return {("self", "replaced" if "self" in hs else "inserted")}, None, {("Some", None), ("Some", "T:box:cell@self")} if "self" in hs else {("None", None)}
    if op == "remove":
        # the removed value is the content of the holder's cell (shown when the interpreter can follow the unboxing)
        return ({(h, "removed")}, None, {("Ok", None), ("Ok", "T:box:cell@" + h)}) if h else (set(), None, {("Err", None)})
    if op in ("try_borrow", "try_borrow_mut", "try_get_value", "try_borrow_value", "try_borrow_value_mut"):
        return (set(), h, None) if h else (set(), None, {("Err", None)})
    if op in ("borrow", "borrow_mut", "get_value", "borrow_value", "borrow_value_mut"):
        return (set(), h, None)
    if op == "take":
        return ({(h, "removed")}, None, None) if h else (set(), None, None)
    if op == "set_value":
        return (set(), h, {("Some", None)}) if h else (set(), None, {("None", None)})
    if op == "get_mut":
        return (set(), h, None) if h else (set(), None, {("None", None)})
    if op == "entry":
        return set(), None, None
    return None, None, None


def r2b_placements(ctx):
    """K6: every registry operation evaluated over the eight placements of T in a three-scope chain.  Compared with the
    stack of typed maps: (a) what the operation leaves in the scopes' maps (final state, however it got there), (b) that
    the only cell it reaches is the innermost holder's - it never looks into the cell of a shadowed holder - and
    (c) the class of its result."""
    F = ctx.facts
    ops = ["contains_at_top", "find", "find_mut", "contains", "insert", "remove", "take", "try_borrow", "try_borrow_mut", "borrow", "borrow_mut",
           "try_get_value", "get_value", "try_borrow_value", "borrow_value", "try_borrow_value_mut", "borrow_value_mut", "set_value", "get_mut", "entry"]
    n = 0
    for op in ops:
        fn = F.fn(R + op)
        for placement in PLACEMENTS:
            prims, rets, ends, paths = placement_eval(F, fn, placement, want_paths=True)
            changes = map_changes(paths, placement)
            want_changes, must_reach, want_ret = expected_effects(op, placement)
            h = PLACEMENTS[placement]
            # cells reached: get / get_mut / remove / insert / entry on a scope's map (contains_key reaches no cell)
            reached = {m[:-4] for (nm, m) in prims if nm in EFFECT_PRIMS and m.endswith(".map")}
            entries = {m[:-4] for (nm, m) in prims if nm == "entry" and m.endswith(".map")}
            shadowed = set(HOLDERS[placement]) - ({h} if op != "insert" else {"self"})
            n += 1
            why = []
            if changes != want_changes:
                why.append("leaves the maps changed by %s (expected %s)" % (sorted(changes), sorted(want_changes)))
            if reached & shadowed:
                why.append("reaches into the cell of %s, which %s" % (sorted(reached & shadowed), "is shadowed by " + h if op != "insert" else "is not the scope inserted into"))
            if must_reach is not None and must_reach not in reached:
                why.append("never reaches the cell of the innermost holder %s" % must_reach)
            if op == "entry" and entries != {h or "self"}:
                why.append("hands out an entry of %s (expected the map of %s)" % (sorted(entries), h or "self"))
            if want_ret is not None:
                known = {(v, s) for (v, s) in rets if v != "?"}
                if not (known <= want_ret and (known or op in ("remove",))):
                    why.append("yields %s (expected %s)" % (sorted(map(str, rets)), sorted(map(str, want_ret))))
            panics_ok = op in ("take", "borrow", "borrow_mut", "get_value", "borrow_value", "borrow_value_mut") and placement == "absent"
            if not (("return" in ends or panics_ok) and ("limit" not in ends)):
                why.append("ends %s" % sorted(ends))
            ctx.check(not why, "C01.R2", fn.key, "placement:" + placement,
                      "with T %s, %s %s; a stack of typed maps resolves to the innermost holder and inserts into the innermost scope" % (PLACEMENT_TEXT[placement], op, "; ".join(why)),
                      detail="changes=%s reached=%s result=%s" % (sorted(changes), sorted(reached), sorted(map(str, rets))), loc=fn.loc())
    ctx.count("placement_evaluations", n)


def r3_ownership(ctx):
    """who may touch a state map at all: only code of the registry module (and nothing ever reaches into
    the `map`/`parent` fields from outside, which privacy enforces and this rule re-counts)"""
    F = ctx.facts
    n = 0
    for (f, bb, t) in F.callers_of(lambda c: c.get("kind") == "def" and STATEMAP_MARK in (c.get("self_ty") or "")
                                    and (c.get("self_adt") or "").startswith("std::collections::hash::map::")):
        n += 1
        inside = f.key.startswith("mahf::state::registry::") or f.key.startswith("<mahf::state::registry::")
        nm = t["f"].get("name")
        ctx.check(inside, "C01.R3", f.key, nm, "%s on a state map is called from outside the registry module (%s)" % (t["f"]["key"], f.key), loc=f.loc(t.get("line")))
        # every key is T::id() of the operation's own T
        if nm in ("get", "get_mut", "insert", "remove", "contains_key", "entry") and t["f"].get("self_adt") == "std::collections::hash::map::HashMap":
            e = f.body.expr_of_op(t["args"][1])
            ids = [x for x in subexprs(e) if x[0] == "call" and x[1] == "better_any::Tid::id"]
            # a key computed once and captured by a closure (`let id = T::id(); successors(..).find_map(|s| s.map.get(&id))`)
            cur, ex = f, e
            for _ in range(3):
                if ids or cur.kind != "Closure":
                    break
                from kinds import origin as _origin, closure_capture as _cc
                leaf, _cs, fields = _origin(ex)
                if leaf != ("arg", 1) or not fields:
                    break
                cap = _cc(F, cur, fields[0])
                if not cap:
                    break
                cur, ex = cap
                ids = [x for x in subexprs(ex) if x[0] == "call" and x[1] == "better_any::Tid::id"]
            ctx.check(len(ids) == 1 and ids[0][3]["f"].get("gargs") == ["T"], "C01.R3", f.key, nm + ":key", "map key is %s, not T::id() of the operation's own T" % expr_str(e), loc=f.loc(t.get("line")))
    ctx.count("statemap_primitive_call_sites", n)
    ctx.floor("C01.R3", "primitive operations on a state map", n, 8)


def r4_push_pop(ctx):
    """K6 on the scope constructors: into_child / into_parent / From<StateMap> move exactly the stated parts"""
    from absint import Interp, Sym, Agg, TOP, some, NONE, std_oracle, chain
    F = ctx.facts
    map_idx = F.field_index(REG, "map")
    parent_idx = F.field_index(REG, "parent")

    def oracle(interp, env, f, args, t, bb, path):
        k = f.get("key", "")
        if k == "alloc::boxed::Box::new":
            return args[0]
        if k in (HM + "new", "core::default::Default::default") and not args:
            return Sym("fresh-map")
        if k == "core::convert::Into::into" and len(f.get("gargs") or []) == 2:
            src, dst = f["gargs"]
            for cand in [g for kk, gs in F.fns.items() if kk.startswith("<%s as core::convert::From<" % REG) and kk.endswith(">::from") for g in gs]:
                if dst.startswith(REG) and cand.sig and cand.sig["inputs"] and cand.sig["inputs"][0].split("<")[0] == src.split("<")[0]:
                    outs = interp.call_body(cand, args)
                    if len(outs) == 1 and outs[0][2] == "return":
                        return outs[0][0]
        return TOP

    inl = lambda k: k.startswith("mahf::state::registry::") or k.startswith("<mahf::state::registry::")
    from collmodel import coll_oracle as _co, install as _cm_install2
    orc = chain(oracle, _co, std_oracle)

    def run(fn, args):
        return [p for p in _cm_install2(Interp(fn.body, orc, args, facts=F, inline=inl)).run()]

    nfields = len(F.adt(REG)["variants"][0]["fields"])

    def registry(parent):
        # a plain aggregate (not an opaque symbol), so that `self.parent.take()` and struct updates are followed
        vals = [TOP] * nfields
        vals[map_idx] = Sym("self.map")
        vals[parent_idx] = parent
        return Agg("adt", REG, "StateRegistry", vals)

    def is_self(v):
        return isinstance(v, Agg) and v.name == REG and v.fields[map_idx] == Sym("self.map") and isinstance(v.fields[parent_idx], Agg) and v.fields[parent_idx].variant == "Some" \
            and v.fields[parent_idx].fields[0] == Sym("parent")
    me = registry(some(Sym("parent", boxlike=True)))
    fn = F.fn(R + "into_child")
    ps = run(fn, [me])
    good = len(ps) == 1 and ps[0].end == "return" and isinstance(ps[0].ret, Agg) and ps[0].ret.name == REG
    if good:
        r = ps[0].ret
        pf, mf = r.fields[parent_idx], r.fields[map_idx]
        good = isinstance(pf, Agg) and pf.variant == "Some" and is_self(pf.fields[0]) and mf == Sym("fresh-map")
    ctx.check(good, "C01.R4", fn.key, "child-of-self-with-empty-map", "into_child does not return {parent: Some(self), map: <fresh empty map>}: %s" % [p.ret for p in ps], loc=fn.loc())
    fn = F.fn(R + "into_parent")
    for pv, label in ((some(Sym("parent", boxlike=True)), "with-parent"), (NONE, "root")):
        me = registry(pv)
        ps = run(fn, [me])
        good = len(ps) == 1 and ps[0].end == "return" and isinstance(ps[0].ret, Agg) and ps[0].ret.kind == "tuple" and len(ps[0].ret.fields) == 2
        if good:
            a, b = ps[0].ret.fields
            if label == "root":
                good = isinstance(a, Agg) and a.variant == "None"
            else:
                good = isinstance(a, Agg) and a.variant == "Some" and a.fields[0] == Sym("parent")
            good = good and isinstance(b, Agg) and b.name == REG and b.fields[map_idx] == Sym("self.map") and isinstance(b.fields[parent_idx], Agg) and b.fields[parent_idx].variant == "None"
        ctx.check(good, "C01.R4", fn.key, "parent-and-own-entries:" + label, "into_parent does not return (self.parent, detached registry holding exactly self.map): %s" % [p.ret for p in ps], loc=fn.loc())


def run(ctx):
    ctx.guard("C01.R2", "placements", lambda: r2b_placements(ctx))
    ctx.guard("C01.R3", "state-map ownership", lambda: r3_ownership(ctx))
    ctx.guard("C01.R4", "scope push/pop", lambda: r4_push_pop(ctx))
    ctx.guard("C01.R5", "entry API", lambda: r5_entry_api(ctx))
    ctx.guard("C01.R6", "named accessors of State", lambda: r6_named_accessors(ctx))
    ctx.guard("C01.R7", "a pushed scope is popped on every exit", lambda: r7_inner_state(ctx))


def r5_entry_api(ctx):
    """K6: the registry's entry API is the HashMap entry API re-typed: every method of Entry / OccupiedEntry / VacantEntry,
    evaluated on an occupied and on a vacant base entry (the std entry an opaque symbol whose primitives are recorded),
    applies exactly the std primitive its name says, with the caller's value, and runs the caller's closure exactly when
    the entry is occupied (and_modify*) resp. vacant (or_insert_with)."""
    from absint import Interp, Sym, Agg, Ref, TOP, some, NONE, ok, err, std_oracle, chain
    from collmodel import coll_oracle, install as _inst
    F = ctx.facts
    E = "mahf::state::registry::entry::"
    STD = "std::collections::hash::map::"
    import statemodel as _sm
    inl = lambda k: k.startswith(E) or k.startswith("<" + E) or _sm.module_helper(k)
    base_idx = {a: F.field_index(E + a, "base") for a in ("OccupiedEntry", "VacantEntry")}

    def wrap(kind):
        adt = E + ("OccupiedEntry" if kind == "occupied" else "VacantEntry")
        inner = Agg("adt", adt, None, [TOP, TOP])
        inner.fields[base_idx["OccupiedEntry" if kind == "occupied" else "VacantEntry"]] = Sym("std-" + kind)
        return inner

    def evaluate(fn, args):
        log = []

        def oracle(interp, env, f, args_, t, bb, path):
            k = f.get("key", "")
            nm = f.get("name")
            from collmodel import load
            a0 = load(interp, env, args_[0]) if args_ else TOP
            if k.startswith(STD + "OccupiedEntry::") and isinstance(a0, Sym) and a0.tag == "std-occupied":
                log.append(("occupied." + nm, load(interp, env, args_[1]) if len(args_) > 1 else None))
                if nm in ("get", "get_mut", "into_mut"):
                    return Sym("cell:existing")
                if nm in ("insert", "remove"):
                    return Sym("cell:existing")
                return TOP
            if k.startswith(STD + "VacantEntry::") and isinstance(a0, Sym) and a0.tag == "std-vacant":
                log.append(("vacant." + nm, load(interp, env, args_[1]) if len(args_) > 1 else None))
                if nm == "insert":
                    return Sym("cell:inserted")
                return TOP
            if k == "core::mem::replace" and isinstance(a0, Sym) and a0.tag == "cell:existing" and len(args_) > 1:
                # `mem::replace(occupied.get_mut(), new)` is `occupied.insert(new)`: the new cell in, the old one out
                if log and log[-1] == ("occupied.get_mut", None):
                    log.pop()
                log.append(("occupied.insert", load(interp, env, args_[1])))
                return Sym("cell:existing")
            if k in ("core::cell::RefCell::new",):
                return Agg("adt", "cell", None, [a0])
            if k in ("alloc::boxed::Box::new",):
                return a0
            if k in ("core::cell::RefCell::borrow_mut", "core::cell::RefCell::borrow") and isinstance(a0, Sym) and a0.tag.startswith("cell:"):
                return Sym("guard:" + a0.tag)
            if k in ("core::cell::RefMut::map", "core::cell::Ref::map") and isinstance(a0, Sym) and a0.tag.startswith("guard:"):
                return Sym("value-of:" + a0.tag[6:])
            if k == "core::cell::RefCell::into_inner" and isinstance(a0, Sym) and a0.tag.startswith("cell:"):
                return Sym("box:" + a0.tag)
            if k == "better_any::TidExt::downcast_box" and isinstance(a0, Sym):
                return ok(Sym("T:" + a0.tag))
            if k in ("core::ops::deref::DerefMut::deref_mut", "core::ops::deref::Deref::deref") and isinstance(a0, Sym) and a0.tag.startswith("value-of:"):
                return Sym("target-of:" + a0.tag)
            if f.get("kind") == "fnptr" and isinstance(f.get("fnptr_value"), Sym):
                log.append(("closure:" + f["fnptr_value"].tag, load(interp, env, args_[0]) if args_ else None))
                return Sym("closure-result") if f["fnptr_value"].tag == "make-default" else Agg("tuple", None, None, [])
            if k == "core::default::Default::default" and not args_:
                log.append(("T::default", None))
                return Sym("closure-result")
            return TOP
        it = _inst(Interp(fn.body, chain(oracle, coll_oracle, std_oracle), args, facts=F, inline=inl, max_visits=6))
        return it.run(), log

    def tag(v):
        if isinstance(v, Sym):
            return v.tag
        if isinstance(v, Agg) and v.name == E + "Entry":
            inner = v.fields[0] if v.fields else None
            b = None
            if isinstance(inner, Agg):
                b = inner.fields[base_idx[inner.name[len(E):]]] if inner.name[len(E):] in base_idx else None
            return "Entry::%s(%s)" % (v.variant, b.tag if isinstance(b, Sym) else "?")
        if isinstance(v, Agg) and v.name == "cell":
            return "cell(%s)" % tag(v.fields[0])
        return repr(v)

    n = 0

    def expect(fn, scenario, args, want_log, want_ret):
        nonlocal n
        paths, log = evaluate(fn, args)
        n += 1
        got_log = [(a, tag(b) if b is not None else None) for a, b in log]
        good = len(paths) == 1 and paths[0].end == "return" and got_log == want_log and (want_ret is None or tag(paths[0].ret) == want_ret)
        ctx.check(good, "C01.R5", fn.key, scenario,
                  "on %s entry: applies %s and returns %s; the HashMap entry API applies %s and returns %s"
                  % (scenario, got_log, [tag(p.ret) if p.end == "return" else p.end for p in paths], want_log, want_ret), loc=fn.loc())

    def ent(kind):
        return Agg("adt", E + "Entry", "Occupied" if kind == "occupied" else "Vacant", [wrap(kind)])

    value = Sym("default-value")
    for name, extra, occ_log, occ_ret, vac_log, vac_ret in (
            ("or_insert", [value], [("occupied.into_mut", None)], "value-of:cell:existing", [("vacant.insert", "cell(default-value)")], "value-of:cell:inserted"),
            ("or_insert_with", [Sym("make-default")], [("occupied.into_mut", None)], "value-of:cell:existing",
             [("closure:make-default", None), ("vacant.insert", "cell(closure-result)")], "value-of:cell:inserted"),
            ("or_default", [], [("occupied.into_mut", None)], "value-of:cell:existing", [("T::default", None), ("vacant.insert", "cell(closure-result)")], "value-of:cell:inserted"),
            ("and_modify", [Sym("modify")], [("occupied.get_mut", None), ("closure:modify", "value-of:cell:existing")], "Entry::Occupied(std-occupied)", [], "Entry::Vacant(std-vacant)"),
            ("and_modify_value", [Sym("modify")], [("occupied.get_mut", None), ("closure:modify", "target-of:value-of:cell:existing")], "Entry::Occupied(std-occupied)", [], "Entry::Vacant(std-vacant)")):
        fn = F.fn(E + "Entry::" + name)
        expect(fn, "occupied", [ent("occupied")] + extra, occ_log, occ_ret)
        expect(fn, "vacant", [ent("vacant")] + extra, vac_log, vac_ret)
    fn = F.fn_opt(E + "Entry::new")      # crate-private: where it is written out at its one call site (`entry()`), C01.R2's placement scenarios decide the wrapping
    for kind in (("occupied", "vacant") if fn is not None else ()):
        std_entry = Agg("adt", STD + "Entry", "Occupied" if kind == "occupied" else "Vacant", [Sym("std-" + kind)])
        expect(fn, kind, [std_entry], [], "Entry::%s(std-%s)" % ("Occupied" if kind == "occupied" else "Vacant", kind))
    home = 10000
    for name, by_ref, extra, want_log, want_ret in (
            ("get", True, [], [("occupied.get", None)], "value-of:cell:existing"),
            ("get_mut", True, [], [("occupied.get_mut", None)], "value-of:cell:existing"),
            ("into_mut", False, [], [("occupied.into_mut", None)], "value-of:cell:existing"),
            ("insert", True, [value], [("occupied.insert", "cell(default-value)")], "T:box:cell:existing"),
            ("remove", False, [], [("occupied.remove", None)], "T:box:cell:existing")):
        fn = F.fn(E + "OccupiedEntry::" + name)
        expect(fn, "occupied", [wrap("occupied")] + extra, want_log, want_ret)
    fn = F.fn(E + "VacantEntry::insert")
    expect(fn, "vacant", [wrap("vacant"), value], [("vacant.insert", "cell(default-value)")], "value-of:cell:inserted")
    ctx.count("entry_api_scenarios", n)
    ctx.floor("C01.R5", "entry API scenarios", n, 12)


def r6_named_accessors(ctx):
    """K6: State's named accessors are the registry accessor of exactly the named type - `populations_mut()` is
    `borrow_mut::<Populations<P>>()`, `iterations()` is `get_value::<Iterations>()`, ... (every other rule, and the
    interpreter's accessor aliasing, takes that for granted); best_individual() is the registry's BestIndividual when it
    holds one, None when it is empty or absent; best_objective_value() is that individual's objective value."""
    from absint import Interp, Sym, Agg, Ref, TOP, some, NONE, ok, err, std_oracle, chain, STATE_SUGAR
    from collmodel import coll_oracle, install as _inst, load
    F = ctx.facts
    S = "mahf::state::State::"
    n = 0
    for name, (acc, ty) in sorted(STATE_SUGAR.items()):
        fn = F.fn_opt(S + name)
        if fn is None:
            ctx.violation("C01.R6", S + name, "present", "the named accessor State::%s no longer exists (the interpreter's accessor aliasing lists it)" % name, kind="anchor-missing")
            continue
        asked = []

        def oracle(interp, env, f, args, t, bb, path):
            k = f.get("key", "")
            nm_ = f.get("name")
            if k.startswith(R) and nm_ in ("borrow", "borrow_mut", "try_borrow", "try_borrow_mut", "get_value", "try_get_value", "borrow_value", "borrow_value_mut", "try_borrow_value", "try_borrow_value_mut"):
                asked.append((nm_, (f.get("gargs") or [None])[0]))
                # the state object `T(value, ..)`: a guard on it derefs / projects to the value
                V_ = Sym("the-value")
                S_ = Sym("the-state", {0: V_, "deref": V_})
                if nm_ in ("borrow", "borrow_mut", "try_borrow", "try_borrow_mut"):
                    v = Sym("guard-of-the-state", {"deref": S_, "*": S_})
                elif nm_ in ("get_value", "try_get_value"):
                    v = V_
                else:
                    v = Sym("guard-of-the-value", {"deref": V_, "*": V_})
                return ok(v) if nm_.startswith("try_") else v
            if k in ("core::clone::Clone::clone",) and args:
                from collmodel import load as _ld
                return _ld(interp, env, args[0])
            return TOP
        it = _inst(Interp(fn.body, chain(oracle, coll_oracle, std_oracle), [Sym("state")], facts=F, inline=lambda k: k.startswith("<mahf::state::State as core::ops::deref") or k.startswith("<" + ty.split("<")[0] + " as core::ops::deref"), max_visits=6))
        ps = it.run()
        n += 1
        # the shared / exclusive family of the accessor; a by-value accessor may also copy the value out of a guard on the whole state
        fam = {"borrow": ("borrow", "try_borrow"), "borrow_mut": ("borrow_mut", "try_borrow_mut"),
               "get_value": ("get_value", "try_get_value", "borrow_value", "try_borrow_value", "borrow", "try_borrow")}[acc]
        want_ret = Sym("the-value") if acc == "get_value" else Sym("guard-of-the-state")
        good = len(ps) == 1 and ps[0].end == "return" and ps[0].ret == want_ret and len(asked) == 1 and asked[0][0] in fam and asked[0][1] == ty
        ctx.check(good, "C01.R6", fn.key, "is-" + acc, "State::%s() asks the registry for %s and returns %s; expected exactly one %s::<%s>() (or a sibling of its family) and %s"
                  % (name, asked, [str(p.ret) if p.end == "return" else p.end for p in ps], acc, ty, "the value it holds" if acc == "get_value" else "its answer"), loc=fn.loc())
    # best_individual / best_objective_value
    BEST = "mahf::state::common::BestIndividual<P>"
    IND = "mahf::problems::individual::Individual"
    home = 10000
    for name in ("best_individual", "best_objective_value"):
        fn = F.fn(S + name)
        bad = []
        for scen in ("holds", "empty", "absent"):
            asked = []

            def oracle(interp, env, f, args, t, bb, path, scen=scen):
                k = f.get("key", "")
                if k.startswith(R) and f.get("name") in ("try_borrow", "borrow", "try_borrow_mut", "borrow_mut"):
                    asked.append((f.get("gargs") or [None])[0])
                    if scen == "absent":
                        return err(Sym("StateError::NotFound")) if f.get("name").startswith("try_") else "DIVERGE"
                    r = Ref(home, [], frame="root")
                    return ok(r) if f.get("name").startswith("try_") else r
                if k in ("core::cell::Ref::filter_map", "core::cell::Ref::map") and len(args) == 2:
                    outs = interp.call_value(args[1], [args[0]])
                    if not outs or len(outs) != 1 or outs[0][2] != "return":
                        return TOP
                    r = outs[0][0]
                    if k.endswith("filter_map"):
                        if isinstance(r, Agg) and r.variant == "Some":
                            return ok(r.fields[0])
                        if isinstance(r, Agg) and r.variant == "None":
                            return err(args[0])
                        return TOP
                    return r
                return TOP
            ind = Agg("adt", IND, "Individual", [Sym("best-solution"), some(Sym("best-objective"))])
            it = _inst(Interp(fn.body, chain(oracle, coll_oracle, std_oracle), [Sym("state")], facts=F,
                              inline=lambda k: k.startswith("<mahf::state::State as core::ops::deref") or k.startswith(S + "best_") or k.startswith("mahf::problems::individual::Individual::") or k.startswith("<mahf::state::common::BestIndividual"),
                              max_visits=8))
            it.extra_env = {home: Agg("adt", "mahf::state::common::BestIndividual", "BestIndividual", [some(ind) if scen == "holds" else NONE])}
            n += 1
            for p in it.run():
                r = p.ret
                if p.end != "return" or not isinstance(r, Agg) or r.name != "core::option::Option":
                    bad.append((scen, "ends %s %s" % (p.end, r)))
                    continue
                if scen != "holds":
                    if r.variant != "None":
                        bad.append((scen, "yields %s, expected None" % r))
                    continue
                v = load(it, p.env, r.fields[0]) if r.variant == "Some" else None
                if name == "best_individual":
                    okv = isinstance(v, Agg) and v.name == IND and v.fields[0] == Sym("best-solution")
                else:
                    okv = v == Sym("best-objective")
                if not okv:
                    bad.append((scen, "yields %s, expected %s" % (r, "the recorded best individual" if name == "best_individual" else "its objective value")))
            if scen != "absent" and any(a != BEST for a in asked):
                bad.append((scen, "asks the registry for %s, expected %s" % (asked, BEST)))
        ctx.check(not bad, "C01.R6", fn.key, "is-the-recorded-best", "BestIndividual %s: State::%s() %s" % ((bad[0][0], name, bad[0][1]) if bad else ("", name, "")), loc=fn.loc())
    ctx.count("named_accessor_scenarios", n)


def r7_inner_state(ctx):
    """K6 on State::with_inner_state (the only place the crate pushes a scope): the closure runs on a child of the caller's
    registry; whether it succeeds or fails, afterwards the caller's state holds exactly its own registry again (the scope is
    popped, everything it shadowed is visible again, nothing else is lost); Ok hands back the detached child's entries, Err
    the closure's error."""
    from absint import Interp, Sym, Agg, Ref, HRef, TOP, some, NONE, ok, err, std_oracle, chain
    from collmodel import coll_oracle, install as _inst, load
    F = ctx.facts
    fn = F.fn("mahf::state::State::with_inner_state")
    reg_i = F.field_index("mahf::state::State", "registry")
    nf = len(F.adt("mahf::state::State")["variants"][0]["fields"])
    home = 11001
    bad = []
    for outcome in ("ok", "err"):
        def oracle(interp, env, f, args, t, bb, path, outcome=outcome):
            k = f.get("key", "")
            nm = f.get("name")
            a0 = load(interp, env, args[0]) if args else None
            if k == R + "into_child" and isinstance(a0, Sym) and a0.tag == "parent-registry":
                return Sym("child-registry")
            if k == R + "into_parent" and isinstance(a0, Sym) and a0.tag == "child-registry":
                return Agg("tuple", None, None, [some(Sym("parent-registry")), Sym("detached-child")])
            if k in ("core::mem::take", "core::mem::replace") and isinstance(a0, Sym) and a0.tag == "parent-registry" and isinstance(args[0], (Ref, HRef)):
                from collmodel import store_ref
                store_ref(interp, env, args[0], Sym("placeholder-registry") if nm == "take" else load(interp, env, args[1]))
                return a0
            if k in (R + "new", "core::default::Default::default") and not args:
                return Sym("placeholder-registry")
            if k in ("core::convert::Into::into", "core::convert::From::from") and args:
                ga = f.get("gargs") or ["", ""]
                src, dst = (ga[0], ga[-1]) if nm == "into" else (ga[-1], ga[0])
                if "StateRegistry" in src and dst.startswith("mahf::state::State"):
                    vals = [Sym("phantom")] * nf
                    vals[reg_i] = a0
                    return Agg("adt", "mahf::state::State", "State", vals)
                if src.startswith("mahf::state::State") and "StateRegistry" in dst and isinstance(a0, Agg):
                    return a0.fields[reg_i]
            if (nm in ("call_once", "call", "call_mut") or f.get("kind") == "fnptr") and args and isinstance(a0, Sym) and a0.tag == "user-closure":
                inner = load(interp, env, args[1])
                if isinstance(inner, Agg) and inner.kind == "tuple" and inner.fields:
                    inner = load(interp, env, inner.fields[0])
                interp.mstate["closure_saw"] = str(inner.fields[reg_i]) if isinstance(inner, Agg) and inner.name == "mahf::state::State" else str(inner)
                return err(Sym("closure-error")) if outcome == "err" else ok(Agg("tuple", None, None, []))
            return TOP
        vals = [Sym("phantom")] * nf
        vals[reg_i] = Sym("parent-registry")
        it = _inst(Interp(fn.body, chain(oracle, coll_oracle, std_oracle), [Ref(home, [], frame="root"), Sym("user-closure")], facts=F,
                          inline=lambda k: k.startswith("mahf::state::State::") or k.startswith("<mahf::state::State") or k.startswith("<mahf::state::registry::StateRegistry as core::convert::From<mahf::state::State"), max_visits=8))
        it.extra_env = {home: Agg("adt", "mahf::state::State", "State", vals)}
        paths = it.run()
        label = "the closure %s" % ("succeeds" if outcome == "ok" else "fails")
        if len(paths) != 1 or paths[0].end != "return":
            bad.append((label, "is not decided (%s)" % [(p.end, str(p.ret)[:40]) for p in paths]))
            continue
        p0 = paths[0]
        st = p0.env.get(home)
        now = st.fields[reg_i] if isinstance(st, Agg) else None
        res = p0.ret.variant if isinstance(p0.ret, Agg) else None
        if p0.mstate.get("closure_saw") != "Sym(child-registry)":
            bad.append((label, "runs the closure on %s, expected a child of the caller's registry" % p0.mstate.get("closure_saw")))
        elif now != Sym("parent-registry"):
            bad.append((label, "leaves the caller's state with %s instead of its own registry (the pushed scope is not popped: everything the caller held is gone)" % now))
        elif res != ("Ok" if outcome == "ok" else "Err"):
            bad.append((label, "returns %s" % res))
        elif outcome == "ok":
            inner = p0.ret.fields[0]
            got = inner.fields[reg_i] if isinstance(inner, Agg) and inner.name == "mahf::state::State" else inner
            if got != Sym("detached-child"):
                bad.append((label, "hands back %s, expected the popped scope's own entries" % got))
    ctx.check(not bad, "C01.R7", fn.key, "scope-popped-on-every-exit", "%s: with_inner_state %s" % (bad[0] if bad else ("", "")), loc=fn.loc())
