"""Reusable analyses (the rule kinds K1..K16 of DESIGN.md §4) over core.Body."""
from collections import deque

from core import (callee_key, callee_keys, expr_str, op_place, strip, subexprs, AnchorMissing)

TRY_BRANCH = "core::ops::try_trait::Try::branch"
FROM_RESIDUAL = "core::ops::try_trait::FromResidual::from_residual"


def is_call_to(t, *keys):
    """terminator t is a call whose declared or resolved callee key is one of keys"""
    if t["k"] != "call":
        return False
    ks = callee_keys(t["f"])
    return any(k in keys for k in ks)


def call_name(t):
    return t["f"].get("name") if t["k"] == "call" else None


# ------------------------------------------------------------------ Result plumbing

def uses_of_local(body, l):
    """[(bb, idx|-1, how)] every read of local l (as operand base or in a place projection)"""
    out = []

    def in_place(p):
        if p[0] == l:
            return True
        return any(isinstance(e, list) and e[0] == "i" and e[1] == l for e in p[1])

    def in_op(op):
        p = op_place(op)
        return p is not None and in_place(p)

    for bi in sorted(body.normal_blocks()):
        blk = body.blocks[bi]
        for si, st in enumerate(blk["s"]):
            if st[0] != "=":
                continue
            rv = st[2]
            k = rv[0]
            hit = False
            if k == "use":
                hit = in_op(rv[1])
            elif k in ("ref", "rawptr"):
                hit = in_place(rv[2])
            elif k == "bin":
                hit = in_op(rv[2]) or in_op(rv[3])
            elif k in ("un", "cast"):
                hit = in_op(rv[2])
            elif k == "discr":
                hit = in_place(rv[1])
            elif k == "agg":
                hit = any(in_op(o) for o in rv[2])
            elif k == "repeat":
                hit = in_op(rv[1])
            if hit:
                out.append((bi, si, "stmt"))
            # a write through a projection of l also counts as a use of l's storage
            if st[1][0] == l and st[1][1]:
                out.append((bi, si, "pwrite"))
        t = blk["t"]
        if t["k"] == "call":
            if any(in_op(a) for a in t["args"]):
                out.append((bi, -1, "callarg"))
            if t["f"].get("kind") != "def" and "op" in t["f"] and in_op(t["f"]["op"]):
                out.append((bi, -1, "callee"))
        elif t["k"] == "switch":
            if in_op(t["discr"]):
                out.append((bi, -1, "switch"))
        elif t["k"] == "assert":
            if in_op(t["cond"]):
                out.append((bi, -1, "assert"))
        elif t["k"] == "drop":
            if t["place"][0] == l:
                out.append((bi, -1, "drop"))
    return out


def try_split(body, call_bb):
    """For a call in block call_bb whose Result goes through `?`:
    returns (continue_bb, break_bb) of the switch on the Try::branch discriminant, else None."""
    t = body.term(call_bb)
    if t["k"] != "call" or t["target"] is None or t["dest"][1]:
        return None
    dest = t["dest"][0]
    cur = t["target"]
    # follow moves of the result into Try::branch
    aliases = {dest}
    for _ in range(6):
        blk = body.blocks[cur]
        for st in blk["s"]:
            if st[0] == "=" and st[2][0] == "use":
                p = op_place(st[2][1])
                if p and not p[1] and p[0] in aliases and not st[1][1]:
                    aliases.add(st[1][0])
        tt = blk["t"]
        if tt["k"] == "call" and is_call_to(tt, TRY_BRANCH):
            p = op_place(tt["args"][0])
            if not (p and p[0] in aliases):
                return None
            sw_bb = tt["target"]
            if sw_bb is None:
                return None
            sw = body.term(sw_bb)
            if sw["k"] != "switch":
                return None
            cont = brk = None
            for v, b in sw["targets"]:
                if v == 0:
                    cont = b
                elif v == 1:
                    brk = b
            if cont is None:
                cont = sw["otherwise"]
            if brk is None:
                brk = sw["otherwise"]
            return cont, brk
        if tt["k"] == "goto":
            cur = tt["target"]
            continue
        return None
    return None


def result_disposition(body, call_bb):
    """What happens to the Result (or any value) returned by the call in call_bb:
    'try' (`?`), 'returned' (flows into _0), 'matched' (discriminant read / switch), 'passed'
    (argument of another call, e.g. map_err/unwrap/ok), 'stored', or 'dropped' (only dropped)."""
    t = body.term(call_bb)
    dest = t["dest"]
    if dest[1]:
        return "stored"
    l = dest[0]
    if l == 0:
        return "returned"
    seen = {l}
    work = [l]
    kinds = set()
    while work:
        x = work.pop()
        for (bi, si, how) in uses_of_local(body, x):
            if how == "drop":
                kinds.add("dropuse")
                continue
            if how == "callarg":
                tt = body.term(bi)
                if is_call_to(tt, TRY_BRANCH):
                    kinds.add("try")
                else:
                    kinds.add("passed")
                continue
            if how == "switch":
                kinds.add("matched")
                continue
            if how == "stmt":
                st = body.stmts(bi)[si]
                rv = st[2]
                if rv[0] == "discr":
                    kinds.add("matched")
                elif rv[0] == "use" and not st[1][1]:
                    tgt = st[1][0]
                    if tgt == 0:
                        kinds.add("returned")
                    elif tgt not in seen:
                        seen.add(tgt)
                        work.append(tgt)
                elif rv[0] == "use":
                    kinds.add("stored")
                else:
                    kinds.add("read")
    for k in ("try", "returned", "matched", "passed", "stored", "read"):
        if k in kinds:
            return k
    return "dropped"


# ------------------------------------------------------------------ K2 must-pass-through

def must_pass(body, start_bb, event_block, goal=None, excluded_blocks=()):
    """Every normal path from start_bb to a Return block passes a block for which event_block(bb)
    holds. Returns None if so, else one offending block path (list of bb)."""
    if goal is None:
        def goal(b):
            return body.term(b)["k"] == "return"
    avoid = {b for b in body.normal_blocks() if event_block(b)} | set(excluded_blocks)
    return body.find_path(start_bb, goal, avoid=avoid)


def block_has_call(body, bb, pred):
    t = body.term(bb)
    return t["k"] == "call" and pred(t)


def block_assigns(body, bb, place_pred):
    for st in body.stmts(bb):
        if st[0] == "=" and place_pred(st[1]):
            return True
    t = body.term(bb)
    if t["k"] == "call" and place_pred(t["dest"]):
        return True
    return False


# ------------------------------------------------------------------ origins

def origin(e):
    """Follow the primary operand of an expression down to its leaf.
    Returns (leaf, calls, fields): calls = callee keys passed on the way (outermost first),
    fields = list of field indices applied to the leaf (innermost first, i.e. leaf.f0.f1…)."""
    calls = []
    fields = []
    while True:
        k = e[0]
        if k in ("ref", "rawptr"):
            e = e[2]
        elif k == "deref":
            e = e[1]
        elif k == "field":
            fields.append(e[2])
            e = e[1]
        elif k in ("downcast", "cindex"):
            e = e[1]
        elif k == "index":
            e = e[1]
        elif k == "cast":
            e = e[2]
        elif k == "call" and e[2]:
            calls.append(e[3]["f"].get("name") or e[1])
            e = e[2][0]
        elif k == "agg" and e[1] == "adt" and e[3] in ("Some", "Ok") and len(e[4]) == 1:
            e = e[4][0]
        else:
            return e, calls, fields[::-1]


ACCESS_CALLS = {"deref", "deref_mut", "as_ref", "as_mut", "borrow", "borrow_mut", "iter", "iter_mut", "into_iter",
                "next", "as_deref", "as_deref_mut", "as_slice", "as_mut_slice", "unwrap", "expect", "into", "from"}


def self_field(e, self_arg=1):
    """index of the field of `*self` the expression denotes (part of): first field applied to the
    self argument on the primary-operand chain, looking only through accessor-like calls"""
    leaf, calls, fields = origin(e)
    if leaf == ("arg", self_arg) and fields and all(c in ACCESS_CALLS for c in calls):
        return fields[0]
    return None


def upvar_field(e):
    """closure bodies: (upvar index, rest) if the expression derives from capture _1.i"""
    leaf, calls, fields = origin(e)
    if leaf == ("arg", 1) and fields:
        return fields[0], fields[1:]
    return None


# ------------------------------------------------------------------ branch edges

def bool_branch(body, bb):
    """block bb ends in `switch <bool>`: returns (discr_expr, true_bb, false_bb) else None"""
    t = body.term(bb)
    if t["k"] != "switch" or t.get("discr_ty") != "bool":
        return None
    false_bb = None
    for v, b in t["targets"]:
        if v == 0:
            false_bb = b
    true_bb = t["otherwise"]
    if false_bb is None:
        return None
    return body.expr_of_op(t["discr"]), true_bb, false_bb


def edge_dominates(body, src, dst, site):
    """site is reachable from entry only through edge src->dst (site dominated by the edge)"""
    if site == dst and len(body.preds()[dst]) == 1:
        return True
    # remove the edge and test reachability
    def ef(a, b):
        return not (a == src and b == dst)
    reach = body.reachable_from(0, edge_filter=ef)
    return site not in reach


def controlling_edges(body, site):
    """[(switch_bb, target_bb)] edges of switch terminators that dominate `site`"""
    out = []
    for b in sorted(body.normal_blocks()):
        t = body.term(b)
        if t["k"] != "switch":
            continue
        for s in body.succs(b):
            if edge_dominates(body, b, s, site):
                out.append((b, s))
    return out


def enclosing_loop(body, bb):
    """innermost natural loop (header, blocks) containing bb, else None"""
    best = None
    for h, blks in body.loops().items():
        if bb in blks:
            if best is None or len(blks) < len(best[1]):
                best = (h, blks)
    return best


def loop_exits(body, blks):
    """[(src, dst)] edges leaving the loop on normal edges"""
    out = []
    for b in blks:
        for s in body.succs(b):
            if s not in blks:
                out.append((b, s))
    return out


def strip_bool(e):
    """normalise a boolean expression: returns (negated?, inner) looking through Not and copies"""
    neg = False
    while True:
        if e[0] == "un" and e[1] == "Not":
            neg = not neg
            e = e[2]
        elif e[0] == "call" and e[3]["f"].get("key") in ("core::ops::bit::Not::not",) and e[2]:
            neg = not neg
            e = e[2][0]
        else:
            return neg, e


# ------------------------------------------------------------------ place walking

def all_places(body, normal_only=True):
    """yield (bb, place, ctx, line) for every place mentioned in the body.
    ctx: 'write' (assignment target / call destination), 'ref', 'refmut', 'rawptr', 'move', 'copy', 'discr', 'drop'"""
    blocks = sorted(body.normal_blocks()) if normal_only else range(body.n)

    def ops(op, bb, line):
        if op[0] in ("copy", "move"):
            yield bb, op[1], op[0], line

    for b in blocks:
        blk = body.blocks[b]
        for st in blk["s"]:
            if st[0] == "=":
                line = st[3]
                yield b, st[1], "write", line
                rv = st[2]
                k = rv[0]
                if k == "use":
                    yield from ops(rv[1], b, line)
                elif k == "ref":
                    yield b, rv[2], "refmut" if rv[1] == "mut" else "ref", line
                elif k == "rawptr":
                    yield b, rv[2], "rawptr", line
                elif k == "bin":
                    yield from ops(rv[2], b, line)
                    yield from ops(rv[3], b, line)
                elif k in ("un", "cast"):
                    yield from ops(rv[2], b, line)
                elif k == "discr":
                    yield b, rv[1], "discr", line
                elif k == "agg":
                    for o in rv[2]:
                        yield from ops(o, b, line)
                elif k == "repeat":
                    yield from ops(rv[1], b, line)
            elif st[0] == "setdiscr":
                yield b, st[1], "write", st[3]
        t = blk["t"]
        line = t.get("line")
        if t["k"] == "call":
            yield b, t["dest"], "write", line
            for a in t["args"]:
                yield from ops(a, b, line)
            if t["f"].get("kind") != "def" and "op" in t["f"]:
                yield from ops(t["f"]["op"], b, line)
        elif t["k"] == "switch":
            yield from ops(t["discr"], b, line)
        elif t["k"] == "assert":
            yield from ops(t["cond"], b, line)
        elif t["k"] == "drop":
            yield b, t["place"], "drop", line


def field_accesses(body, field_index, field_ty_prefix=None, normal_only=True):
    """[(bb, place, ctx, line, proj_pos)] places that project field `field_index` (optionally with
    a recorded field type starting with field_ty_prefix)"""
    out = []
    for b, p, c, line in all_places(body, normal_only):
        for i, e in enumerate(p[1]):
            if isinstance(e, list) and e[0] == "f" and e[1] == field_index and (field_ty_prefix is None or e[2].startswith(field_ty_prefix)):
                out.append((b, p, c, line, i))
                break
    return out


def closure_arg_source(facts, closure_fn, arg_index=2):
    """For a closure passed inline to a combinator (map/and_then/…) in its parent body: the
    expression of the combinator's receiver (what the closure's argument is derived from).
    returns (parent_fn, receiver_expr, combinator_name) or None"""
    parent = facts.fn_opt(closure_fn.lexical_parent or closure_fn.parent) if (closure_fn.lexical_parent or closure_fn.parent) else None
    if parent is None:
        return None
    pb = parent.body
    for bb, t in pb.calls():
        for ai, a in enumerate(t["args"]):
            e = strip(pb.expr_of_op(a))
            if e[0] == "agg" and e[1] == "closure" and e[2] == closure_fn.key and ai > 0:
                return parent, pb.expr_of_op(t["args"][0]), t["f"].get("name")
    return None


def closure_capture(facts, closure_fn, field_idx):
    """(parent_fn, expression of the captured operand) for capture #field_idx of a closure"""
    pk = closure_fn.lexical_parent or closure_fn.parent
    parent = facts.fn_opt(pk) if pk else None
    if parent is None:
        return None
    pb = parent.body
    for b in range(pb.n):
        for st in pb.stmts(b):
            if st[0] == "=" and st[2][0] == "agg" and st[2][1].get("k") == "closure" and st[2][1].get("closure") == closure_fn.key:
                ops = st[2][2]
                if field_idx < len(ops):
                    return parent, pb.expr_of_op(ops[field_idx])
    return None


def ident(e):
    """identity string of the object an expression denotes (refs/derefs/Deref calls stripped)"""
    return expr_str(strip(e))
