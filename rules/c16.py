"""C16 — every shipped heuristic template runs to completion and keeps the stack balanced.
Also hosts the template-level rules of C05 (R6), C06 (R5) and C07 (R4): they share the template interpreter."""
from core import expr_str, strip, subexprs, callee_keys, AnchorMissing
from absint import Interp, Sym, Agg, TOP, std_oracle, chain
import re
import templates as T
import compsum
import k4

EXPLANATION = (
    "K12 template abstract interpretation: the 35 template constructors in src/heuristics (21 complete templates + 14 "
    "generic loop builders) are interpreted from their MIR with the real ConfigurationBuilder and control-flow "
    "constructors inlined, giving the component tree each template builds (every returning path; unknown constructs "
    "fail closed). Per component type a summary is derived from the MIR of its execute() and the operator driver it "
    "delegates to: the set of (net stack effect, deepest consumption) over all Ok paths (operations in loops or "
    "closures make the summary undecidable and fail closed), whether it reads objective values, obtains &mut "
    "solutions, evaluates, or updates the best individual. Over each tree: (R2) starting from an empty stack the "
    "height never falls below what a component consumes or reads, every loop body is height-neutral (fixpoint over "
    "the set of reachable heights), and the run ends with exactly one population; (R3) evaluated-typestate: no "
    "component that reads objective values sees an unevaluated population; (R4) the DE mutation's population-format "
    "guard is evaluated over all (length mod size) classes and must reject exactly the malformed ones, and integer "
    "bitwise-NOT does not occur in component code; (R5) K4: no dynamic-borrow conflict anywhere in crate code; (R6) the "
    "recombination driver conserves the prescribed number of individuals for every parent count and pair outcome; (R7) "
    "no scenario of the operator tables of C11-C14 / C17-C20 panics, diverges or errs on valid input; (R8) every state "
    "type that mentions a component's own type is read under the component's own instantiation; (R9) the two-reactant "
    "CRO updates treat molecules holding equal individuals as distinct; (R10) template constructors accept the "
    "parameter sets their documentation declares valid; (R11, bounded program semantics of C03 on the MIR of "
    "Configuration::run) the ILS shape `init; while { perturb; scope { while { step } }; replace }` and the single-loop "
    "shape of all other templates perform exactly the scripted number of passes (0-3 outer x 0-2 inner): the loop "
    "nested in the scope counts in its own counter and the outer counter is untouched by it; K17 constructor fidelity. "
    "NOT decided: termination and iteration counts for all seeds as numbers, population-size bounds beyond the "
    "recombination driver, data-dependent errors of user problems.")
ASSUMPTIONS = ["parameters accepted by the constructors are valid (constructor Err paths are not analysed)",
               "conditions do not touch the population stack"]
USES_FIXTURES = True


class Slot:
    __slots__ = ("evaluated", "reported", "origin", "inner")

    def __init__(self, evaluated=False, reported=True, origin="", inner=False):
        self.evaluated = evaluated
        self.reported = reported
        self.origin = origin
        self.inner = inner        # reported only to the best-individual memory of an enclosing Scope (see Walker.walk, scope)

    def key(self):
        return (self.evaluated, self.reported, self.inner)

    def copy(self):
        return Slot(self.evaluated, self.reported, self.origin, self.inner)


def state_key(stack):
    return tuple(s.key() for s in stack)


class Walker:
    def __init__(self, ctx, F, sums, template, rule_prefix="C16"):
        self.ctx = ctx
        self.F = F
        self.sums = sums
        self.template = template
        self.findings = []   # (rule, instance, msg)
        self.own_memory_depth = 0
        self.seq = 0
        self.excepted = set()

    def merge_carries_best(self, mf):
        """does the scope's merge step show the inner best-individual memory to the enclosing one (a call of BestIndividual::update
        in the merge function)"""
        from absint import Agg as _Agg
        key = None
        if isinstance(mf, _Agg) and mf.kind == "closure":
            key = mf.name
        elif isinstance(mf, tuple) and mf and mf[0] == "fn":
            key = mf[1].get("key")
        clo = self.F.fn_opt(key) if key else None
        if clo is None:
            return False
        return any((t["f"].get("key") or "").endswith("BestIndividual::update") for g in self.F.with_closures(clo) for _b, t in g.body.calls())

    def report(self, rule, instance, msg):
        self.findings.append((rule, instance, msg))

    def leaf(self, node, states, pathname):
        """states: set of stacks (tuples of Slot); returns new set"""
        ty = node.ty or ""
        if node.leaf is not None and node.leaf.kind == "condition":
            return states
        short = ty.split("::")[-1]
        self.seq += 1
        inst = "%s@%s" % (short, pathname)
        if ty.startswith("param:") or ty not in self.sums:
            self.report("C16.R1", inst, "component %s has no analysable execute(): the template's stack discipline cannot be decided" % ty)
            return states
        fn, sm = self.sums[ty]
        if sm.paths is None or not sm.paths:
            self.report("C16.R2", inst, "the stack effect of %s is not constant over its paths (population push/pop inside a loop or closure): %s" % (short, sm.notes))
            return states
        out = {}
        for st in states.values():
            stack = list(st)
            h = len(stack)
            for (net, low) in sorted(sm.paths):
                need = max(-low, 1 if (sm.uses_current or sm.reads_objective and low == 0) else 0, sm.peek + 1)
                if h < need:
                    self.report("C16.R2", inst, "%s needs %d population(s) on the stack but only %d can be there at this point of %s" % (short, need, h, self.template.split("::")[-1]))
                    continue
                ns = [s.copy() for s in stack]
                consumed = ns[h + low:] if low < 0 else []
                touched = consumed if consumed else (ns[-1:] if (sm.uses_current or sm.reads_objective) else [])
                if sm.reads_objective and not sm.evaluates or (sm.evaluates and sm.reads_objective):
                    bad = [s for s in touched if not s.evaluated]
                    if bad:
                        self.report("C16.R3", inst, "%s reads objective values of a population that is not evaluated at this point (population from %s)" % (short, bad[0].origin or "?"))
                # unreported evaluated values that are about to be destroyed
                destroys = sm.invalidates or (low < 0)
                if destroys and not sm.best_update:
                    victims = consumed if low < 0 else ns[-1:]
                    # a pure pop/push-back of the same population (evaluator, duplicate) does not destroy values
                    if not (sm.evaluates and not sm.invalidates):
                        survivors = [o for o in ns if not any(o is v for v in victims)]
                        for s in victims:
                            if s.evaluated and not s.reported:
                                if any(o.evaluated and o.origin == s.origin and s.origin for o in survivors):
                                    continue      # the same values (a selection copy / its source) are still on the stack
                                src = (s.origin or "?").split("@")[0]
                                # (a reviewed exception rests on the OTHER merged population - the search result - having been shown to the
                                # best-update: it covers an unreported victim only while every other victim of the same merge is reported)
                                others_reported = all(o.reported or not o.evaluated for o in victims if o is not s) and len(victims) > 1
                                if others_reported and ((self.template.split("::")[-1], short, src) in R4_EXCEPTIONS or (self.template.split("::")[-2], short, src) in R4_EXCEPTIONS):
                                    s.reported = True   # reviewed: see R4_EXCEPTIONS
                                    self.excepted.add((short, src))
                                    continue
                                self.report("C07.R4", "%s<-%s" % (short, src), "%s overwrites or merges away a population whose objective values were evaluated by %s but never shown to the best-individual update "
                                            "(the reported best can stay above a value the objective function returned)" % (short, src))
                # result
                if low < 0:
                    ns = ns[:h + low]
                npush = net - low
                for _ in range(npush):
                    if sm.evaluates and not sm.invalidates:
                        ns.append(Slot(True, False, inst))
                    elif sm.evaluates:
                        ns.append(Slot(True, False, inst))
                    elif consumed and not sm.invalidates and not ty.startswith("mahf::components::recombination::") and not ty.startswith("mahf::components::initialization::"):
                        ns.append(Slot(all(s.evaluated for s in consumed), all(s.reported for s in consumed), consumed[0].origin, any(s.inner for s in consumed)))
                    elif not consumed and ty.startswith("mahf::components::selection::"):
                        src = stack[-1]
                        # a copy shares its source's values: it is as (un)reported as the source; destroying one of the two while the
                        # other is still on the stack loses nothing (see the victims check)
                        ns.append(Slot(src.evaluated, src.reported, src.origin, src.inner))
                    else:
                        ns.append(Slot(False, True, inst))
                if low == 0 and net == 0:
                    if sm.invalidates and ns:
                        ns[-1] = Slot(False, True, inst)
                    if sm.best_update and ns:
                        if not ns[-1].reported and self.own_memory_depth:
                            ns[-1].inner = True       # shown to the memory the enclosing scope's own best-update initialised
                        ns[-1].reported = True
                if sm.evaluates and ns and not sm.invalidates and low <= 0 and net == 0:
                    ns[-1] = Slot(True, False, inst)
                out[state_key(ns)] = tuple(ns)
        return out

    def walk(self, node, states, pathname):
        if node.kind == "leaf":
            return self.leaf(node, states, pathname)
        if node.kind == "block":
            for i, ch in enumerate(node.children):
                states = self.walk(ch, states, "%s.%d" % (pathname, i))
            return states
        if node.kind == "scope":
            # a best-update inside the scope initialises a best-individual memory of the scope's own (init inserts into the current
            # scope): what is shown to it is gone when the scope ends - unless the scope's merge step hands that memory's best to the
            # enclosing one
            own = any((l.ty in self.sums and self.sums[l.ty][1].best_update) for l in all_leaves(node.children[0], []))
            carries = self.merge_carries_best(node.extra.get("merge_fn"))
            if own and not carries:
                self.own_memory_depth += 1
            out = self.walk(node.children[0], states, pathname + ".scope")
            if own and not carries:
                self.own_memory_depth -= 1
                if not self.own_memory_depth:
                    res = {}
                    for st in out.values():
                        ns = [s.copy() for s in st]
                        for s in ns:
                            if s.inner:
                                s.inner = False
                                s.reported = not s.evaluated
                        res[state_key(ns)] = tuple(ns)
                    out = res
            return out
        if node.kind == "branch":
            a = self.walk(node.children[0], dict(states), pathname + ".if")
            b = self.walk(node.children[1], dict(states), pathname + ".else") if len(node.children) > 1 else dict(states)
            a.update(b)
            return a
        if node.kind == "loop":
            # fixpoint over the set of stack states at the loop head; heights must not change per pass
            head = dict(states)
            seen_heights = {len(s) for s in head.values()}
            for _ in range(12):
                after = self.walk(node.children[0], dict(head), pathname + ".loop")
                grow = [s for s in after.values() if len(s) not in seen_heights]
                if grow:
                    hs = sorted({len(s) for s in after.values()})
                    self.report("C16.R2", "loop@" + pathname, "a pass of this loop changes the stack height from %s to %s: the stack is not balanced per iteration" % (sorted(seen_heights), hs))
                    return head
                new = {k: v for k, v in after.items() if k not in head}
                if not new:
                    break
                head.update(new)
            return head
        self.report("C16.R1", "unknown@" + pathname, "construct %s could not be interpreted" % (node.ty,))
        return states


def all_leaves(node, out):
    if node.kind == "leaf":
        out.append(node)
    for c in node.children:
        all_leaves(c, out)
    if node.kind in ("loop", "branch") and node.extra.get("condition") is not None:
        all_leaves(node.extra["condition"], out)
    return out


def scopes(node, out):
    if node.kind == "scope":
        out.append(node)
    for c in node.children:
        scopes(c, out)
    return out


# reviewed exceptions of the best-update placement rule: (template, instance prefix) -> reason
R4_EXCEPTIONS = {
    # (template module or fn, destroying component, evaluator) -> reason
    ("ils", "MuPlusLambda", "PopulationEvaluator"):
        "ILS: the perturbed solution is evaluated and a COPY of it (selection::All) enters an elitist (mu+lambda) local search that starts from "
        "that copy; the search result is never worse than its start and is shown to the best-update before this merge, so the unreported "
        "value cannot be below the reported best (confirmed dynamically over 30 seeds during triage).  The exception holds only while the other "
        "merged population (the search result) IS reported at the merge",
}


def run(ctx):
    ctx.guard("C16.R12", "evaluation steps reach their evaluator through State::holding: T is put back into the scope it came from", lambda: __import__("c02").r4_holding(ctx, "C16.R12"))
    ctx.guard("C16.K17", "constructor fidelity", lambda: __import__("ctor").check_for(ctx, "C16", 72))
    F = ctx.facts
    state = {}
    ctx.guard("C16.R1", "template trees", lambda: r1_r2_r3(ctx, state))
    ctx.guard("C16.R4", "format guards", lambda: r4_format_guards(ctx))
    ctx.guard("C16.R5", "guard conflicts", lambda: r5_guards(ctx))
    ctx.guard("C16.R6", "population size through recombination", lambda: r6_population_size(ctx))
    ctx.guard("C16.R8", "own state is read under the key it was inserted with", lambda: r8_state_keys(ctx))
    ctx.guard("C16.R7", "components complete on valid input", lambda: r7_components_complete(ctx))
    ctx.guard("C16.R10", "documented template requirements", lambda: r10_documented_requirements(ctx))
    ctx.guard("C16.R9", "equal molecules", lambda: __import__("c20").equal_molecules(ctx, "C16.R9"))
    ctx.guard("C16.R11", "nested loops count their own passes", lambda: r11_nested_loops(ctx))
    ctx.guard("C16.R14", "templates use every required parameter component and evaluate under their own identifier", lambda: r14_template_parameters(ctx))
    ctx.guard("C16.R13", "parameter schedules are wired to the state they are documented to drive", lambda: r13_schedules(ctx))


def r14_template_parameters(ctx, rule="C16.R14"):
    """template level: (a) every REQUIRED component / condition parameter of a template (a `Box<dyn Component>` / `Box<dyn Condition>`
    argument or field of its `Parameters` struct; optional ones are `Option<..>`) is part of the configuration it builds, in every
    variant (every combination of present / absent optional parameters); (b) a template generic over an identifier `I` evaluates
    with the evaluator of THAT identifier in every evaluation step it contains (`evaluate_with::<I>()`, not `evaluate()`)."""
    F = ctx.facts
    sums, fns, res, entered = analyse_templates(ctx)
    n = 0
    for (fn, tree, full, w, final) in res:
        if tree is None:
            continue
        n += 1
        leaves = all_leaves(tree, [])
        used = {l.ty[len("param:"):] for l in leaves if (l.ty or "").startswith("param:")}
        # required parameters: component-typed arguments and fields of a Parameters struct argument
        required = set()
        names = {d["arg"]: d["name"] for d in fn.body.dbg if d.get("arg")}
        for i, ty in enumerate(fn.sig["inputs"]):
            if T.is_comp_ty(ty):
                required.add(names.get(i + 1, str(i)))
            else:
                adt = F.adts.get(ty.split("<")[0])
                if adt is not None and ty.startswith("mahf::heuristics::") and adt["kind"] == "Struct":
                    for fd in adt["variants"][0]["fields"]:
                        if T.is_comp_ty(fd["ty"]):
                            required.add(fd["name"])
        missing = sorted(required - used)
        ctx.check(not missing, rule, fn.key, "required-parameters-used:%s" % ",".join(sorted(required - used)) if missing else "required-parameters-used",
                  "the configuration built by %s does not contain its required parameter component(s) %s (in the variant with parameters %s): a component the caller supplies is silently dropped"
                  % (fn.key.split("::")[-1], missing, sorted(used)), loc=fn.loc())
        tparams = [p_["name"] for p_ in (fn.generics or {}).get("params", []) if p_.get("kind") == "type"]
        idents = [p_ for p_ in tparams if any(pr.get("self") == p_ and "identifier::Identifier" in (pr.get("trait") or "") for pr in (fn.generics or {}).get("preds", []))]
        if idents:
            def names_other(l):
                g = getattr(l.leaf, "gargs", None)
                if g is None or any(a in idents for a in g):
                    return False
                # a bare name that is not one of the template's own type parameters is a generic parameter of an inlined helper
                # the interpreter could not instantiate: undecided, not reported
                return not any(isinstance(a, str) and re.fullmatch(r"[A-Za-z_][A-Za-z0-9_]*", a) and a not in tparams for a in g)
            wrong = [l for l in leaves if (l.ty or "").endswith("evaluation::PopulationEvaluator") and names_other(l)]
            ctx.check(not wrong, rule, fn.key, "evaluates-under-its-own-identifier",
                      "%s is generic over the identifier %s but contains an evaluation step for %s: with another identifier than Global the population is evaluated by a different evaluator than the one the template names"
                      % (fn.key.split("::")[-1], idents, sorted({str(l.leaf.gargs) for l in wrong})), loc=fn.loc())
    ctx.floor(rule, "template variants", n, 30)


def analyse_templates(ctx):
    """shared by C05/C06/C07/C16: returns (templates, per-template findings, stats)"""
    F = ctx.facts
    sums = compsum.all_component_summaries(F)
    fns = T.all_templates(F)
    res = []
    entered = set()
    for fn in fns:
        trees = T.template_trees(F, fn)
        full = "configuration::Configuration<" in fn.sig["output"]
        for tree, path in trees:
            for ev in path.events:
                if ev.kind == "enter" and ev.data.startswith("mahf::heuristics::"):
                    entered.add(ev.data)
            w = Walker(ctx, F, sums, fn.key)
            final = None
            if full:
                final = w.walk(tree, {(): ()}, "")
            res.append((fn, tree, full, w, final))
        if not trees:
            res.append((fn, None, full, None, None))
    return sums, fns, res, entered


def r1_r2_r3_only(ctx):
    """the template trees / stack discipline / evaluated-where-read rules, for properties that rest on them"""
    new = ctx.alias.get("C16.R1")
    if new:
        ctx.alias["C16.R2"] = new
        ctx.alias["C16.R3"] = new
    return r1_r2_r3(ctx, {})


def r1_r2_r3(ctx, state):
    F = ctx.facts
    sums, fns, res, entered = analyse_templates(ctx)
    ctx.floor("C16.R1", "Component implementations summarised", len(sums), 80)
    ctx.floor("C16.R1", "template constructors in src/heuristics", len(fns), 30)
    full = [r for r in res if r[2]]
    ctx.floor("C16.R1", "complete templates (return a Configuration)", len({r[0].key for r in full}), 18)
    builders = [f for f in fns if "configuration::Configuration<" not in f.sig["output"]]
    for b in builders:
        ctx.check(b.key in entered, "C16.R1", b.key, "reached", "generic builder %s is not used by any complete template (its body is analysed through them)" % b.key, loc=b.loc())
    n_leaves = 0
    for (fn, tree, is_full, w, final) in res:
        if tree is None:
            ctx.violation("C16.R1", fn.key, "tree", "no component tree could be extracted (no Ok-returning path)", kind="undecided-shape", loc=fn.loc())
            continue
        leaves = all_leaves(tree, [])
        n_leaves += len(leaves)
        if not is_full:
            continue
        unknown = [l for l in leaves if (l.ty or "").startswith("param:") and l.leaf.kind == "component"]
        ctx.check(not unknown, "C16.R1", fn.key, "closed-tree", "the template contains components the analysis cannot name: %s" % unknown, detail=repr(tree)[:300], loc=fn.loc())
        by_rule = {}
        for (rule, inst, msg) in w.findings:
            by_rule.setdefault(rule, []).append((inst, msg))
        for rule in ("C16.R1", "C16.R2", "C16.R3"):
            fs = by_rule.get(rule, [])
            seen = set()
            for inst, msg in fs:
                if inst in seen:
                    continue
                seen.add(inst)
                ctx.violation(rule, fn.key, inst, msg, loc=fn.loc())
            if not fs:
                ctx.ok(rule, fn.key, {"C16.R1": "all components analysable", "C16.R2": "stack discipline", "C16.R3": "evaluated typestate"}[rule], repr(tree)[:200] if rule == "C16.R2" else "")
        heights = sorted({len(s) for s in (final or {}).values()})
        ctx.check(heights == [1], "C16.R2", fn.key, "final-height", "the run ends with stack height(s) %s, expected exactly one population" % heights, detail=str(heights), loc=fn.loc())
    ctx.count("template_leaf_components", n_leaves)


def r4_format_guards(ctx):
    from absint import Interp, Sym, Agg, TOP, std_oracle, chain
    F = ctx.facts
    fn = F.method("mahf::components::mutation::de::DEMutation", "execute", "mahf::components::Component")
    yi = F.field_index("mahf::components::mutation::de::DEMutation", "y")
    bad = []
    n = 0
    for y in (1, 2, 3):
        size = 2 * y + 1
        for ln in range(0, 3 * size + 1):
            me = Sym("self", {yi: y, F.field_index("mahf::components::mutation::de::DEMutation", "f"): 0.5})

            def oracle(interp, env, f, args, t, bb, path, ln=ln):
                k = f.get("key", "")
                if k in ("mahf::state::State::populations_mut", "mahf::state::State::populations"):
                    return Sym("populations")
                if k in ("mahf::state::common::Populations::current_mut", "mahf::state::common::Populations::current"):
                    return Sym("population")
                if k in ("alloc::vec::Vec::len", "[T]::len") and isinstance(args[0], Sym) and args[0].tag == "population":
                    return ln
                return TOP
            it = Interp(fn.body, chain(oracle, std_oracle), [me, Sym("problem"), Sym("state")], facts=F, inline=None, max_visits=2, max_paths=300)
            n += 1
            paths = it.run()
            rejected = [p for p in paths if p.end == "return" and isinstance(p.ret, Agg) and p.ret.variant == "Err"]
            # rejection before any solution is touched: the path does not reach as_solutions_mut
            early_reject = [p for p in rejected if not any(e.kind == "call" and str(e.data[0]).endswith("as_solutions_mut") for e in p.events)]
            proceeds = [p for p in paths if any(e.kind == "call" and str(e.data[0]).endswith("as_solutions_mut") for e in p.events)]
            wellformed = ln % size == 0
            if wellformed and (early_reject and not proceeds):
                bad.append((y, ln, "is rejected although the population has the format [2y+1]*"))
            if not wellformed and proceeds and not early_reject:
                bad.append((y, ln, "is accepted although its length is not a multiple of 2y+1"))
    ctx.check(not bad, "C16.R4", fn.key, "format-guard", "y=%s, population length %s: %s" % (bad[0] if bad else ("", "", "")), detail="%d (y, length) cases" % n, loc=fn.loc())
    # back-stop: integer bitwise NOT in component code
    hits = []
    for f in F.all_fns:
        if not f.file.startswith("src/components/") or f.from_expansion:
            continue
        for b in f.body.normal_blocks():
            for st in f.body.stmts(b):
                if st[0] == "=" and st[2][0] == "un" and st[2][1] == "Not":
                    op = st[2][2]
                    pl = op[1] if op[0] in ("copy", "move") else None
                    ty = f.body.local_ty(pl[0]) if pl is not None and not pl[1] else (op[1].get("ty") if op[0] == "const" else "")
                    if ty in ("usize", "u32", "u64", "i32", "i64", "u8", "u16", "isize"):
                        hits.append((f, st[3]))
    for f, line in hits:
        ctx.violation("C16.R4", f.key, "integer-not", "bitwise NOT of an integer in component code (`!len % n` parses as `(!len) % n`)", loc=f.loc(line))
    if not hits:
        ctx.ok("C16.R4", "src/components", "no-integer-not", "")


def r5_guards(ctx):
    F = ctx.facts
    out, stats, S = k4.guard_conflicts(F)
    ctx.count("k4_bodies_with_guards", stats["bodies"])
    ctx.count("k4_guards", stats["guards"])
    ctx.floor("C16.R5", "bodies holding registry guards", stats["bodies"], 40)
    seen = set()
    for fn, g, c in out:
        key = (fn.key, g[0], c[1])
        if key in seen:
            continue
        seen.add(key)
        ctx.violation("C16.R5", fn.key, "%s while %s" % (c[1].split("::")[-1], g[3]),
                      "%s guard on %s (via %s, line %s) is live when %s acquires it %s (line %s): %s" % (g[1], g[0], g[3], g[2][0] if g[2] else "?", c[1], c[3], c[0][0] if c[0] else "?", c[4]), loc=fn.loc(c[0]))
    if not out:
        ctx.ok("C16.R5", "crate", "no-guard-conflict", "%d guards in %d bodies" % (stats["guards"], stats["bodies"]))
    # self-test on the fixtures crate: the analysis must find the seeded conflicts and only those
    fx = getattr(ctx, "fixture_facts", None)
    if fx is None:
        ctx.notes.append("fixtures unavailable: K4 self-test skipped")
        return
    fout, fstats, _ = k4.guard_conflicts(fx)
    found = {fn.key.split("::")[-1] for fn, g, c in fout if fn.key.startswith("mahf_sa_fixtures::")}
    want_bad = {f.key.split("::")[-1] for f in fx.all_fns if f.key.startswith("mahf_sa_fixtures::k4::bad_")}
    want_good = {f.key.split("::")[-1] for f in fx.all_fns if f.key.startswith("mahf_sa_fixtures::k4::good_")}
    ctx.check(want_bad <= found and len(want_bad) >= 5, "C16.R5", "fixtures", "k4-fires-on-bad", "K4 self-test: conflicts not detected in %s" % sorted(want_bad - found), detail=str(sorted(found)))
    ctx.check(not (want_good & found), "C16.R5", "fixtures", "k4-silent-on-good", "K4 self-test: false conflict in %s" % sorted(want_good & found))


def r6_population_size(ctx):
    """the population size a template prescribes survives the variation step: the recombination driver (shared by
    every crossover in the GA/ES/CRO templates) yields, for every number of parents and pair outcome, exactly the
    individuals its contract states (same rule body as C13.R5, owned here for the size clause of C16)"""
    import c13
    c13.r5_recombination_driver(ctx, rule="C16.R6")


# ------------------------------------------------------------------ R8: per-instance state keys

ACCESSORS = ("borrow", "borrow_mut", "try_borrow", "try_borrow_mut", "borrow_value", "borrow_value_mut", "try_borrow_value", "try_borrow_value_mut",
             "get_value", "try_get_value", "set_value", "get", "get_mut", "try_get", "try_get_mut", "remove", "try_remove", "take", "entry", "holding")


def outer(ty):
    return ty.split("<", 1)[0]


def r8_state_keys(ctx):
    """A component keeps its run-time parameters in state types keyed by its own type (`MutationRate<Self>`,
    `InertiaWeight<Self>`): every state type mentioning the component's own type that a method of the component reads
    must be spelled with the component's own instantiation - exactly as its init inserts it - and not with another
    instantiation of the same generic type (e.g. the default identifier), which this instance never inserted."""
    F = ctx.facts
    n = 0
    impls = {}
    for f in F.all_fns:
        if f.impl_trait in ("mahf::components::Component", "mahf::conditions::Condition") and f.impl_self_adt and f.name in ("init", "require", "execute", "evaluate"):
            impls.setdefault((f.impl_self_adt, f.impl_self_ty, f.impl_trait), []).append(f)
    for (adt, self_ty, tr), fns in sorted(impls.items()):
        bodies = []
        for f in fns:
            bodies += F.with_closures(f)
        for g in bodies:
            for bb, t in g.body.calls():
                ff = t["f"]
                ga = (ff.get("gargs") or [])
                if ff.get("name") not in ACCESSORS + ("insert", "insert_default", "contains", "has") or not (ff.get("key", "").startswith("mahf::state::")):
                    continue
                for ty in ga[:1]:
                    if (adt + "<") not in ty and not ty.endswith(adt + ">") and (adt + ">") not in ty and (adt + ",") not in ty:
                        continue
                    n += 1
                    # every mention of the component's ADT inside the state type must be the impl's own instantiation
                    import re
                    mentions = re.findall(re.escape(adt) + r"(?:<[^<>]*(?:<[^<>]*>[^<>]*)*>)?", ty)
                    wrong = [m for m in mentions if m != self_ty]
                    ctx.check(not wrong, "C16.R8", g.key, "own-state-key:" + outer(ty).split("::")[-1],
                              "%s accesses %s: this names the instantiation %s, not the component's own type %s, so the state this instance inserted is never the one it reads"
                              % (ff.get("name"), ty, wrong[0] if wrong else "", self_ty), loc=g.loc(t.get("line")))
    ctx.count("own_state_accesses", n)
    ctx.floor("C16.R8", "accesses to state keyed by the component's own type", n, 15)
    # identifier agreement: code that is generic over an identifier `I` selects its state by I; a state type spelled with a
    # CONCRETE identifier inside such code (`Evaluator<P>` = `Evaluator<P, Global>`) belongs to another instance
    m = 0
    acc_names = ACCESSORS + ("insert", "insert_default", "contains", "has", "holding", "require", "entry", "get_mut", "set_value")

    def concrete_identifier(ty):
        return isinstance(ty, str) and "mahf::identifier::" in ty and not ty.startswith("closure")
    assert concrete_identifier("mahf::state::common::Evaluator<P, mahf::identifier::inner::Global>") and not concrete_identifier("mahf::state::common::Evaluator<P, I>")
    for f in F.all_fns:
        if "{closure" in f.key:
            continue
        idparams = [p_["self"] for p_ in (f.generics or {}).get("preds", []) if p_.get("trait") == "mahf::identifier::Identifier"]
        if not idparams or not (f.impl_self_ty and "<" in f.impl_self_ty):
            continue
        for g in F.with_closures(f):
            for bb, t in g.body.calls():
                ff = t["f"]
                if ff.get("name") not in acc_names or not ff.get("key", "").startswith("mahf::state::"):
                    continue
                tys = [ty for ty in (ff.get("gargs") or []) if isinstance(ty, str) and not ty.startswith("closure")]
                if not any("<" in ty for ty in tys):
                    continue
                m += 1
                wrong = [ty for ty in tys if concrete_identifier(ty)]
                ctx.check(not wrong, "C16.R8", g.key, "own-identifier:" + (outer(wrong[0]).split("::")[-1] if wrong else ff.get("name")),
                          "%s names %s inside code that is generic over the identifier %s: the state of the component's own identifier is %s"
                          % (ff.get("name"), wrong[0] if wrong else "", idparams[0], "the one with " + idparams[0]), loc=g.loc(t.get("line")))
    ctx.count("identifier_generic_state_accesses", m)
    ctx.floor("C16.R8", "state accesses inside identifier-generic components", m, 25)


# ------------------------------------------------------------------ R7: the components the templates are made of complete

class CompletionProxy:
    """Borrows the scenario tables of the operator rules (C11-C14, C17-C20) and keeps only what matters for C16: a
    component that panics, diverges or returns an error on one of the valid scenarios.  Semantic deviations that still
    complete belong to the operator's own property and are dropped here."""
    import re as _re
    RX = _re.compile(r"panic|diverge|does not (return|complete)|Result::Err|could not be evaluated")

    def __init__(self, ctx):
        self._c = ctx
        self.facts = ctx.facts
        self.tier = ctx.tier
        self.kept = 0
        self.seen = 0

    def check(self, cond, rule, item, instance, msg, detail="", loc=None, kind="rule-violated"):
        self.seen += 1
        if cond:
            return
        self.violation(rule, item, instance, msg, kind=kind, loc=loc)

    def ok(self, *a, **k):
        self.seen += 1

    def violation(self, rule, item, instance, msg, kind="rule-violated", loc=None):
        if kind != "rule-violated" or not self.RX.search(msg):
            return
        self.kept += 1
        self._c.violation("C16.R7", item, "completes:" + instance, "(scenario table of %s) %s" % (rule, msg), loc=loc)

    def floor(self, *a, **k):
        pass

    def count(self, *a, **k):
        pass

    def guard(self, rule, what, fn):
        try:
            fn()
        except Exception as e:       # the owning property reports evaluation problems; C16 only borrows verdicts
            self._c.violation("C16.R7", rule, "borrowed-table", "the scenario table of %s could not be evaluated: %s" % (rule, e), kind="undecided-shape")


def r7_components_complete(ctx):
    import c11, c12, c13, c14, c17, c18, c19, c20
    px = CompletionProxy(ctx)
    tables = [("C11", c11.r3_operators), ("C11", c11.r5_sampling_operators), ("C12", c12.r2_operators), ("C13", c13.r7_mutation_components),
              ("C13", c13.r8_recombination_operators), ("C14", c14.r1_constrain), ("C14", c14.r4_initialization), ("C17", c17.r1_acceptance),
              ("C18", c18.r1_velocity_update), ("C18", c18.r3_best_memories), ("C19", c19.r1_generation), ("C19", c19.r2_updates), ("C20", c20.r1_updates)]
    for owner, fn in tables:
        px.guard(owner + ":" + fn.__name__, "", lambda fn=fn: fn(px))
    ctx.count("borrowed_scenario_verdicts", px.seen)
    ctx.floor("C16.R7", "verdicts borrowed from the operator scenario tables", px.seen, 40)
    if px.kept == 0:
        ctx.ok("C16.R7", "operator scenario tables", "no panic / error on valid scenarios", "%d verdicts from %d tables" % (px.seen, len(tables)))


# ------------------------------------------------------------------ R10: templates accept the parameters their documentation requires

def r10_documented_requirements(ctx):
    """A template constructor that validates its parameters must accept every parameter set its documentation
    declares valid (table below, read from the `# Requirements` doc sections): K6 evaluation of the constructor's
    guards on parameter sets on and inside the documented bounds; no path may return Err."""
    from absint import Interp, Sym, Agg, TOP, std_oracle, chain
    from collmodel import coll_oracle, install
    F = ctx.facts
    table = [
        ("mahf::heuristics::iwo::real_iwo", "mahf::heuristics::iwo::RealProblemParameters",
         "initial_population_size <= max_population_size, min_number_of_seeds <= max_number_of_seeds, final_deviation <= initial_deviation",
         [dict(initial_population_size=5, max_population_size=10, min_number_of_seeds=1, max_number_of_seeds=3, initial_deviation=0.5, final_deviation=0.01, modulation_index=3),
          dict(initial_population_size=10, max_population_size=10, min_number_of_seeds=2, max_number_of_seeds=2, initial_deviation=0.5, final_deviation=0.5, modulation_index=3),
          dict(initial_population_size=1, max_population_size=4, min_number_of_seeds=0, max_number_of_seeds=5, initial_deviation=1.0, final_deviation=0.0, modulation_index=2)]),
    ]
    n = 0
    for key, pty, doc, sets in table:
        fn = F.fn(key)
        fields = {f["name"]: f["i"] for f in F.adt(pty)["variants"][0]["fields"]}
        bad = []
        for ps in sets:
            if set(ps) != set(fields):
                raise AnchorMissing("parameter struct %s changed: %s" % (pty, sorted(fields)))
            vals = [None] * len(fields)
            for k, v in ps.items():
                vals[fields[k]] = v
            it = install(Interp(fn.body, chain(coll_oracle, std_oracle), [Agg("adt", pty, pty.split("::")[-1], vals), Sym("condition")], facts=F, inline=lambda k: False, max_visits=4, max_paths=64))
            n += 1
            for p in it.run():
                if p.end == "return" and isinstance(p.ret, Agg) and p.ret.variant == "Err":
                    bad.append((ps, "returns an error"))
                    break
                if p.end in ("panic",):
                    bad.append((ps, "panics"))
                    break
        ctx.check(not bad, "C16.R10", key, "accepts-documented-parameters", "parameters %s satisfy the documented requirements (%s) but the template constructor %s" % (bad[0][0] if bad else "", doc, bad[0][1] if bad else ""),
                  detail="%d parameter sets" % len(sets), loc=fn.loc())
    ctx.count("documented_parameter_sets", n)


def r11_nested_loops(ctx, rule="C16.R11"):
    """K6 (borrowing C03's bounded program semantics): the shape every ILS template has - init; while outer { perturb;
    scope { while inner { step } }; replace } - and the plain shape of all other templates - init; while { body } - perform
    exactly the scripted number of passes of each loop: the inner loop of the scope counts in its own counter, the outer
    counter is what it was when the scope is left. Loop passes 0..3 (outer) x 0..2 (inner, each time the scope is entered)."""
    import itertools
    import progsem
    F = ctx.facts
    L = ("L",)
    ils = ("B", (L, ("W", ("B", (L, ("S", ("B", (("W", ("B", (L,))),))), L)))))
    plain = ("B", (L, ("W", ("B", (L, L)))))
    cfgrun = F.fn("mahf::configuration::Configuration::run")
    n = 0
    bad = []
    for name, shape in (("ils", ils), ("single-loop", plain)):
        t = progsem.number(shape, [0, 0, 0])
        cs = [k for k, _ in progsem.conds(t)]
        for outer in range(0, 4):
            inner_choices = list(itertools.product(range(0, 3), repeat=outer)) if len(cs) == 2 else [()]
            for inner in inner_choices:
                script = {cs[0]: [True] * outer + [False]}
                if len(cs) == 2:
                    script[cs[1]] = [b for m in inner for b in [True] * m + [False]]
                why = progsem.compare(F, t, script, None, max_visits=40)
                n += 1
                if why:
                    bad.append((name, progsem.show(t), outer, list(inner), why))
    ctx.check(not bad, rule, cfgrun.key, "requested-number-of-passes",
              "template shape %s `%s` with %s outer passes and inner passes %s: the configuration %s" % (bad[0] if bad else ("", "", "", "", "")),
              detail="%d runs" % n, loc=cfgrun.loc())
    ctx.count("nested_loop_runs", n)
    ctx.floor(rule, "nested loop runs", n, 30)


# template -> [(mapping component, state the schedule reads (None: in place), state it drives)], confirmed against the templates' documentation
SCHEDULES = {
    "mahf::heuristics::pso::real_pso": [("mahf::components::mapping::common::Linear", "mahf::state::common::Progress<mahf::lens::common::ValueOf<mahf::state::common::Iterations>>",
                                          "mahf::components::swarm::pso::InertiaWeight<mahf::components::swarm::pso::ParticleVelocitiesUpdate")],   # inertia weight from start to end weight over the run
    "mahf::heuristics::iwo::real_iwo": [("mahf::components::mapping::common::Polynomial", "mahf::state::common::Progress<mahf::lens::common::ValueOf<mahf::state::common::Iterations>>",
                                          "mahf::components::mutation::MutationStrength<mahf::components::mutation::common::NormalMutation")],   # the mutation's standard deviation from initial to final deviation
    "mahf::heuristics::sa::real_sa": [("mahf::components::mapping::sa::GeometricCooling", None, "mahf::components::replacement::sa::Temperature")],
    "mahf::heuristics::sa::permutation_sa": [("mahf::components::mapping::sa::GeometricCooling", None, "mahf::components::replacement::sa::Temperature")],
    "mahf::heuristics::fa::real_fa": [("mahf::components::mapping::sa::GeometricCooling", None, "mahf::components::swarm::fa::RandomizationParameter")],
}


def r13_schedules(ctx):
    """the parameter schedules (mapping components) the templates wire in: each template contains exactly the listed
    schedules, reading the loop progress and driving the state its documentation names - read off the instantiated lens
    types of the mapping component the template builds (a schedule that drives another state leaves the documented
    parameter constant and may push the other one out of its domain: a run that errs midway)"""
    sums, fns, res, entered = analyse_templates(ctx)
    seen = set()
    for (tf, tree, full, w, final) in res:
        if tree is None or tf.key not in SCHEDULES:
            continue
        seen.add(tf.key)
        leaves = all_leaves(tree, [])
        maps = [l for l in leaves if (l.ty or "").startswith("mahf::components::mapping::")]
        want = SCHEDULES[tf.key]
        got = [(l.ty, [g for g in (l.leaf.gargs or []) if isinstance(g, str)]) for l in maps]
        good = len(maps) == len(want)
        why = "contains the schedules %s" % got
        if good:
            for (ty, src, dst) in want:
                hit = [ga for (t_, ga) in got if t_ == ty and any(dst in g for g in ga) and (src is None or any(src in g for g in ga))]
                if len(hit) != 1:
                    good = False
                    why = "wires %s with lenses %s; expected it to read %s and drive %s" % (ty.split("::")[-1], [ga for (t_, ga) in got if t_ == ty], src or "(the driven state itself)", dst.split("::")[-1])
                    break
        ctx.check(good, "C16.R13", tf.key, "schedules-drive-their-documented-state", "%s %s" % (tf.key.split("::")[-1], why), detail=str(got)[:300], loc=tf.loc())
    for k in sorted(set(SCHEDULES) - seen):
        ctx.violation("C16.R13", k, "anchor", "template %s was not analysed" % k, kind="anchor-missing")
