"""per-component-type summaries derived from the MIR of `execute` (and the operator drivers it delegates to)"""
from core import callee_key, callee_keys
from kinds import enclosing_loop, must_pass
import c03

POPS = "mahf::state::common::Populations::"
COMPONENT = "mahf::components::Component"


class Summary:
    def __init__(self):
        self.pops = 0
        self.pushes = 0
        self.exact = True          # pops/pushes are unconditional and outside loops
        self.notes = []
        self.peek = -1             # deepest peek(d) with constant d
        self.uses_current = False
        self.reads_objective = False
        self.invalidates = False   # obtains &mut solutions of existing individuals
        self.evaluates = False
        self.best_update = False
        self.fns = []
        self.paths = None

    def effect(self):
        return self.pushes - self.pops

    def __repr__(self):
        return "paths=%s pops=%d pushes=%d%s peek=%d cur=%s obj=%s inval=%s eval=%s best=%s %s" % (
            sorted(self.paths) if self.paths is not None else None, self.pops, self.pushes, "" if self.exact else "(inexact)", self.peek, self.uses_current, self.reads_objective, self.invalidates, self.evaluates, self.best_update, self.notes)


def reach(F, fn, depth=3):
    """fn + closures + crate-local callees (that take a state, populations or individuals) up to depth;
    operator-trait calls on a generic `T` are resolved to the component's own impl"""
    seen = {}
    adt = fn.impl_self_adt
    work = [(fn, 0)]
    while work:
        f, d = work.pop()
        if f.key in seen:
            continue
        seen[f.key] = f
        for g in F.closures_of(f.key):
            if g.key not in seen:
                work.append((g, d))
        if d >= depth:
            continue
        for bb, t in f.body.calls():
            ck = callee_key(t["f"])
            cf = F.fn_opt(ck)
            if cf is None and adt and t["f"].get("trait", "").startswith("mahf::components::") and not t["f"].get("resolved"):
                cf = F.fn_opt("<%s as %s>::%s" % (adt, t["f"]["trait"], t["f"]["name"]))
            if cf is None or cf.key in seen:
                continue
            if ck.startswith("mahf::state::") or ck.startswith("<mahf::state::") or ck.startswith("mahf::problems::individual") or ck.startswith("mahf::population"):
                continue
            if any("mahf::state::State<" in a or "mahf::state::common::Populations<" in a or "individual::Individual<" in a for a in t.get("arg_tys", [])):
                work.append((cf, d + 1))
    return list(seen.values())


ONCE_COMBINATORS = ("core::result::Result::map", "core::result::Result::and_then", "core::result::Result::map_or", "core::result::Result::map_or_else",
                    "core::option::Option::map", "core::option::Option::and_then", "core::option::Option::map_or", "core::option::Option::map_or_else",
                    "core::result::Result::inspect", "core::option::Option::inspect")


def once_closures(F, fn):
    """closures of fn handed to a Result/Option combinator: they run (at most) once, on the success value, exactly where
    the combinator is called - for the successful executions the summaries describe they are straight-line code"""
    from core import strip
    out = {}
    for bb, t in fn.body.calls():
        if callee_key(t["f"]) in ONCE_COMBINATORS:
            for a in t["args"][1:]:
                e = strip(fn.body.expr_of_op(a))
                if e[0] == "agg" and e[1] == "closure":
                    out[e[2]] = bb
    return out


def path_effects(F, fn, adt=None, depth=0):
    """set of (net, low) over all Ok paths of fn: net stack effect and lowest prefix sum (how many existing
    populations the path consumes at most); None when an operation sits in a loop"""
    body = fn.body
    errs = c03.err_blocks(body)
    loops = body.loops()
    inloop = set()
    for h, blks in loops.items():
        inloop |= blks
    ops = {}
    edge_ops = {}
    for bb, t in body.calls():
        k = callee_key(t["f"])
        eff = None
        if k == POPS + "push":
            eff = {(1, 0)}
        elif k == POPS + "pop":
            eff = {(-1, -1)}
        elif k == POPS + "try_pop":
            eff = "try_pop"
        else:
            cf = F.fn_opt(k)
            if cf is None and adt is not None and t["f"].get("trait", "").startswith("mahf::components::") and not t["f"].get("resolved"):
                cf = F.fn_opt("<%s as %s>::%s" % (adt, t["f"]["trait"], t["f"]["name"]))
            if cf is not None and depth < 3 and not k.startswith("mahf::state::") and any("mahf::state::State<" in a or "Populations<" in a for a in t.get("arg_tys", [])):
                sub = path_effects(F, cf, adt, depth + 1)
                if sub is None:
                    return None
                if sub != {(0, 0)}:
                    eff = sub
        if eff == "try_pop":
            # `if let Some(p) = try_pop()`: a population leaves the stack on the Some edge only
            if bb in inloop:
                return None
            done = False
            for sb in sorted(body.reachable_from(t["target"])) if t["target"] is not None else []:
                tt = body.term(sb)
                if tt["k"] == "switch":
                    e = body.expr_of_op(tt["discr"])
                    from core import strip
                    if e[0] == "discr" and strip(e[1])[0] == "call" and strip(e[1])[3].get("bb") == bb:
                        for v, tb in tt["targets"]:
                            if v == 1:
                                edge_ops[(sb, tb)] = {(-1, -1)}
                                done = True
                        if not done and tt["otherwise"] is not None:
                            edge_ops[(sb, tt["otherwise"])] = {(-1, -1)}
                            done = True
                        break
            if not done:
                ops[bb] = {(-1, -1)}
            continue
        if eff is not None:
            if bb in inloop:
                return None
            ops[bb] = eff
    # closures performing stack operations: straight-line when handed to a run-once combinator, otherwise give up
    once = once_closures(F, fn)
    for g in F.closures_of(fn.key):
        if not any(callee_key(t["f"]) in (POPS + "push", POPS + "pop", POPS + "try_pop") for bb, t in g.body.calls()):
            continue
        if g.key in once and once[g.key] not in inloop and depth < 3:
            sub = path_effects(F, g, adt, depth + 1)
            if sub is None:
                return None
            cb = once[g.key]
            ops[cb] = {(d + n, min(dl, d + low)) for (d, dl) in ops.get(cb, {(0, 0)}) for (n, low) in sub}
            continue
        return None
    memo = {}
    onstack = set()

    def go(b):
        if b in memo:
            return memo[b]
        if b in onstack:
            return set()         # back edge: every path leaves the loop through another edge (loops hold no operations)
        onstack.add(b)
        t = body.term(b)
        if t["k"] == "return":
            res = {(0, 0)}
        else:
            res = set()
            for s_ in body.succs(b):
                if s_ in errs:
                    continue
                sub = go(s_)
                if (b, s_) in edge_ops:
                    sub = {(d + n, min(dl, d + low)) for (d, dl) in edge_ops[(b, s_)] for (n, low) in sub}
                res |= sub
            if not res:
                res = set()
        if b in ops:
            new = set()
            for (d, dl) in ops[b]:
                for (n, low) in res:
                    new.add((d + n, min(dl, d + low)))
            res = new
        onstack.discard(b)
        memo[b] = res
        return res
    return go(0)


def summarize(F, fn):
    s = Summary()
    fns = reach(F, fn)
    s.paths = path_effects(F, fn, fn.impl_self_adt)
    s.fns = [f.key for f in fns]
    for f in fns:
        body = f.body
        errs = c03.err_blocks(body)
        for bb, t in body.calls():
            k = callee_key(t["f"])
            ks = callee_keys(t["f"])
            if k in (POPS + "push", POPS + "pop", POPS + "try_pop"):
                in_once = False
                if f.kind == "Closure" and f.parent:
                    pf = F.fn_opt(f.parent)
                    oc = once_closures(F, pf) if pf is not None else {}
                    if f.key in oc:
                        pb = pf.body
                        in_once = enclosing_loop(pb, oc[f.key]) is None and must_pass(pb, 0, lambda b, x=oc[f.key]: b == x, excluded_blocks=c03.err_blocks(pb)) is None
                unconditional = enclosing_loop(body, bb) is None and must_pass(body, 0, lambda b: b == bb, excluded_blocks=errs) is None and (f.kind != "Closure" or in_once)
                if not unconditional:
                    s.exact = False
                    s.notes.append("%s in %s is conditional or in a loop" % (k.split("::")[-1], f.key.split("::")[-1]))
                if k.endswith("push"):
                    s.pushes += 1
                else:
                    s.pops += 1
            elif k in (POPS + "peek", POPS + "try_peek"):
                a = t["args"][1]
                if a[0] == "const" and "v" in a[1]:
                    s.peek = max(s.peek, a[1]["v"])
                else:
                    s.notes.append("peek with non-constant depth")
            elif k in (POPS + "current", POPS + "current_mut", POPS + "get_current", POPS + "get_current_mut"):
                # the top population is read / edited: that needs a population put there by somebody else - unless this very
                # function has pushed one on every path leading here and pops none (`push(Vec::new()); current_mut().extend(..)`)
                pushes_ = [b2 for b2, t2 in body.calls() if callee_key(t2["f"]) == POPS + "push"]
                pops_ = [b2 for b2, t2 in body.calls() if callee_key(t2["f"]) in (POPS + "pop", POPS + "try_pop")]
                own = (not pops_) and any(must_pass(body, 0, lambda b, x=pb: b == x, goal=lambda b, u=bb: b == u) is None for pb in pushes_)
                if not own:
                    s.uses_current = True
            elif k in ("mahf::problems::individual::Individual::objective",) or any(x.endswith("as mahf::population::BestIndividual>::best_individual") for x in ks):
                s.reads_objective = True
            elif k == "mahf::problems::individual::Individual::solution_mut" or any(x.endswith("as mahf::population::AsSolutionsMut>::as_solutions_mut") for x in ks):
                s.invalidates = True
            elif "mahf::problems::evaluate::Evaluate::evaluate" in ks:
                s.evaluates = True
            elif k == "mahf::state::common::BestIndividual::update":
                s.best_update = True
        # function items passed by value (map(Individual::objective))
        for (g, bi, c) in []:
            pass
    for (g, bi, c) in F.fn_refs(lambda c: c.get("key") in ("mahf::problems::individual::Individual::objective", "mahf::problems::individual::Individual::solution_mut")):
        if g.key in s.fns:
            if c["key"].endswith("objective"):
                s.reads_objective = True
            else:
                s.invalidates = True
    return s


def all_component_summaries(F):
    out = {}
    for f in F.all_fns:
        if f.impl_trait == COMPONENT and f.name == "execute" and f.impl_self_adt:
            out[f.impl_self_adt] = (f, summarize(F, f))
    return out


if __name__ == "__main__":
    import engine
    from core import load_facts
    th, files = engine.extract()
    F = load_facts(files[:1])
    sums = all_component_summaries(F)
    for k in sorted(sums):
        print(k.replace("mahf::components::", ""), "::", sums[k][1])
    print(len(sums))
