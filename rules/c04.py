"""C04 — the population stack is a faithful LIFO stack of populations."""
from core import expr_str, AnchorMissing
from absint import Interp, Sym, Agg, Ref, HRef, TOP, some, NONE, std_oracle, chain

EXPLANATION = (
    "Finite-domain abstract interpretation (K6) of every method of `Populations` and of the RotatePopulations "
    "component: the `stack` field is modelled as a list of opaque population symbols of height 0..5; Vec/slice "
    "primitives (push, pop, last, last_mut, len, is_empty, get, index ranges, rotate_left/right, checked_sub) are "
    "answered by the model, everything else (closures, Option combinators, overflow assertions) is interpreted from "
    "the MIR. For every height, depth and n the observable result and the resulting stack must equal what a plain "
    "stack does: push appends, pop/try_pop remove the top, current/peek(depth) read len-1-depth, the non-panicking "
    "accessors return None instead of failing, rotate(n) for 1<=n<=height cyclically shifts exactly the top n by one "
    "position and never touches the rest, no population symbol is cloned/reordered by a stack operation, and "
    "RotatePopulations::execute errs (never panics) when the guard fails and is panic-free when it passes. NOT "
    "decided: equality of population *contents* over arbitrary histories at run time (Vec and slice are trusted).")
ASSUMPTIONS = ["alloc::vec::Vec and slice primitives behave as documented"]

POP = "mahf::state::common::Populations"
PK = POP + "::"
MOD = "mahf::state::common::"     # the module's own helpers (private fns, nested modules) are followed like the methods


class StackModel:
    """The population stack's inner Vec, kept in interp.mstate['stack'] (a tuple of population values) and operated
    on through the general collection model: every Vec / slice operation the real code applies to `self.stack` is
    answered by collmodel on a heap vector that mirrors the tuple; unknown operations are TOP (undecided)."""
    VID = "__stack"

    def __init__(self, stack_field):
        self.stack_field = stack_field

    def __call__(self, interp, env, f, args, t, bb, path):
        from collmodel import coll_oracle, Vec, heap_set, heap_get

        def mine(a, d=0):
            if isinstance(a, Sym) and a.tag == "stack":
                return True
            if isinstance(a, (Vec, HRef)) and a.vid == self.VID:
                return True
            if isinstance(a, Ref) and d < 3:
                try:
                    return mine(interp.read_ref(env, a), d + 1)
                except Exception:
                    return False
            if isinstance(a, Agg) and d < 3:      # a sub-slice / tuple / Option of references into the stack
                return any(mine(x, d + 1) for x in a.fields)
            return False
        if not any(mine(a) for a in args):
            return TOP
        heap_set(interp, self.VID, interp.mstate.get("stack", ()))

        def conv(a, d=0):
            if isinstance(a, Sym) and a.tag == "stack":
                return Vec(self.VID, True)
            if isinstance(a, Ref) and d < 3:
                tgt = interp.read_ref(env, a)
                if isinstance(tgt, Sym) and tgt.tag == "stack":
                    return Vec(self.VID, True)
            return a
        r = coll_oracle(interp, env, f, [conv(a) for a in args], t, bb, path)
        interp.mstate["stack"] = tuple(heap_get(interp, self.VID))
        a0 = conv(args[0]) if args else None
        if r is TOP and isinstance(a0, Vec) and a0.vid == self.VID:
            interp.mstate["unmodelled"] = interp.mstate.get("unmodelled", ()) + (f.get("key", ""),)
        return r


def resolve(p, v, depth=0):
    """follow element references into the modelled stack / heap of a finished path"""
    while isinstance(v, HRef) and depth < 4:
        items = p.mstate.get("stack", ()) if v.vid == StackModel.VID else p.mstate.get("heap", {}).get(v.vid, ())
        v = items[v.idx] if v.idx < len(items) else TOP
        depth += 1
    if isinstance(v, Agg) and v.variant == "Some" and v.fields and isinstance(v.fields[0], HRef):
        return Agg(v.kind, v.name, v.variant, [resolve(p, v.fields[0], depth + 1)])
    return v


def mk_self(stack_field):
    me = Sym("populations", {})
    me.fields[stack_field] = Sym("stack")
    return me


def evaluate(F, fn, height, extra, stack_field, inline_extra=None):
    pops = tuple(Sym("p%d" % i) for i in range(height))
    me = mk_self(stack_field)
    from collmodel import coll_oracle, install
    it = install(Interp(fn.body, chain(StackModel(stack_field), coll_oracle, std_oracle), [me] + list(extra), facts=F,
                        inline=lambda k: k.startswith(MOD) or (inline_extra and inline_extra(k))))
    it.init_state = {"stack": pops}
    return pops, it.run()


def val(v):
    if isinstance(v, Agg) and v.variant in ("Some", "None"):
        return (v.variant, v.fields[0].tag if v.fields and isinstance(v.fields[0], Sym) else (v.fields[0] if v.fields else None))
    if isinstance(v, Sym):
        return ("sym", v.tag)
    if isinstance(v, Agg) and v.kind == "tuple" and not v.fields:
        return ("unit", None)
    if isinstance(v, (bool, int)):
        return ("val", v)
    return ("?", None)


def run(ctx):
    ctx.guard("C04.R1", "Populations", lambda: r1(ctx))
    ctx.guard("C04.R3", "RotatePopulations", lambda: r3(ctx))


MAXH = 5


def expect(op, pops, arg):
    """(result, resulting stack, may_panic) of a plain stack"""
    h = len(pops)
    tags = [p.tag for p in pops]
    if op == "push":
        return ("unit", None), tags + ["new"], False
    if op == "pop":
        return (("sym", tags[-1]), tags[:-1], False) if h else (None, None, True)
    if op == "try_pop":
        return (("Some", tags[-1]), tags[:-1], False) if h else (("None", None), tags, False)
    if op in ("current", "current_mut"):
        return (("sym", tags[-1]), tags, False) if h else (None, None, True)
    if op in ("get_current", "get_current_mut"):
        return (("Some", tags[-1]), tags, False) if h else (("None", None), tags, False)
    if op == "len":
        return ("val", h), tags, False
    if op == "is_empty":
        return ("val", h == 0), tags, False
    if op == "peek":
        return (("sym", tags[h - 1 - arg]), tags, False) if arg < h else (None, None, True)
    if op == "try_peek":
        return (("Some", tags[h - 1 - arg]), tags, False) if arg < h else (("None", None), tags, False)
    raise KeyError(op)


def r1(ctx):
    global MAXH
    MAXH = 8 if ctx.tier == "thorough" else 5
    F = ctx.facts
    sf = F.field_index(POP, "stack")
    n = 0
    ops = [("push", [None]), ("pop", []), ("try_pop", []), ("current", []), ("current_mut", []), ("get_current", []), ("get_current_mut", []),
           ("len", []), ("is_empty", []), ("peek", "depth"), ("try_peek", "depth")]
    for op, extra in ops:
        fn = F.fn(PK + op)
        bad = []
        for h in range(0, MAXH + 1):
            # depths beyond the height up to the largest representable one (no arithmetic on the depth may overflow)
            argvals = (list(range(0, MAXH + 2)) + [2 ** 64 - 2, 2 ** 64 - 1]) if extra == "depth" else [None]
            for a in argvals:
                ex = [Sym("new")] if op == "push" else ([a] if extra == "depth" else [])
                pops, paths = evaluate(F, fn, h, ex, sf)
                want_ret, want_stack, may_panic = expect(op, pops, a)
                n += 1
                for p in paths:
                    got_stack = [x.tag if isinstance(x, Sym) else repr(x) for x in p.mstate.get("stack", ())]
                    if p.mstate.get("unmodelled"):
                        bad.append((h, a, "applies %s to the stack" % (p.mstate["unmodelled"],)))
                    elif p.end == "return":
                        if may_panic:
                            bad.append((h, a, "returns %s where a plain stack has nothing to return" % (val(resolve(p, p.ret)),)))
                        elif val(resolve(p, p.ret)) != want_ret or got_stack != want_stack:
                            bad.append((h, a, "returns %s leaving %s; a plain stack returns %s leaving %s" % (val(resolve(p, p.ret)), got_stack, want_ret, want_stack)))
                    elif p.end in ("panic", "diverge"):
                        if not may_panic:
                            bad.append((h, a, "panics"))
                    else:
                        bad.append((h, a, "evaluation ended with %s" % p.end))
        ctx.check(not bad, "C04.R1", fn.key, "plain-stack-semantics",
                  "%s with stack height %s%s: %s" % (op, bad[0][0] if bad else "", (", depth %s" % bad[0][1]) if bad and bad[0][1] is not None else "", bad[0][2] if bad else ""),
                  detail="heights 0..%d%s" % (MAXH, ", depths 0..%d" % (MAXH + 1) if extra == "depth" else ""), loc=fn.loc())
    # rotate
    fn = F.fn(PK + "rotate")
    bad = []
    for h in range(0, MAXH + 1):
        for k in range(0, h + 1):
            pops, paths = evaluate(F, fn, h, [k], sf)
            tags = [p.tag for p in pops]
            n += 1
            # cyclic shift of exactly the top k by one position, either direction
            if k == 0:
                wants = [tags]
            else:
                top = tags[h - k:]
                wants = [tags[:h - k] + [top[-1]] + top[:-1], tags[:h - k] + top[1:] + [top[0]]]
            for p in paths:
                got = [x.tag if isinstance(x, Sym) else repr(x) for x in p.mstate.get("stack", ())]
                if p.mstate.get("unmodelled"):
                    bad.append((h, k, "applies %s to the stack" % (p.mstate["unmodelled"],)))
                elif p.end != "return":
                    bad.append((h, k, "does not return (%s: %s)" % (p.end, [e.data for e in p.events if e.kind == "panic"])))
                elif got not in wants:
                    bad.append((h, k, "turns %s into %s; shifting exactly the top %d by one position gives %s" % (tags, got, k, " or ".join(map(str, wants)))))
    ctx.check(not bad, "C04.R1", fn.key, "rotate-top-n-by-one",
              "rotate(n=%s) on a stack of height %s %s" % (bad[0][1] if bad else "", bad[0][0] if bad else "", bad[0][2] if bad else ""),
              detail="all 0<=n<=height<=%d" % MAXH, loc=fn.loc())
    ctx.count("stack_scenarios", n)


def r3(ctx):
    global MAXH
    MAXH = 8 if ctx.tier == "thorough" else 5
    F = ctx.facts
    sf = F.field_index(POP, "stack")
    adt = "mahf::components::utils::populations::RotatePopulations"
    fn = F.method(adt, "execute", "mahf::components::Component")
    nidx = F.field_index(adt, "n")
    bad = []
    cnt = 0
    for h in range(0, MAXH + 1):
        for k in range(0, MAXH + 2):
            me = Sym("self", {nidx: k})
            pops = tuple(Sym("p%d" % i) for i in range(h))
            popsym = mk_self(sf)

            def oracle(interp, env, f, args, t, bb, path):
                key = f.get("key", "")
                if key in ("mahf::state::State::populations", "mahf::state::State::populations_mut"):
                    return popsym
                if f.get("name") in ("borrow", "borrow_mut") and (f.get("gargs") or [""])[0].startswith(POP):
                    return popsym       # (the try_ forms are derived by the accessor family: Ok of it)
                return TOP
            from collmodel import coll_oracle, install
            it = install(Interp(fn.body, chain(oracle, StackModel(sf), coll_oracle, std_oracle), [me, Sym("problem"), Sym("state")], facts=F, inline=lambda kk: kk.startswith(MOD)))
            it.init_state = {"stack": pops}
            cnt += 1
            for p in it.run():
                tags = [x.tag for x in pops]
                got = [x.tag if isinstance(x, Sym) else repr(x) for x in p.mstate.get("stack", ())]
                if p.mstate.get("unmodelled"):
                    bad.append((h, k, "applies %s to the stack" % (p.mstate["unmodelled"],)))
                if p.end in ("panic", "diverge"):
                    bad.append((h, k, "panics (%s); the height guard must turn this into an error" % [e.data for e in p.events if e.kind == "panic"]))
                elif p.end == "return":
                    r = p.ret
                    is_ok = isinstance(r, Agg) and r.variant == "Ok"
                    is_err = isinstance(r, Agg) and r.variant == "Err"
                    if k > h and not is_err and not (is_ok and got == tags):
                        bad.append((h, k, "returns %s with stack %s although only %d populations exist" % (r, got, h)))
                    if k <= h and is_err:
                        bad.append((h, k, "is rejected although %d populations exist" % h))
                    if k <= h and is_ok and k >= 1:
                        top = tags[h - k:]
                        wants = [tags[:h - k] + [top[-1]] + top[:-1], tags[:h - k] + top[1:] + [top[0]]]
                        if got not in wants:
                            bad.append((h, k, "turns %s into %s" % (tags, got)))
    ctx.check(not bad, "C04.R3", fn.key, "guard-implies-no-panic",
              "RotatePopulations(n=%s) on a stack of height %s %s" % (bad[0][1] if bad else "", bad[0][0] if bad else "", bad[0][2] if bad else ""),
              detail="%d (height, n) pairs" % cnt, loc=fn.loc())
