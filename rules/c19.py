"""C19 — ant-colony generation yields valid tours; pheromone updates are well-formed."""
import itertools

from core import expr_str, strip, subexprs, AnchorMissing
from absint import Interp, Sym, Agg, Ref, HRef, TOP, some, NONE, ok, err, std_oracle, chain
from collmodel import coll_oracle, Vec, install, load, heap_get, It
from c10 import mk_oracle
import c07

EXPLANATION = (
    "K6 with the pheromone matrix modelled exactly (rows of floats): AcoGeneration::execute for 1..4 cities, 0..2 ants, "
    "several pheromone states (uniform, with zero and denormal trails) and distances (ordinary, astronomically large) "
    "and both extreme sampler outcomes: it installs exactly 1 + num_ants unevaluated tours, each a permutation of all "
    "cities starting at city 0, never panics, and every roulette weight handed to WeightedIndex is strictly positive "
    "(so sampling cannot fail for any reachable pheromone state). AsPheromoneUpdate and MinMaxPheromoneUpdate on "
    "populations of one greedy plus 1..2 sampled tours: the resulting matrix equals evaporate-everything-then-deposit "
    "(symmetrically, on the consecutive city pairs of every sampled tour resp. of the best sampled tour, by "
    "decay/length resp. 1/length), the greedy tour is never rewarded, and for the max-min variant every trail ends "
    "within [min, max]. (R3) the matrix type itself (R1/R2 model it by rows): new() builds d*d equal trails, m[i] / &mut m[i] are "
    "entries i*d..(i+1)*d of the storage and abort for i >= d, m *= r multiplies every entry exactly once, AcoGeneration::init "
    "installs new(problem.dimension(), default_pheromones). NOT decided: finiteness and non-negativity for arbitrary run lengths as numbers.")
ASSUMPTIONS = ["WeightedIndex::new succeeds iff all weights are >= 0 and their sum is > 0; its sample returns a valid index"]

GEN = "mahf::components::generative::"
PM = GEN + "PheromoneMatrix"
COMP = "mahf::components::Component"
SO = "mahf::problems::objective::single::SingleObjective"


def matrix_oracles(dim):
    def index(interp, env, f, args):
        i = load(interp, env, args[1])
        if isinstance(i, int) and 0 <= i < dim:
            return Vec("row%d" % i, borrowed=True)
        return "DIVERGE" if isinstance(i, int) else TOP

    def mul_assign(interp, env, f, args):
        r = load(interp, env, args[1])
        if not isinstance(r, float):
            return TOP
        h = dict(interp.mstate.get("heap", {}))
        for i in range(dim):
            h["row%d" % i] = tuple(x * r if isinstance(x, float) else TOP for x in h.get("row%d" % i, ()))
        interp.mstate["heap"] = h
        interp.mstate["ops"] = interp.mstate.get("ops", ()) + ("evaporate",)
        return Agg("tuple", None, None, [])
    return {"<%s as core::ops::index::Index<usize>>::index" % PM: index, "<%s as core::ops::index::IndexMut<usize>>::index_mut" % PM: index,
            "<%s as core::ops::arith::MulAssign<f64>>::mul_assign" % PM: mul_assign}


def r1_generation(ctx):
    F = ctx.facts
    adt = GEN + "AcoGeneration"
    fn = F.method(adt, "execute", COMP)
    fi = {n: F.field_index(adt, n) for n in ("num_ants", "alpha", "beta", "default_pheromones")}
    bad = []
    n = 0
    home = 10000
    for dim, ants, pher, dist, pick in itertools.product(range(1, 5), range(0, 3), ("uniform", "zeros", "denormal"), (2.0, 1e200), ("first", "last")):
        me = Sym("self", {fi["num_ants"]: ants, fi["alpha"]: 1.0, fi["beta"]: 3.0, fi["default_pheromones"]: 1.0})
        val = {"uniform": 1.0, "zeros": 0.0, "denormal": 5e-324}[pher]
        weights_seen = []

        def wnew(interp, env, f, args):
            w = load(interp, env, args[0])
            items = [load(interp, env, x) for x in (w.items if isinstance(w, It) else heap_get(interp, w.vid) if isinstance(w, Vec) else [])]
            weights_seen.append(items)
            interp.mstate["wlen"] = len(items)
            if not items or any(not isinstance(x, float) for x in items):
                return TOP
            if any(x != x for x in items):
                return err(Sym("InvalidWeight"))
            if any(x < 0 for x in items) or not any(x > 0 for x in items):
                return err(Sym("AllWeightsZero"))
            if any(x == float("inf") for x in items) or sum(items) == float("inf"):
                return "DIVERGE"      # rand builds `Uniform::new(0, total)`: a non-finite total panics
            return ok(Sym("dist"))

        def sample(interp, env, f, args):
            k = interp.mstate.get("wlen", 1)
            return 0 if pick == "first" else k - 1
        # the pheromone matrix, the population stack and the generator are cells of the typed store (any accessor reaches them)
        import statemodel
        cells1 = {PM: ("whole", Sym("pm", boxlike=True)), statemodel.POPULATIONS: ("whole", Sym("populations")), statemodel.RANDOM: ("whole", Sym("rng"))}
        store1 = statemodel.Store(F, levels=1, auto=statemodel.by_prefix(F, cells1))
        table = {
                 "mahf::problems::VectorProblem::dimension": dim, "mahf::problems::TravellingSalespersonProblem::distance": dist,
                 "rand::distributions::weighted_index::WeightedIndex::new": wnew, "rand::distributions::distribution::Distribution::sample": sample,
                 "rand::rng::Rng::sample": sample,      # `rng.sample(&dist)` is `dist.sample(rng)`
                 "mahf::state::common::Populations::current_mut": Ref(home, [], frame="root")}
        table.update(matrix_oracles(dim))
        it = install(Interp(fn.body, chain(mk_oracle(table), store1, coll_oracle, std_oracle), [me, Sym("problem"), Sym("state")], facts=F,
                            inline=lambda k_: c07.INLINE(k_) or (statemodel.inline(k_) and PM not in k_), max_visits=40, max_paths=100))
        heap = {"row%d" % i: tuple(val if i != j else 0.0 for j in range(dim)) for i in range(dim)}
        it.extra_env = {home: Vec("old")}
        heap["old"] = ()
        it.init_state = {"heap": heap, "next_vec": 0}
        store1.install(it)
        n += 1
        for p in it.run():
            ctxs = (dim, ants, pher, dist, pick)
            if p.end != "return" or not (isinstance(p.ret, Agg) and p.ret.variant == "Ok"):
                bad.append(ctxs + ("does not complete (%s%s)" % (p.end, ": " + str([e.data for e in p.events if e.kind == "panic"][:1]) if p.end == "panic" else ""),))
                continue
            pop = p.env.get(home)
            inds = p.mstate["heap"].get(pop.vid, ()) if isinstance(pop, Vec) else None
            if inds is None or len(inds) != 1 + ants:
                bad.append(ctxs + ("installs %s tours, expected %d (one greedy + the sampled ones)" % (len(inds) if inds is not None else pop, 1 + ants),))
                continue
            for x in inds:
                route = list(p.mstate["heap"].get(x.fields[0].vid, ())) if isinstance(x, Agg) and isinstance(x.fields[0], Vec) else None
                if route is None or sorted(route) != list(range(dim)) or route[0] != 0:
                    bad.append(ctxs + ("builds the tour %s, which is not a permutation of all %d cities starting at city 0" % (route, dim),))
                if isinstance(x, Agg) and not (isinstance(x.fields[1], Agg) and x.fields[1].variant == "None"):
                    bad.append(ctxs + ("installs an evaluated tour",))
        for w in weights_seen:
            if any((not isinstance(x, float)) or not (x > 0.0) or x == float("inf") for x in w):
                bad.append((dim, ants, pher, dist, pick, "hands roulette weights %s to the sampler (every weight must be strictly positive, else sampling fails when all candidates vanish)" % (w,)))
    ctx.check(not bad, "C19.R1", fn.key, "valid-tours", "%s cities, %s ants, %s pheromones, distance %s, sampler picks the %s candidate: generation %s" % (bad[0] if bad else ("", "", "", "", "", "")), detail="%d scenarios" % n, loc=fn.loc())
    ctx.count("generation_scenarios", n)


def expected_update(kind, rows, tours, objs, rho, coef, lo, hi, bound_first=True):
    """the trails after the update.  For the max-min variant the property fixes evaporate -> deposit and that every trail ends
    within the bounds, not WHEN the bounds are enforced: `bound_first` = the evaporated trails are bounded before the deposit
    (and the result again) - the pinned tree; otherwise only the final trails are bounded (Stuetzle & Hoos' formulation)"""
    d = len(rows)
    m = [[x * (1.0 - rho) for x in r] for r in rows]
    if kind == "mmas":
        if bound_first:
            m = [[max(lo, min(hi, x)) for x in r] for r in m]
        sampled = list(range(1, len(tours)))
        best = min(sampled, key=lambda i: objs[i])
        t = tours[best]
        delta = 1.0 / objs[best]
        for a, b in zip(t, t[1:]):
            m[a][b] = m[a][b] + delta if not bound_first else max(lo, min(hi, m[a][b] + delta))
            m[b][a] = m[b][a] + delta if not bound_first else max(lo, min(hi, m[b][a] + delta))
        if not bound_first:
            m = [[max(lo, min(hi, x)) for x in r] for r in m]
    else:
        for i in range(1, len(tours)):
            delta = coef / objs[i]
            for a, b in zip(tours[i], tours[i][1:]):
                m[a][b] += delta
                m[b][a] += delta
    return m


def r2_updates(ctx):
    F = ctx.facts
    for adt, kind in ((GEN + "AsPheromoneUpdate", "as"), (GEN + "MinMaxPheromoneUpdate", "mmas")):
        fn = F.method(adt, "execute", COMP)
        fields = {f["name"]: f["i"] for f in F.adt(adt)["variants"][0]["fields"]}
        bad = []
        n = 0
        dim = 3
        scen = [
            ([[0, 1, 2], [0, 2, 1]], [9.0, 4.0]),
            ([[0, 1, 2], [0, 2, 1], [0, 1, 2]], [9.0, 4.0, 2.0]),
            ([[0, 1, 2], [0, 1, 2], [0, 2, 1]], [1.0, 8.0, 8.0]),
        ]
        for (tours, objs), rho, base in itertools.product(scen, (0.5, 0.1, 0.0, 1.0), (1.0, 0.01, 50.0)):      # (evaporation 0 and 1: nothing / everything evaporates)
            vals = {}
            lo, hi = 0.05, 5.0
            if kind == "as":
                vals = {fields["evaporation"]: rho, fields["decay_coefficient"]: 2.0}
            else:
                vals = {fields["evaporation"]: rho, fields["max_pheromones"]: hi, fields["min_pheromones"]: lo}
            me = Sym("self", vals)
            rows = [[base * (1 + i + j) if i != j else 0.0 for j in range(dim)] for i in range(dim)]
            import statemodel
            table = {"mahf::state::common::Populations::current": Vec("cur", borrowed=True)}
            table.update(matrix_oracles(dim))
            inner_idx = F.field_index(PM, "inner")
            pmsym = Sym("pm", {inner_idx: Vec("flat", borrowed=True)}, boxlike=True)
            store2 = statemodel.Store(F, levels=1, auto=statemodel.by_prefix(F, {PM: ("whole", pmsym), statemodel.POPULATIONS: ("whole", Sym("populations")), statemodel.RANDOM: ("whole", Sym("rng"))}))
            heap = {"row%d" % i: tuple(rows[i]) for i in range(dim)}
            heap["flat"] = ()
            inds = []
            for k, (t, o) in enumerate(zip(tours, objs)):
                heap["t%d" % k] = tuple(t)
                inds.append(Agg("adt", c07.IND, "Individual", [Vec("t%d" % k), some(Agg("adt", SO, "SingleObjective", [o]))]))
            heap["cur"] = tuple(inds)
            # direct iteration over pm.inner (clamping loops) is answered over all rows
            def iter_inner(interp, env, f, args):
                return TOP
            it = install(Interp(fn.body, chain(mk_oracle(table), store2, FlatView(dim), coll_oracle, std_oracle), [me, Sym("problem"), Sym("state")], facts=F,
                                inline=lambda k_: c07.INLINE(k_) or (statemodel.inline(k_) and PM not in k_), max_visits=40, max_paths=50))
            it.init_state = {"heap": heap, "next_vec": 0}
            store2.install(it)
            n += 1
            want = expected_update(kind, rows, tours, objs, rho, 2.0, lo, hi)
            alt = expected_update(kind, rows, tours, objs, rho, 2.0, lo, hi, bound_first=False) if kind == "mmas" else want
            for p in it.run():
                ctxs = (tours, objs, rho, base)
                if p.end != "return" or not (isinstance(p.ret, Agg) and p.ret.variant == "Ok"):
                    bad.append(ctxs + ("does not complete (%s %s)" % (p.end, p.ret),))
                    continue
                got = [list(p.mstate["heap"]["row%d" % i]) for i in range(dim)]
                differs = lambda w_: [(i, j, got[i][j], w_[i][j]) for i in range(dim) for j in range(dim) if not isinstance(got[i][j], float) or abs(got[i][j] - w_[i][j]) > 1e-9 * max(1.0, abs(w_[i][j]))]
                diff = differs(want)
                if diff and differs(alt):
                    i, j, g, w = diff[0]
                    bad.append(ctxs + ("leaves trail (%d,%d) at %s; evaporate-then-deposit%s gives %s" % (i, j, g, " with clamping to [%s, %s]" % (lo, hi) if kind == "mmas" else "", w),))
                # (how often and when the matrix is evaporated is decided by the trails it leaves - compared above; an evaporation
                # written out as a loop over the trails is as good as `*pm *= factor`)
                ops = p.mstate.get("ops", ())
                if ops and (ops[:1] != ("evaporate",) or ops.count("evaporate") != 1):
                    bad.append(ctxs + ("evaporates %d times / not first" % ops.count("evaporate"),))
        ctx.check(not bad, "C19.R2", fn.key, "evaporate-then-deposit" + ("-within-bounds" if kind == "mmas" else ""),
                  "tours %s with lengths %s, evaporation %s, trail scale %s: the update %s" % (bad[0] if bad else ("", "", "", "", "")), detail="%d scenarios" % n, loc=fn.loc())


class FlatView:
    """`pm.inner` iterated as a whole (e.g. `for x in &mut pm.inner`): element references into the row vectors"""

    def __init__(self, dim):
        self.dim = dim

    def __call__(self, interp, env, f, args, t, bb, path):
        a0 = args[0] if args else None
        v = load(interp, env, a0) if a0 is not None else None
        if isinstance(v, Vec) and v.vid == "flat" and f.get("name") in ("into_iter", "iter_mut", "iter"):
            return It([HRef("row%d" % i, j) for i in range(self.dim) for j in range(self.dim)])
        return TOP


def run(ctx):
    ctx.guard("C19.REQ", "requirements are checked", lambda: __import__("initspec").check_requires(ctx, "C19"))
    ctx.guard("C19.INIT", "init installs the configured state", lambda: __import__("initspec").check_for(ctx, "C19"))
    ctx.guard("C19.K17", "constructor fidelity", lambda: __import__("ctor").check_for(ctx, "C19", 7))
    ctx.guard("C19.R1", "generation", lambda: r1_generation(ctx))
    ctx.guard("C19.R2", "pheromone updates", lambda: r2_updates(ctx))
    ctx.guard("C19.R3", "pheromone matrix", lambda: r3_matrix(ctx))


def r3_matrix(ctx):
    """K6 on the matrix type itself (R1/R2 model it by rows): for dimensions 0..3, `new` makes d*d equal trails; `m[i]`
    and `&mut m[i]` are row i = entries i*d .. (i+1)*d of the storage (rows disjoint, together all of it) and abort for
    i >= d; `m *= r` multiplies every entry exactly once; AcoGeneration::init installs new(problem.dimension(),
    default_pheromones)."""
    F = ctx.facts
    di, ii = F.field_index(PM, "dimension"), F.field_index(PM, "inner")
    inl = lambda k: k.startswith(GEN) or k.startswith("<" + GEN)
    n = 0
    bad = []
    home = 10000
    fnew = F.fn(PM + "::new")
    fidx = F.fn("<%s as core::ops::index::Index<usize>>::index" % PM)
    fidm = F.fn("<%s as core::ops::index::IndexMut<usize>>::index_mut" % PM)
    fmul = F.fn("<%s as core::ops::arith::MulAssign<f64>>::mul_assign" % PM)
    for d in range(0, 4):
        it = install(Interp(fnew.body, chain(coll_oracle, std_oracle), [d, 0.25], facts=F, inline=inl, max_visits=20))
        it.init_state = {"heap": {}, "next_vec": 0}
        n += 1
        for p in it.run():
            m = p.ret
            okk = p.end == "return" and isinstance(m, Agg) and m.name == PM and m.fields[di] == d and isinstance(m.fields[ii], Vec) \
                and list(heap_get(it_state(p), m.fields[ii].vid)) == [0.25] * (d * d)
            if not okk:
                bad.append(("new", d, "does not build %d x %d trails of the initial value: %s" % (d, d, p.ret if p.end == "return" else p.end)))
        cells = tuple(float(k + 1) for k in range(d * d))
        for fn, nm in ((fidx, "index"), (fidm, "index_mut")):
            for i in range(0, d + 2):
                it = install(Interp(fn.body, chain(coll_oracle, std_oracle), [Ref(home, [], frame="root"), i], facts=F, inline=inl, max_visits=20))
                mat = Agg("adt", PM, "PheromoneMatrix", [TOP, TOP])
                mat.fields[di] = d
                mat.fields[ii] = Vec("inner")
                it.extra_env = {home: mat}
                it.init_state = {"heap": {"inner": cells}, "next_vec": 0}
                n += 1
                for p in it.run():
                    if i >= d:
                        if p.end == "return":
                            bad.append((nm, d, "row %d of a %d x %d matrix is handed out (%s)" % (i, d, d, p.ret)))
                        continue
                    r = p.ret
                    row = None
                    if p.end == "return" and isinstance(r, Vec) and r.vid == "inner":
                        lo = r.lo if r.lo is not None else 0
                        hi = r.hi if r.lo is not None else len(cells)
                        row = list(cells[lo:hi])
                    elif p.end == "return" and isinstance(r, Agg) and r.kind == "slice" and all(isinstance(x, HRef) and x.vid == "inner" and not x.proj for x in r.fields):
                        row = [cells[x.idx] for x in r.fields]     # a chunk handed out element by element
                    if row != list(cells[i * d:(i + 1) * d]):
                        bad.append((nm, d, "row %d is %s, expected entries %d..%d of the storage" % (i, row if row is not None else (p.ret if p.end == "return" else p.end), i * d, (i + 1) * d)))
        it = install(Interp(fmul.body, chain(coll_oracle, std_oracle), [Ref(home, [], frame="root"), 0.5], facts=F, inline=inl, max_visits=40))
        mat = Agg("adt", PM, "PheromoneMatrix", [TOP, TOP])
        mat.fields[di] = d
        mat.fields[ii] = Vec("inner")
        it.extra_env = {home: mat}
        it.init_state = {"heap": {"inner": cells}, "next_vec": 0}
        n += 1
        for p in it.run():
            got = list(p.mstate["heap"].get("inner", ())) if p.end == "return" else p.end
            if got != [c * 0.5 for c in cells]:
                bad.append(("mul_assign", d, "storage %s becomes %s, expected every entry multiplied once" % (list(cells), got)))
    ctx.check(not bad, "C19.R3", PM, "row-major-square-matrix", "%s on dimension %s: %s" % (bad[0] if bad else ("", "", "")), detail="%d scenarios" % n, loc=fnew.loc())
    ctx.count("matrix_scenarios", n)


def it_state(p):
    class _S:
        pass
    s = _S()
    s.mstate = p.mstate
    return s
