"""K4 — dynamic-borrow typestate: a guard (core::cell::Ref / RefMut obtained from the state registry)
is live from its acquisition to its drop/move; while it is live, acquiring the same state type in a
conflicting mode on the same state panics (panicking accessors), errs (try_ accessors) or silently
drops the write (set_value).  Crate-wide, path-insensitive-may analysis with drop-flag awareness and
call summaries (fixpoint over the call graph with generic substitution)."""
import re
from collections import defaultdict

from core import callee_key, op_place

R = "mahf::state::registry::StateRegistry::"
RETURNED = {  # accessor -> mode of the guard it returns
    "borrow": "shared", "try_borrow": "shared", "borrow_value": "shared", "try_borrow_value": "shared",
    "borrow_mut": "excl", "try_borrow_mut": "excl", "borrow_value_mut": "excl", "try_borrow_value_mut": "excl",
}
TRANSIENT = {"get_value": "shared", "try_get_value": "shared", "set_value": "excl"}
FAILURE = {"borrow": "panic", "borrow_mut": "panic", "borrow_value": "panic", "borrow_value_mut": "panic", "get_value": "panic",
           "try_borrow": "Err", "try_borrow_mut": "Err", "try_borrow_value": "Err", "try_borrow_value_mut": "Err", "try_get_value": "Err",
           "set_value": "silently dropped write"}
# callees that invoke the closure they are given before they return (lazy adapters - Iterator::map / filter / ... - do not)
RUNS_ITS_CLOSURE = {"wrap_err_with", "with_context", "for_each", "try_for_each", "fold", "try_fold", "any", "all", "find", "find_map", "position",
                    "retain", "retain_mut", "sort_by", "sort_by_key", "sort_unstable_by", "sort_unstable_by_key", "sort_by_cached_key", "min_by_key",
                    "max_by_key", "min_by", "max_by", "or_insert_with", "get_or_insert_with", "resize_with", "dedup_by_key", "dedup_by",
                    "call_once", "call_mut", "call", "catch_unwind"}
GUARD_TY = re.compile(r"core::cell::Ref(Mut)?<")


def conflicting(m1, m2):
    return m1 == "excl" or m2 == "excl"


def type_params(fn_generics):
    return [p["name"] for p in (fn_generics or {}).get("params", []) if p["kind"] != "lifetime"]


def subst(ty, mapping):
    if not mapping:
        return ty
    def rep(m):
        return mapping.get(m.group(0), m.group(0))
    return re.sub(r"\b[A-Za-z_][A-Za-z0-9_]*\b", rep, ty)


def resolved(ty):
    """a state type we can compare: no unresolved associated types / opaque parts"""
    return " as " not in ty and "impl " not in ty and "{" not in ty


class Summaries:
    """acquires(f): set of (T, mode, how) acquired (transiently or returned) by f or its closures/callees;
    returns_guard(f): set of (T, mode) carried by f's return value."""

    def __init__(self, facts):
        self.F = facts
        self.acq = {}
        self.ret = {}
        self._build()

    def direct(self, t):
        """acquisition performed by a call terminator to a registry accessor: (T, mode, accessor, returned?)"""
        f = t["f"]
        k = f.get("key", "")
        if not k.startswith(R):
            return None
        nm = k[len(R):]
        ga = f.get("gargs") or []
        if not ga:
            return None
        if nm in RETURNED:
            return ga[0], RETURNED[nm], nm, True
        if nm in TRANSIENT:
            return ga[0], TRANSIENT[nm], nm, False
        return None

    def takes_state(self, fn):
        ins = (fn.sig or {}).get("inputs", []) if fn.sig else []
        if fn.kind == "Closure":
            return True
        return any("mahf::state::State<" in i or "mahf::state::registry::StateRegistry" in i for i in ins)

    def _build(self):
        F = self.F
        fns = list(F.all_fns)
        acq = {f.key: set() for f in fns}
        ret = {f.key: set() for f in fns}
        calls = defaultdict(list)
        for f in fns:
            for bb, t in f.body.calls():
                d = self.direct(t)
                if d:
                    T, mode, nm, returned = d
                    acq[f.key].add((T, mode, FAILURE[nm]))
                    if returned and f.sig and GUARD_TY.search(f.sig["output"]):
                        ret[f.key].add((T, mode))
                else:
                    ck = callee_key(t["f"])
                    if ck in acq and ck != f.key:
                        calls[f.key].append((ck, t["f"].get("resolved", {}).get("gargs") or t["f"].get("gargs") or []))
            # closures defined in f count as part of f
        for f in fns:
            if f.kind == "Closure" and f.parent in acq:
                calls[f.parent].append((f.key, None))
        changed = True
        it = 0
        while changed and it < 20:
            changed = False
            it += 1
            for f in fns:
                for (ck, gargs) in calls[f.key]:
                    cf = F.fn_opt(ck)
                    if cf is None:
                        continue
                    if gargs is None:
                        mapping = {}
                    else:
                        if not self.takes_state(cf):
                            continue
                        names = type_params(cf.generics)
                        mapping = dict(zip(names, gargs)) if len(names) == len(gargs) else None
                        if mapping is None:
                            continue
                    for (T, mode, how) in acq[ck]:
                        T2 = subst(T, mapping)
                        if (T2, mode, how) not in acq[f.key]:
                            acq[f.key].add((T2, mode, how))
                            changed = True
                    if f.sig and GUARD_TY.search(f.sig["output"]) and gargs is not None:
                        for (T, mode) in ret[ck]:
                            T2 = subst(T, mapping)
                            if (T2, mode) not in ret[f.key]:
                                ret[f.key].add((T2, mode))
                                changed = True
        self.acq = acq
        self.ret = ret


def guard_conflicts(F, summaries=None):
    """[(fn, guard(T, mode, line, via), conflict(line, callee_key, T, mode, how))] crate-wide"""
    S = summaries or Summaries(F)
    out = []
    stats = {"bodies": 0, "guards": 0, "acquisitions_checked": 0}
    for fn in F.all_fns:
        if fn.from_expansion:
            continue
        body = fn.body
        # acquisition sites that return a guard into a local
        sites = {}
        for bb, t in body.calls():
            d = S.direct(t)
            g = None
            if d and d[3]:
                g = (d[0], d[1], d[2])
            else:
                ck = callee_key(t["f"])
                cf = F.fn_opt(ck)
                if cf is not None and S.ret.get(ck):
                    names = type_params(cf.generics)
                    gargs = t["f"].get("resolved", {}).get("gargs") or t["f"].get("gargs") or []
                    mapping = dict(zip(names, gargs)) if len(names) == len(gargs) else {}
                    rs = {(subst(T, mapping), m) for (T, m) in S.ret[ck]}
                    if len(rs) == 1:
                        T, m = next(iter(rs))
                        g = (T, m, cf.name)
            if g and t["target"] is not None and not t["dest"][1]:
                sites[bb] = g
        if not sites:
            continue
        closure_of = {}
        for b_ in range(body.n):
            for s_ in body.stmts(b_):
                if s_[0] == "=" and not s_[1][1] and s_[2][0] == "agg" and isinstance(s_[2][1], dict) and s_[2][1].get("k") == "closure":
                    closure_of[s_[1][0]] = s_[2][1].get("closure")
        stats["bodies"] += 1
        stats["guards"] += len(sites)
        nb = sorted(body.normal_blocks())
        # dataflow: block -> dict(local -> frozenset(guard site ids)) at block entry
        IN = {b: {} for b in nb}
        work = [0]
        seen_once = set()

        def transfer(b, st):
            """returns (state after block per successor, list of (site ids live at the call, terminator))"""
            st = {k: set(v) for k, v in st.items()}
            blk = body.blocks[b]
            for s in blk["s"]:
                if s[0] != "=":
                    continue
                pl, rv = s[1], s[2]
                moved = []
                if rv[0] == "use" and rv[1][0] == "move":
                    moved = [rv[1][1]]
                elif rv[0] == "agg":
                    moved = [o[1] for o in rv[2] if o[0] == "move"]
                elif rv[0] == "cast" and rv[2][0] == "move":
                    moved = [rv[2][1]]
                got = set()
                for mp in moved:
                    if mp[0] in st and st[mp[0]]:
                        got |= st[mp[0]]
                        st[mp[0]] = set()
                if not pl[1]:
                    if got:
                        st[pl[0]] = set(got)
                    elif rv[0] != "ref":
                        # overwritten with something else
                        if pl[0] in st and moved == [] and rv[0] in ("use", "agg", "bin", "un", "cast", "discr"):
                            st[pl[0]] = set()
                elif got:
                    st[pl[0]] = st.get(pl[0], set()) | got
            t = blk["t"]
            live_now = set()
            for v in st.values():
                live_now |= v
            res = {}
            k = t["k"]
            if k == "call":
                consumed = set()
                for a in t["args"]:
                    if a[0] == "move" and a[1][0] in st and st[a[1][0]]:
                        consumed |= st[a[1][0]]
                        st[a[1][0]] = set()
                ret_ty = t["f"].get("ret", "")
                dest = t["dest"]
                if b in sites:
                    st[dest[0]] = st.get(dest[0], set()) | {b}
                elif consumed and (GUARD_TY.search(ret_ty) or "core::ops::control_flow::ControlFlow" in ret_ty) and not dest[1]:
                    st[dest[0]] = set(consumed)
                elif not dest[1] and dest[0] in st and not consumed:
                    st[dest[0]] = set()
                if t["target"] is not None:
                    res[t["target"]] = st
            elif k == "drop":
                p = t["place"]
                if p[0] in st and not p[1]:
                    st[p[0]] = set()
                elif p[0] in st and p[1]:
                    st[p[0]] = set()
                res[t["target"]] = st
            elif k == "switch":
                succs = body.succs(b)
                # drop-flag idiom: `switch _flag [0: A, otherwise: D]` with D = `drop(_x) -> A'`
                dp = op_place(t["discr"])
                released = set()
                if dp and not dp[1] and t.get("discr_ty") == "bool":
                    for s_ in succs:
                        tt = body.blocks[s_]["t"]
                        if tt["k"] == "drop" and not body.blocks[s_]["s"]:
                            released.add(tt["place"][0])
                for s_ in succs:
                    st2 = {k2: set(v2) for k2, v2 in st.items()}
                    for x in released:
                        if x in st2:
                            st2[x] = set()
                    res[s_] = st2
            else:
                for s_ in body.succs(b):
                    res[s_] = st
            return res, live_now

        live_at_call = {}
        while work:
            b = work.pop()
            res, live_now = transfer(b, IN[b])
            live_at_call[b] = live_now
            for s_, st in res.items():
                if s_ not in IN:
                    continue
                merged = False
                cur = IN[s_]
                for l, v in st.items():
                    if v - cur.get(l, set()):
                        cur.setdefault(l, set()).update(v)
                        merged = True
                if merged or s_ not in seen_once:
                    seen_once.add(s_)
                    work.append(s_)
        import os as _os
        if _os.environ.get("MAHF_K4_DEBUG") and _os.environ["MAHF_K4_DEBUG"] in fn.key:
            print("K4DEBUG", fn.key, "sites", sites)
            for bb in sorted(live_at_call):
                print("   bb%d live=%s term=%s" % (bb, sorted(live_at_call[bb]), (body.term(bb)["f"].get("key") if body.term(bb)["k"] == "call" else body.term(bb)["k"])))
        # conflicts
        for bb, t in body.calls():
            live = live_at_call.get(bb, set())
            if not live:
                continue
            acqs = []
            d = S.direct(t)
            if d:
                acqs.append((d[0], d[1], FAILURE[d[2]], t["f"]["key"]))
            else:
                ck = callee_key(t["f"])
                cf = F.fn_opt(ck)
                if cf is not None and S.takes_state(cf) and cf.kind != "Closure":
                    names = type_params(cf.generics)
                    gargs = t["f"].get("resolved", {}).get("gargs") or t["f"].get("gargs") or []
                    mapping = dict(zip(names, gargs)) if len(names) == len(gargs) else {}
                    # the callee must actually receive a state
                    if any("mahf::state::State<" in a or "StateRegistry" in a for a in t.get("arg_tys", [])):
                        for (T, mode, how) in S.acq.get(ck, ()):
                            acqs.append((subst(T, mapping), mode, how, ck))
            # a closure handed to a call that runs it before returning (Option / Result combinators, the error-context helpers,
            # consuming iterator methods, the crate's own higher-order functions): what the closure acquires is acquired here
            fd = t["f"]
            runs_now = fd.get("self_adt") in ("core::option::Option", "core::result::Result") or fd.get("name") in RUNS_ITS_CLOSURE \
                or (fd.get("key") or "").startswith("eyre::") or F.fn_opt(callee_key(fd)) is not None
            if runs_now:
                for a in t["args"]:
                    if a[0] not in ("move", "copy") or a[1][1]:
                        continue
                    ck_ = closure_of.get(a[1][0])
                    if ck_ and ck_ in S.acq:
                        for (T, mode, how) in S.acq[ck_]:
                            acqs.append((T, mode, how, "%s (closure run by %s)" % (ck_.rsplit("::", 1)[-1], fd.get("name"))))
            stats["acquisitions_checked"] += len(acqs)
            for (T, mode, how, via) in acqs:
                if not resolved(T):
                    continue
                for gid in live:
                    if gid == bb:
                        continue
                    gT, gmode, gvia = sites[gid]
                    if gT == T and conflicting(gmode, mode):
                        out.append((fn, (gT, gmode, body.term(gid).get("line"), gvia), (t.get("line"), via, T, mode, how)))
    return out, stats, S
