"""C13 — variation operators keep solutions well-formed and conserve parental genes."""
from core import expr_str, strip, subexprs, callee_keys, op_place, AnchorMissing
from kinds import origin, all_places
import k4

EXPLANATION = (
    "Decided statically: (R1) parametricity — the in-place permutation helpers are generic in the element type with "
    "no capability bound (no Clone/Copy/Default) and contain no unsafe, so safe code can only permute; (R2) the "
    "permutation components touch a solution only through permutation primitives (swap, reverse, rotate, shuffle, "
    "the helpers) — no element store; (R3) K4 dynamic-borrow typestate: no variation operator acquires a state guard "
    "while a conflicting guard on the same type is live (a BorrowMutError panic on every execution of that path); "
    "(R4) K14 taint: two elements of one choose_multiple() sample (documented as unordered) never become the bounds "
    "of a Range / slice index without passing an ordering sanitiser (sort, min/max, a dominating comparison); and a "
    "gen_range whose upper bound is such a sample (can be 0) is not an exclusive range starting at 0. NOT decided: "
    "agreement of the twin helpers on all inputs, convexity of arithmetic crossover, data-dependent preconditions.")
ASSUMPTIONS = ["rand::seq::IteratorRandom::choose_multiple returns its sample in unspecified order (as documented)"]
USES_FIXTURES = False

VARIATION_FILES = ("src/components/mutation/", "src/components/recombination/")


def r3_guards(ctx):
    out, stats, S = k4.guard_conflicts(ctx.facts)
    ctx.count("k4_bodies_with_guards", stats["bodies"])
    ctx.count("k4_guards", stats["guards"])
    mine = [(fn, g, c) for (fn, g, c) in out if fn.file.startswith(VARIATION_FILES)]
    n_bodies = len([f for f in ctx.facts.all_fns if f.file.startswith(VARIATION_FILES) and not f.from_expansion])
    ctx.floor("C13.R3", "variation-operator bodies analysed", n_bodies, 60)
    seen = set()
    for fn, g, c in mine:
        key = (fn.key, g[0], c[1])
        if key in seen:
            continue
        seen.add(key)
        ctx.violation("C13.R3", fn.key, "%s while %s" % (c[1].split("::")[-1], g[3]),
                      "%s guard on %s (acquired via %s at line %s) is still live when %s acquires it %s at line %s: %s"
                      % (g[1], g[0], g[3], g[2][0] if g[2] else "?", c[1], c[3], c[0][0] if c[0] else "?", c[4]), loc=fn.loc(c[0]))
    if not mine:
        ctx.ok("C13.R3", "variation operators", "no-guard-conflict", "%d bodies" % n_bodies)


def sample_origin(body, e, through_order=False):
    """if the expression is an element of a choose_multiple() sample: (call bb, element index) else None.
    through_order: min/max of sample elements still count (they can still be the smallest possible value)"""
    idx = None
    cur = e
    for _ in range(40):
        k = cur[0]
        if k == "cindex":
            idx = cur[2] if idx is None else idx
            cur = cur[1]
        elif k == "index":
            idx = ("var", expr_str(cur[2])) if idx is None else idx
            cur = cur[1]
        elif k in ("ref", "rawptr"):
            cur = cur[2]
        elif k in ("deref", "downcast", "field"):
            cur = cur[1]
        elif k == "cast":
            cur = cur[2]
        elif k == "call":
            nm = cur[3]["f"].get("name")
            if nm == "choose_multiple":
                return cur[3]["bb"], idx
            if nm in ("sort", "sort_unstable", "sorted", "min", "max", "minmax", "sort_by", "sort_by_key", "sort_unstable_by", "sort_unstable_by_key", "sorted_unstable") and not (through_order and nm in ("min", "max")):
                return None
            if not cur[2]:
                return None
            cur = cur[2][0]
        else:
            return None
    return None


def r4_unordered_samples(ctx):
    F = ctx.facts
    n_ranges = 0
    n_samples = 0
    for fn in F.all_fns:
        if not fn.file.startswith("src/components/") or fn.from_expansion:
            continue
        body = fn.body
        # sanitising sorts applied in place to the sample (by reference)
        sorted_samples = set()
        for bb, t in body.calls():
            if t["f"].get("name", "").startswith("sort") and t["args"]:
                so = sample_origin(body, body.expr_of_op(t["args"][0]))
                if so:
                    sorted_samples.add((so[0], bb))
        for b in sorted(body.normal_blocks()):
            for st in body.stmts(b):
                if st[0] != "=" or st[2][0] != "agg" or st[2][1].get("adt") not in ("core::ops::range::Range", "core::ops::range::RangeInclusive"):
                    continue
                n_ranges += 1
                lo = body.expr_of_op(st[2][2][0])
                hi = body.expr_of_op(st[2][2][1])
                so_lo, so_hi = sample_origin(body, lo), sample_origin(body, hi)
                if so_lo and so_hi and so_lo[0] == so_hi[0] and so_lo[1] != so_hi[1]:
                    n_samples += 1
                    sanitised = any(s[0] == so_lo[0] and body.dominates(s[1], b) for s in sorted_samples)
                    # a dominating comparison of the two values
                    if not sanitised:
                        for sb in body.dominators().get(b, ()):
                            t = body.term(sb)
                            if t["k"] == "switch":
                                e = body.expr_of_op(t["discr"])
                                if e[0] == "bin" and e[1] in ("Lt", "Le", "Gt", "Ge"):
                                    a, c = sample_origin(body, e[2]), sample_origin(body, e[3])
                                    if a and c and a[0] == so_lo[0] and c[0] == so_lo[0]:
                                        sanitised = True
                    ctx.check(sanitised, "C13.R4", fn.key, "range-from-sample",
                              "two elements of one choose_multiple() sample (unordered) are used as start..end of a range without ordering them: "
                              "start > end panics in slice indexing for about half of the draws", loc=fn.loc(st[3]))
                # exclusive range 0..x with x a raw sample element, used for gen_range: empty when x == 0
                so_hi0 = sample_origin(body, hi, through_order=True)
                if st[2][1].get("adt") == "core::ops::range::Range" and lo[0] == "const" and lo[2] == 0 and so_hi0:
                    uses = [t for bb2, t in body.calls() if t["f"].get("name") == "gen_range" and any(op_place(a) and op_place(a)[0] == st[1][0] for a in t["args"])]
                    if uses:
                        n_samples += 1
                        guarded = False
                        for sb in body.dominators().get(b, ()):
                            t = body.term(sb)
                            if t["k"] == "switch":
                                e = body.expr_of_op(t["discr"])
                                if e[0] == "bin" and e[1] in ("Gt", "Ne", "Lt", "Eq", "Ge", "Le") and (sample_origin(body, e[2]) or sample_origin(body, e[3])):
                                    guarded = True
                        ctx.check(guarded, "C13.R4", fn.key, "gen_range-empty",
                                  "gen_range(0..x) with x an element of a choose_multiple(0..len) sample: x can be 0, and sampling the empty range panics", loc=fn.loc(st[3]))
    ctx.count("range_aggregates_in_components", n_ranges)
    ctx.count("sample_derived_ranges", n_samples)
    ctx.floor("C13.R4", "Range aggregates inspected in component code", n_ranges, 20)


def run(ctx):
    ctx.guard("C13.R3", "guard conflicts", lambda: r3_guards(ctx))
    ctx.guard("C13.R4", "unordered samples", lambda: r4_unordered_samples(ctx))
    ctx.guard("C13.R5", "recombination driver", lambda: r5_recombination_driver(ctx))


# ------------------------------------------------------------------ R5: the recombination driver

def r5_recombination_driver(ctx, rule="C13.R5"):
    """K6 over populations of 0..5 parents and every assignment of {None, Single, Both} to the parent pairs:
    the driver consumes exactly the top population and pushes one new population of unevaluated individuals
    holding, pair by pair, both parents / the single child / both children, plus the unpaired last parent."""
    import itertools
    from absint import Interp, Sym, Agg, TOP, some, NONE, std_oracle, chain
    from collmodel import coll_oracle, Vec, install, heap_get, load
    F = ctx.facts
    fn = F.fn("mahf::components::recombination::recombination")
    IND = "mahf::problems::individual::Individual"
    bad = []
    n = 0
    inl = lambda k: k.startswith("mahf::problems::individual::") or k.startswith("<mahf::problems::individual::") or k.startswith("mahf::population::") or "as mahf::population::" in k
    for size in range(0, 6):
        npairs = size // 2
        for choice in itertools.product(("None", "Single", "Both"), repeat=npairs):
            pop = tuple(Agg("adt", IND, "Individual", [Sym("s%d" % i), some(Sym("o%d" % i))]) for i in range(size))

            def oracle(interp, env, f, args, t, bb, path, choice=choice):
                k = f.get("key", "")
                if k in ("mahf::state::State::populations_mut", "mahf::state::State::populations"):
                    return Sym("populations")
                if k == "mahf::state::State::random_mut":
                    return Sym("rng")
                if k == "mahf::state::common::Populations::pop":
                    interp.mstate["pops"] = interp.mstate.get("pops", 0) + 1
                    return Vec("pop")
                if k == "mahf::state::common::Populations::push":
                    interp.mstate["pushed"] = interp.mstate.get("pushed", ()) + (args[1],)
                    return Agg("tuple", None, None, [])
                if k == "mahf::components::recombination::Recombination::recombine":
                    i = interp.mstate.get("pair", 0)
                    interp.mstate["pair"] = i + 1
                    p1, p2 = load(interp, env, args[1]), load(interp, env, args[2])
                    tag = "%s+%s" % (getattr(p1, "tag", "?"), getattr(p2, "tag", "?"))
                    c = choice[i] if i < len(choice) else "None"
                    OP = "mahf::components::recombination::OptionalPair"
                    if c == "None":
                        return Agg("adt", OP, "None", [])
                    if c == "Single":
                        return Agg("adt", OP, "Single", [Sym("c1(%s)" % tag)])
                    return Agg("adt", OP, "Both", [Agg("array", None, None, [Sym("c1(%s)" % tag), Sym("c2(%s)" % tag)])])
                return TOP
            it = install(Interp(fn.body, chain(oracle, coll_oracle, std_oracle), [Sym("component"), Sym("problem"), Sym("state")], facts=F, inline=inl, max_visits=12))
            it.init_state = {"heap": {"pop": pop}, "next_vec": 0}
            n += 1
            want = []
            for i in range(npairs):
                tag = "s%d+s%d" % (2 * i, 2 * i + 1)
                want += {"None": ["s%d" % (2 * i), "s%d" % (2 * i + 1)], "Single": ["c1(%s)" % tag], "Both": ["c1(%s)" % tag, "c2(%s)" % tag]}[choice[i]]
            if size % 2:
                want.append("s%d" % (size - 1))
            for p in it.run():
                if p.end != "return":
                    bad.append((size, choice, "does not return (%s)" % p.end))
                    continue
                pushed = p.mstate.get("pushed", ())
                if p.mstate.get("pops", 0) != 1 or len(pushed) != 1:
                    bad.append((size, choice, "pops %d and pushes %d populations" % (p.mstate.get("pops", 0), len(pushed))))
                    continue
                v = pushed[0]
                items = heap_get_path(p, v)
                got = []
                stale = False
                for x in items:
                    if isinstance(x, Agg) and x.name == IND:
                        got.append(getattr(x.fields[0], "tag", "?"))
                        if not (isinstance(x.fields[1], Agg) and x.fields[1].variant == "None"):
                            stale = True
                    else:
                        got.append(repr(x))
                if got != want:
                    bad.append((size, choice, "produces %s; expected %s" % (got, want)))
                elif stale:
                    bad.append((size, choice, "produces offspring that still carry an objective value"))
    ctx.check(not bad, rule, fn.key, "pairing-and-child-insertion",
              "%s parents with pair outcomes %s: the driver %s" % (bad[0] if bad else ("", "", "")), detail="%d scenarios (sizes 0..5 x {None,Single,Both}^pairs)" % n, loc=fn.loc())
    ctx.count("recombination_driver_scenarios", n)
    # from_pair: Both keeps both, Single keeps the first
    fp = F.fn("mahf::components::recombination::OptionalPair::from_pair")
    badfp = []
    for both in (True, False):
        it = Interp(fp.body, chain(coll_oracle, std_oracle), [Agg("array", None, None, [Sym("a"), Sym("b")]), both], facts=F)
        for p in it.run():
            r = p.ret
            okk = isinstance(r, Agg) and ((both and r.variant == "Both" and [getattr(x, "tag", None) for x in r.fields[0].fields] == ["a", "b"]) or (not both and r.variant == "Single" and getattr(r.fields[0], "tag", None) == "a"))
            if p.end != "return" or not okk:
                badfp.append((both, repr(r)))
    ctx.check(not badfp, rule, fp.key, "insert-one-or-both", "from_pair(both=%s) yields %s" % (badfp[0] if badfp else ("", "")), loc=fp.loc())
    # every Recombination component executes through the driver
    impls = [f for f in F.all_fns if f.impl_trait == "mahf::components::recombination::Recombination" and f.name == "recombine"]
    ctx.floor(rule, "Recombination implementations", len(impls), 4)
    for f in impls:
        ex = F.fn_opt("<%s as mahf::components::Component>::execute" % f.impl_self_adt)
        r = ex.body.expr_of_local(0) if ex else None
        good = ex is not None and r[0] == "call" and r[1] == "mahf::components::recombination::recombination" and len(list(ex.body.calls())) == 1
        ctx.check(good, rule, f.impl_self_adt, "executes-through-driver", "execute() is not exactly recombination(self, problem, state)", loc=(ex or f).loc())


def heap_get_path(p, v):
    from collmodel import Vec
    if isinstance(v, Vec):
        return p.mstate.get("heap", {}).get(v.vid, ())
    return ()
