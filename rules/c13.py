"""C13 — variation operators keep solutions well-formed and conserve parental genes."""
from core import expr_str, strip, subexprs, callee_keys, op_place, AnchorMissing
from kinds import origin, all_places
import k4

EXPLANATION = (
    "Decided by K6 abstract interpretation of the MIR over one symbolic slice of pairwise distinct opaque elements (the "
    "helpers are generic in the element type, so one symbolic content stands for every content): (R2) for every index "
    "tuple of distinct in-range indices (all orders) circular_swap == circular_swap2 == rotation of the values along "
    "the index cycle; for every (range, index) translocate_slice == translocate_slice2 == remove-the-range-then-insert "
    "(an input is rejected by both twins or by neither); the in-place helpers carry no Clone/Copy/Default bound "
    "(parametricity: safe code can only permute). (R6) multi-point crossover over all cut sets, uniform crossover over "
    "all masks (opaque genes: each position holds the two parental genes, one per child, as the cuts / mask prescribe), "
    "arithmetic crossover on a float grid (convex, conserving), cycle crossover on all pairs of permutations of length "
    "<= 4 (children are permutations, positions conserved, cycles not mixed). (R7) every mutation component over every "
    "sequence of random draws it can request (gates, index samples in every order, target indices; solutions of length "
    "<= 4): permutation mutations return Ok with a permutation of the same elements; rate-gated mutations keep the "
    "dimension, read the rate from the state once, gate every position with it and leave ungated positions untouched "
    "(rate 0: nothing changes). (R5) the recombination driver over 0..5 parents x {None,Single,Both}^pairs. (R9) the "
    "validating constructors accept exactly their documented domain. Plus (R3) crate-wide K4 guard typestate on the "
    "variation code and (R4) K14 taint from unordered samples to range bounds / empty gen_range. (INIT) init() evaluated with every field of self a distinct symbol inserts exactly the state types of a reviewed table, under the component's own instantiation, each built from exactly the documented field or empty / zero. (R10) DEMutation::execute with exact floats: one unevaluated mutant per group of 2y+1 = base + F * (sum of the pair differences), the other members consumed, malformed populations rejected unchanged. NOT decided: lengths "
    "beyond the bound for the data-dependent helpers, unequal-length parents, frequencies of the stochastic choices.")
EXPLANATION += " " + "(R5 revised, R11 new) the recombination driver and the mutation() driver (for user-defined Mutation implementations) on the real stack with a population underneath, stack and generator owned by the current or the enclosing scope; (R8 revised) the DE crossovers on the real stack; the mutation components' rate / strength are cells of the typed store."
ASSUMPTIONS = ["rand::seq::IteratorRandom::choose_multiple returns min(amount, len) distinct members in unspecified order (as documented)",
               "valid index tuples for circular swap are pairwise distinct and in range; valid populations have dimension >= 2 (> num_swap for SwapMutation)",
               "gen_bool(0) is never true, gen_bool(1) always; gen_range yields every member of a non-empty range and panics on an empty one"]
USES_FIXTURES = False

VARIATION_FILES = ("src/components/mutation/", "src/components/recombination/")


def r3_guards(ctx):
    out, stats, S = k4.guard_conflicts(ctx.facts)
    ctx.count("k4_bodies_with_guards", stats["bodies"])
    ctx.count("k4_guards", stats["guards"])
    mine = [(fn, g, c) for (fn, g, c) in out if fn.file.startswith(VARIATION_FILES)]
    n_bodies = len([f for f in ctx.facts.all_fns if f.file.startswith(VARIATION_FILES) and not f.from_expansion])
    ctx.floor("C13.R3", "variation-operator bodies analysed", n_bodies, 45)
    seen = set()
    for fn, g, c in mine:
        key = (fn.key, g[0], c[1])
        if key in seen:
            continue
        seen.add(key)
        ctx.violation("C13.R3", fn.key, "%s while %s" % (c[1].split("::")[-1], g[3]),
                      "%s guard on %s (acquired via %s at line %s) is still live when %s acquires it %s at line %s: %s"
                      % (g[1], g[0], g[3], g[2][0] if g[2] else "?", c[1], c[3], c[0][0] if c[0] else "?", c[4]), loc=fn.loc(c[0]))
    if not mine:
        ctx.ok("C13.R3", "variation operators", "no-guard-conflict", "%d bodies" % n_bodies)


def sample_origin(body, e, through_order=False):
    """if the expression is an element of a choose_multiple() sample: (call bb, element index) else None.
    through_order: min/max of sample elements still count (they can still be the smallest possible value)"""
    idx = None
    cur = e
    for _ in range(40):
        k = cur[0]
        if k == "cindex":
            idx = cur[2] if idx is None else idx
            cur = cur[1]
        elif k == "index":
            idx = ("var", expr_str(cur[2])) if idx is None else idx
            cur = cur[1]
        elif k in ("ref", "rawptr"):
            cur = cur[2]
        elif k in ("deref", "downcast", "field"):
            cur = cur[1]
        elif k == "cast":
            cur = cur[2]
        elif k == "call":
            nm = cur[3]["f"].get("name")
            if nm == "choose_multiple":
                return cur[3]["bb"], idx
            if nm in ("sort", "sort_unstable", "sorted", "min", "max", "minmax", "sort_by", "sort_by_key", "sort_unstable_by", "sort_unstable_by_key", "sorted_unstable") and not (through_order and nm in ("min", "max")):
                return None
            if not cur[2]:
                return None
            cur = cur[2][0]
        else:
            return None
    return None


def r4_unordered_samples(ctx):
    F = ctx.facts
    n_ranges = 0
    n_samples = 0
    for fn in F.all_fns:
        if not fn.file.startswith("src/components/") or fn.from_expansion:
            continue
        body = fn.body
        # sanitising sorts applied in place to the sample (by reference)
        sorted_samples = set()
        for bb, t in body.calls():
            if t["f"].get("name", "").startswith("sort") and t["args"]:
                so = sample_origin(body, body.expr_of_op(t["args"][0]))
                if so:
                    sorted_samples.add((so[0], bb))
        for b in sorted(body.normal_blocks()):
            for st in body.stmts(b):
                if st[0] != "=" or st[2][0] != "agg" or st[2][1].get("adt") not in ("core::ops::range::Range", "core::ops::range::RangeInclusive"):
                    continue
                n_ranges += 1
                lo = body.expr_of_op(st[2][2][0])
                hi = body.expr_of_op(st[2][2][1])
                so_lo, so_hi = sample_origin(body, lo), sample_origin(body, hi)
                if so_lo and so_hi and so_lo[0] == so_hi[0] and so_lo[1] != so_hi[1]:
                    n_samples += 1
                    sanitised = any(s[0] == so_lo[0] and body.dominates(s[1], b) for s in sorted_samples)
                    # a dominating comparison of the two values
                    if not sanitised:
                        for sb in body.dominators().get(b, ()):
                            t = body.term(sb)
                            if t["k"] == "switch":
                                e = body.expr_of_op(t["discr"])
                                if e[0] == "bin" and e[1] in ("Lt", "Le", "Gt", "Ge"):
                                    a, c = sample_origin(body, e[2]), sample_origin(body, e[3])
                                    if a and c and a[0] == so_lo[0] and c[0] == so_lo[0]:
                                        sanitised = True
                                # ... or a `match a.cmp(&b)` on the two values
                                for x in subexprs(e):
                                    if x[0] == "call" and x[3]["f"].get("name") in ("cmp", "partial_cmp", "total_cmp") and len(x[2]) == 2:
                                        a, c = sample_origin(body, x[2][0]), sample_origin(body, x[2][1])
                                        if a and c and a[0] == so_lo[0] and c[0] == so_lo[0]:
                                            sanitised = True
                    ctx.check(sanitised, "C13.R4", fn.key, "range-from-sample",
                              "two elements of one choose_multiple() sample (unordered) are used as start..end of a range without ordering them: "
                              "start > end panics in slice indexing for about half of the draws", loc=fn.loc(st[3]))
                # exclusive range 0..x with x a raw sample element, used for gen_range: empty when x == 0
                so_hi0 = sample_origin(body, hi, through_order=True)
                if st[2][1].get("adt") == "core::ops::range::Range" and lo[0] == "const" and lo[2] == 0 and so_hi0:
                    uses = [t for bb2, t in body.calls() if t["f"].get("name") == "gen_range" and any(op_place(a) and op_place(a)[0] == st[1][0] for a in t["args"])]
                    if uses:
                        n_samples += 1
                        guarded = False
                        for sb in body.dominators().get(b, ()):
                            t = body.term(sb)
                            if t["k"] == "switch":
                                e = body.expr_of_op(t["discr"])
                                if e[0] == "bin" and e[1] in ("Gt", "Ne", "Lt", "Eq", "Ge", "Le") and (sample_origin(body, e[2]) or sample_origin(body, e[3])):
                                    guarded = True
                        ctx.check(guarded, "C13.R4", fn.key, "gen_range-empty",
                                  "gen_range(0..x) with x an element of a choose_multiple(0..len) sample: x can be 0, and sampling the empty range panics", loc=fn.loc(st[3]))
    ctx.count("range_aggregates_in_components", n_ranges)
    ctx.count("sample_derived_ranges", n_samples)
    ctx.floor("C13.R4", "Range aggregates inspected in component code", n_ranges, 10)


def run(ctx):
    ctx.guard("C13.R11", "mutation driver", lambda: r11_mutation_driver(ctx))
    ctx.guard("C13.DRV", "operators execute through their driver", lambda: __import__("initspec").check_delegations(ctx, "C13", 4))
    ctx.guard("C13.INIT", "init installs the configured state", lambda: __import__("initspec").check_for(ctx, "C13"))
    ctx.guard("C13.K17", "constructor fidelity", lambda: __import__("ctor").check_for(ctx, "C13", 57))
    ctx.guard("C13.R2", "permutation helpers", lambda: r2_helpers(ctx))
    ctx.guard("C13.R3", "guard conflicts", lambda: r3_guards(ctx))
    ctx.guard("C13.R4", "unordered samples", lambda: r4_unordered_samples(ctx))
    ctx.guard("C13.R5", "recombination driver", lambda: r5_recombination_driver(ctx))
    ctx.guard("C13.R6", "crossover helpers", lambda: r6_crossover_helpers(ctx))
    ctx.guard("C13.R6", "helper contracts", lambda: r6b_contracts_cover_panics(ctx))
    ctx.guard("C13.R7", "mutation components", lambda: r7_mutation_components(ctx))
    ctx.guard("C13.R8", "recombination operators", lambda: r8_recombination_operators(ctx))
    ctx.guard("C13.R9", "documented parameter domains", lambda: r9_parameter_domains(ctx))
    ctx.guard("C13.R10", "differential-evolution mutation", lambda: r10_de_mutation(ctx))


# ------------------------------------------------------------------ R2: the in-place permutation helpers

MF = "mahf::components::mutation::functional::"
RF = "mahf::components::recombination::functional::"


def panic_kind(p):
    """'contract' when the path ends in an explicit panic with a message (contracts::requires, assert!, panic!), 'incidental'
    for bounds checks, arithmetic overflow, unwrap on None/Err and std calls that panic on this input"""
    if p.end == "panic":
        return "incidental"
    calls = [e for e in p.events if e.kind == "call"]
    if calls and str(calls[-1].data[0]).startswith("core::panicking::"):
        k = str(calls[-1].data[0])
        if "panic_bounds_check" in k or "unwrap_failed" in k or "expect_failed" in k:
            return "incidental"
        return "contract"
    return "incidental"


def run_helper(F, fn, args, heap, prefix):
    """one deterministic evaluation: ('return', final heap, ret) | ('panic', None, None) | ('undecided', why, None)"""
    from absint import Interp, std_oracle, chain
    from collmodel import coll_oracle, install
    it = install(Interp(fn.body, chain(coll_oracle, std_oracle), args, facts=F, inline=lambda k: k.startswith(prefix) or k.startswith("mahf::problems::encoding::"), max_visits=40))
    it.init_state = {"heap": dict(heap), "next_vec": 0}
    paths = it.run()
    ends = {p.end for p in paths}
    if len(paths) != 1:
        if ends <= {"panic", "diverge"}:
            return "panic", None, None
        return "undecided", "%d paths (%s)" % (len(paths), ",".join(sorted(ends))), None
    p0 = paths[0]
    if p0.end in ("panic", "diverge"):
        return "panic", None, None
    if p0.end != "return":
        return "undecided", p0.end, None
    return "return", p0.mstate.get("heap", {}), p0.ret


def r2_helpers(ctx):
    """K6 over one symbolic slice of n pairwise distinct opaque elements (the helpers are generic in the element
    type, so the verdict holds for every content) and every index tuple / range / target index:
    circular_swap == circular_swap2 == the rotation of the values along the index cycle;
    translocate_slice == translocate_slice2 == remove-the-range-then-insert-at-index; an input is rejected
    (panic) by both twins or by neither."""
    import itertools
    from absint import Sym, Agg, TOP
    from collmodel import Vec
    F = ctx.facts
    N = 7 if ctx.tier == "thorough" else 5
    cs1, cs2 = F.fn(MF + "circular_swap"), F.fn(MF + "circular_swap2")
    tl1, tl2 = F.fn(MF + "translocate_slice"), F.fn(MF + "translocate_slice2")
    for fn in (cs1, tl1):
        # parametricity: the in-place versions may not copy elements (no Clone/Copy/Default bound on D)
        preds = " ".join((fn.generics or {}).get("predicates", []))
        ctx.check(not any(b in preds for b in ("Clone", "Copy", "Default")), "C13.R2", fn.key, "element-type-unbounded",
                  "the element type of the in-place helper carries a capability bound (%s): it could duplicate or invent elements" % preds, loc=fn.loc())
    tags = lambda items: [getattr(x, "tag", repr(x)) for x in items]
    # ---- circular swap
    bad = []
    n_in = n_acc = 0
    for n in range(2, N + 1):
        elems = tuple(Sym("e%d" % i) for i in range(n))
        for k in range(2, n + 1):
            for idx in itertools.permutations(range(n), k):
                n_in += 1
                heap = {"perm": elems, "idx": tuple(idx)}
                res = []
                for fn in (cs1, cs2):
                    st, h, _ = run_helper(F, fn, [Vec("perm", True), Vec("idx", True)], heap, MF)
                    res.append((st, tags(h["perm"]) if st == "return" else h))
                want = ["e%d" % i for i in range(n)]
                for j in range(k):
                    want[idx[j]] = "e%d" % idx[(j - 1) % k]
                if any(r[0] == "undecided" for r in res):
                    bad.append((n, list(idx), "could not be evaluated: %s" % (res,)))
                elif res[0] != res[1]:
                    bad.append((n, list(idx), "circular_swap gives %s, circular_swap2 gives %s" % (res[0][1] or res[0][0], res[1][1] or res[1][0])))
                elif res[0][0] == "return":
                    n_acc += 1
                    if res[0][1] != want:
                        bad.append((n, list(idx), "both give %s; the circular swap of these positions is %s" % (res[0][1], want)))
                else:
                    bad.append((n, list(idx), "both reject a tuple of %d distinct in-range indices" % k))
    ctx.check(not bad, "C13.R2", cs1.key, "twins-agree-and-rotate-values",
              "slice of %s elements, indices %s: %s" % (bad[0] if bad else ("", "", "")), detail="%d index tuples (n<=%d), %d accepted" % (n_in, N, n_acc), loc=cs1.loc())
    ctx.count("circular_swap_inputs", n_in)
    ctx.floor("C13.R2", "circular swap index tuples evaluated", n_in, 394)
    # ---- translocation
    bad = []
    n_in = n_acc = 0
    NT = N + 1
    for n in range(1, NT + 1):
        elems = tuple(Sym("e%d" % i) for i in range(n))
        for start in range(0, n + 1):
            for end in range(start, n + 1):
                for index in range(0, n + 1):
                    n_in += 1
                    heap = {"perm": elems}
                    res = []
                    for fn in (tl1, tl2):
                        rng = Agg("adt", "core::ops::range::Range", "Range", [start, end])
                        st, h, _ = run_helper(F, fn, [Vec("perm", True), rng, index], heap, MF)
                        res.append((st, tags(h["perm"]) if st == "return" else h))
                    rest = [e.tag for e in elems[:start] + elems[end:]]
                    chunk = [e.tag for e in elems[start:end]]
                    want = rest[:index] + chunk + rest[index:] if index <= len(rest) else None
                    if any(r[0] == "undecided" for r in res):
                        bad.append((n, "%d..%d" % (start, end), index, "could not be evaluated: %s" % (res,)))
                    elif res[0] != res[1]:
                        bad.append((n, "%d..%d" % (start, end), index, "translocate_slice gives %s, translocate_slice2 gives %s" % (res[0][1] or res[0][0], res[1][1] or res[1][0])))
                    elif res[0][0] == "return":
                        n_acc += 1
                        if res[0][1] != want:
                            bad.append((n, "%d..%d" % (start, end), index, "both give %s; removing the range and inserting it at the index gives %s" % (res[0][1], want)))
    ctx.check(not bad, "C13.R2", tl1.key, "twins-agree-and-move-the-range",
              "slice of %s elements, range %s, index %s: %s" % (bad[0] if bad else ("", "", "", "")), detail="%d (range, index) inputs (n<=%d), %d accepted by both" % (n_in, NT, n_acc), loc=tl1.loc())
    ctx.count("translocate_inputs", n_in)
    ctx.count("translocate_accepted", n_acc)
    ctx.floor("C13.R2", "translocation inputs accepted by both twins", n_acc, 100)


def _children(h, ret):
    from absint import Agg
    from collmodel import Vec
    if isinstance(ret, Agg) and ret.kind == "array" and len(ret.fields) == 2 and all(isinstance(x, Vec) for x in ret.fields):
        return [list(h.get(x.vid, ())) for x in ret.fields]
    return None


def r6b_contracts_cover_panics(ctx):
    """An input that a helper's own contract accepts must not panic later on (index out of bounds, overflow): the contract
    is the helper's documentation of its valid inputs.  Masks / alpha vectors one shorter, equal and one longer than the
    parents; cut points at and beyond the length."""
    import itertools
    from absint import Interp, Sym, std_oracle, chain
    from collmodel import coll_oracle, install, Vec
    F = ctx.facts
    cases = []
    n = 3
    A, B = tuple(Sym("a%d" % i) for i in range(n)), tuple(Sym("b%d" % i) for i in range(n))
    for m in (n - 1, n, n + 1):
        for mask in ((True,) * m, (False,) * m, tuple(i % 2 == 0 for i in range(m))):
            cases.append((RF + "uniform_crossover", "mask of length %d for parents of length %d" % (m, n), [Vec("p1", True), Vec("p2", True), Vec("m", True)], {"p1": A, "p2": B, "m": mask}))
        cases.append((RF + "arithmetic_crossover", "%d alphas for parents of length %d" % (m, n), [Vec("p1", True), Vec("p2", True), Vec("m", True)],
                      {"p1": (1.0, 2.0, 3.0), "p2": (3.0, 2.0, 1.0), "m": (0.25,) * m}))
    for idx in ((0,), (2,), (3,), (1, 3)):
        cases.append((RF + "multi_point_crossover", "cut points %s for parents of length %d" % (list(idx), n), [Vec("p1", True), Vec("p2", True), Vec("m", True)], {"p1": A, "p2": B, "m": idx}))
    by_fn = {}
    for key, label, args, heap in cases:
        fn = F.fn(key)
        it = install(Interp(fn.body, chain(coll_oracle, std_oracle), args, facts=F, inline=lambda k: k.startswith(RF), max_visits=40))
        it.init_state = {"heap": dict(heap), "next_vec": 0}
        for p in it.run():
            if p.end in ("panic", "diverge") and panic_kind(p) == "incidental":
                why = [e.data for e in p.events if e.kind == "panic"][-1:] or ["panic"]
                by_fn.setdefault(key, []).append((label, str(why[0])[:80]))
            elif p.end not in ("return", "panic", "diverge"):
                by_fn.setdefault(key, []).append((label, "could not be evaluated (%s)" % p.end))
    for key in sorted({c[0] for c in cases}):
        fn = F.fn(key)
        bad = by_fn.get(key, [])
        ctx.check(not bad, "C13.R6", key, "contract-covers-later-panics", "%s: accepted by the helper's contract, then panics (%s)" % (bad[0] if bad else ("", "")), detail="%d inputs" % len([c for c in cases if c[0] == key]), loc=fn.loc())


def r6_crossover_helpers(ctx):
    """K6: parents are slices of opaque genes a_i / b_i (multi-point, uniform: generic in the gene type), exact floats
    (arithmetic) or integer permutations (cycle); every cut set / mask / alpha vector of the stated size."""
    import itertools
    from absint import Sym
    from collmodel import Vec
    F = ctx.facts
    N = 5 if ctx.tier == "thorough" else 4
    tg = lambda xs: [getattr(x, "tag", x) for x in xs]
    # ---- multi-point
    fn = F.fn(RF + "multi_point_crossover")
    bad = []
    cnt = 0
    for n in range(2, N + 1):
        A, B = tuple(Sym("a%d" % i) for i in range(n)), tuple(Sym("b%d" % i) for i in range(n))
        for k in range(1, n):
            for idx in itertools.permutations(range(n), k):
                cnt += 1
                st, h, ret = run_helper(F, fn, [Vec("p1", True), Vec("p2", True), Vec("idx", True)], {"p1": A, "p2": B, "idx": tuple(idx)}, RF)
                ch = _children(h, ret) if st == "return" else None
                if ch is None:
                    bad.append((n, list(idx), "does not return two children (%s)" % (h if st == "undecided" else st)))
                    continue
                want1 = [("a%d" if sum(1 for c in idx if c <= i) % 2 == 0 else "b%d") % i for i in range(n)]
                want2 = [("b%d" if w[0] == "a" else "a%d") % i for i, w in enumerate(want1)]
                if [tg(ch[0]), tg(ch[1])] != [want1, want2]:
                    bad.append((n, list(idx), "yields %s / %s; exchanging the tails at every cut point gives %s / %s" % (tg(ch[0]), tg(ch[1]), want1, want2)))
    ctx.check(not bad, "C13.R6", fn.key, "genes-conserved-per-position", "parents of length %s, cut points %s: multi_point_crossover %s" % (bad[0] if bad else ("", "", "")),
              detail="%d cut sets" % cnt, loc=fn.loc())
    ctx.floor("C13.R6", "multi-point cut sets", cnt, 51)
    # ---- uniform
    fn = F.fn(RF + "uniform_crossover")
    bad = []
    cnt = 0
    # parents of equal and of different length (n1, n2), masks of every length the contract allows (<= both): the masked
    # positions are exchanged, every other gene - the tails included - stays with its parent
    shapes = [(n, n, n) for n in range(0, N + 1)] + [(3, 3, 1), (3, 3, 2), (4, 2, 2), (2, 3, 1), (3, 1, 0)]
    for n1, n2, m in shapes:
        A, B = tuple(Sym("a%d" % i) for i in range(n1)), tuple(Sym("b%d" % i) for i in range(n2))
        for mask in itertools.product((False, True), repeat=m):
            cnt += 1
            st, h, ret = run_helper(F, fn, [Vec("p1", True), Vec("p2", True), Vec("mask", True)], {"p1": A, "p2": B, "mask": tuple(mask)}, RF)
            ch = _children(h, ret) if st == "return" else None
            n = (n1, n2) if (n1 != n2 or m != n1) else n1
            if ch is None:
                bad.append((n, list(mask), "does not return two children (%s)" % (h if st == "undecided" else st)))
                continue
            want1 = [("b%d" if (i < m and mask[i]) else "a%d") % i for i in range(n1)]
            want2 = [("a%d" if (i < m and mask[i]) else "b%d") % i for i in range(n2)]
            if [tg(ch[0]), tg(ch[1])] != [want1, want2]:
                bad.append((n, list(mask), "yields %s / %s; expected %s / %s" % (tg(ch[0]), tg(ch[1]), want1, want2)))
    ctx.check(not bad, "C13.R6", fn.key, "genes-conserved-per-position", "parents of length %s, mask %s: uniform_crossover %s" % (bad[0] if bad else ("", "", "")),
              detail="%d masks" % cnt, loc=fn.loc())
    # ---- arithmetic
    fn = F.fn(RF + "arithmetic_crossover")
    bad = []
    cnt = 0
    vals = (-2.0, 0.5, 3.0)
    alphas = (0.0, 0.25, 1.0)
    for n in range(0, 3):
        for p1 in itertools.product(vals, repeat=n):
            for p2 in itertools.product(vals, repeat=n):
                for al in itertools.product(alphas, repeat=n):
                    cnt += 1
                    st, h, ret = run_helper(F, fn, [Vec("p1", True), Vec("p2", True), Vec("al", True)], {"p1": p1, "p2": p2, "al": al}, RF)
                    ch = _children(h, ret) if st == "return" else None
                    if ch is None or any(len(c) != n or not all(isinstance(x, float) for x in c) for c in ch):
                        bad.append((list(p1), list(p2), list(al), "does not return two children of the parents' length (%s)" % (h if st == "undecided" else st)))
                        continue
                    for i in range(n):
                        lo, hi = min(p1[i], p2[i]), max(p1[i], p2[i])
                        c1, c2 = ch[0][i], ch[1][i]
                        if not (lo - 1e-12 <= c1 <= hi + 1e-12 and lo - 1e-12 <= c2 <= hi + 1e-12):
                            bad.append((list(p1), list(p2), list(al), "position %d: children %s / %s are not convex combinations of %s and %s" % (i, c1, c2, p1[i], p2[i])))
                        elif abs((c1 + c2) - (p1[i] + p2[i])) > 1e-12:
                            bad.append((list(p1), list(p2), list(al), "position %d: children %s + %s do not conserve the parental genes %s + %s" % (i, c1, c2, p1[i], p2[i])))
                        elif al[i] in (0.0, 1.0) and {c1, c2} != {p1[i], p2[i]}:
                            bad.append((list(p1), list(p2), list(al), "position %d: with alpha %s the children must be the parental genes" % (i, al[i])))
    ctx.check(not bad, "C13.R6", fn.key, "convex-and-conserving", "parents %s and %s, alphas %s: arithmetic_crossover %s" % (bad[0] if bad else ("", "", "", "")),
              detail="%d configurations" % cnt, loc=fn.loc())
    # ---- cycle
    fn = F.fn(RF + "cycle_crossover")
    bad = []
    cnt = 0
    for n in range(0, N + 1):
        if n > 4 and ctx.tier != "thorough":
            continue
        for p1 in itertools.permutations(range(n)):
            for p2 in itertools.permutations(range(n)):
                cnt += 1
                st, h, ret = run_helper(F, fn, [Vec("p1", True), Vec("p2", True)], {"p1": p1, "p2": p2}, RF)
                ch = _children(h, ret) if st == "return" else None
                if ch is None:
                    bad.append((list(p1), list(p2), "does not return two children (%s)" % (h if st == "undecided" else st)))
                    continue
                c1, c2 = ch
                if sorted(c1) != list(range(n)) or sorted(c2) != list(range(n)):
                    bad.append((list(p1), list(p2), "yields %s / %s, which are not permutations" % (c1, c2)))
                    continue
                if any({c1[i], c2[i]} != {p1[i], p2[i]} for i in range(n)):
                    bad.append((list(p1), list(p2), "yields %s / %s: some position does not hold the two parental genes" % (c1, c2)))
                    continue
                # positions of one cycle come from the same parent
                seen = set()
                for s0 in range(n):
                    if s0 in seen:
                        continue
                    cyc, pos = [], s0
                    while pos not in seen:
                        seen.add(pos)
                        cyc.append(pos)
                        pos = p1.index(p2[pos])
                    src = {("p1" if c1[i] == p1[i] else "p2") for i in cyc if p1[i] != p2[i]}
                    if len(src) > 1:
                        bad.append((list(p1), list(p2), "child %s mixes both parents inside the cycle %s" % (c1, cyc)))
    ctx.check(not bad, "C13.R6", fn.key, "children-are-permutations", "parents %s and %s: cycle_crossover %s" % (bad[0] if bad else ("", "", "")),
              detail="%d parent pairs" % cnt, loc=fn.loc())
    ctx.count("crossover_helper_inputs", cnt)


# ------------------------------------------------------------------ R5: the recombination driver

def r5_recombination_driver(ctx, fn=None, rule="C13.R5"):
    """K6 over populations of 0..5 parents and every assignment of {None, Single, Both} to the parent pairs:
    the driver consumes exactly the top population and pushes one new population of unevaluated individuals
    holding, pair by pair, both parents / the single child / both children, plus the unpaired last parent."""
    import itertools
    from absint import Interp, Sym, Agg, TOP, some, NONE, std_oracle, chain
    from collmodel import coll_oracle, Vec, install, heap_get, load
    F = ctx.facts
    fn = fn or F.fn("mahf::components::recombination::recombination")
    IND = "mahf::problems::individual::Individual"
    bad = []
    n = 0
    import statemodel
    from c04 import StackModel
    POP_ = statemodel.POPULATIONS
    inl = lambda k: k.startswith("mahf::problems::individual::") or k.startswith("<mahf::problems::individual::") or k.startswith("mahf::population::") or "as mahf::population::" in k \
        or k.startswith(POP_ + "::") or statemodel.inline(k)
    for size in range(0, 6):
        npairs = size // 2
        for choice in itertools.product(("None", "Single", "Both"), repeat=npairs):
          for owner in ((0, 1) if size in (0, 3) else (0,)):
            pop = tuple(Agg("adt", IND, "Individual", [Sym("s%d" % i), some(Sym("o%d" % i))]) for i in range(size))
            # the REAL population stack (another population underneath), owned by the current or the enclosing scope
            cells, popsym, sf_ = statemodel.stack_and_rng(F, owner)
            store = statemodel.Store(F, levels=2, auto=statemodel.by_prefix(F, cells))

            def oracle(interp, env, f, args, t, bb, path, choice=choice):
                k = f.get("key", "")
                if k == "mahf::components::recombination::Recombination::recombine":
                    i = interp.mstate.get("pair", 0)
                    interp.mstate["pair"] = i + 1
                    p1, p2 = load(interp, env, args[1]), load(interp, env, args[2])
                    tag = "%s+%s" % (getattr(p1, "tag", "?"), getattr(p2, "tag", "?"))
                    c = choice[i] if i < len(choice) else "None"
                    OP = "mahf::components::recombination::OptionalPair"
                    if c == "None":
                        return Agg("adt", OP, "None", [])
                    if c == "Single":
                        return Agg("adt", OP, "Single", [Sym("c1(%s)" % tag)])
                    return Agg("adt", OP, "Both", [Agg("array", None, None, [Sym("c1(%s)" % tag), Sym("c2(%s)" % tag)])])
                return TOP
            it = install(Interp(fn.body, chain(oracle, store, StackModel(sf_), coll_oracle, std_oracle), [Sym("component"), Sym("problem"), Sym("state")], facts=F, inline=inl, max_visits=12))
            it.init_state = {"heap": {"pop": pop, "below": (Agg("adt", IND, "Individual", [Sym("sb"), some(Sym("ob"))]),)}, "next_vec": 0, "stack": (Vec("below"), Vec("pop"))}
            store.install(it)
            n += 1
            want = []
            for i in range(npairs):
                tag = "s%d+s%d" % (2 * i, 2 * i + 1)
                want += {"None": ["s%d" % (2 * i), "s%d" % (2 * i + 1)], "Single": ["c1(%s)" % tag], "Both": ["c1(%s)" % tag, "c2(%s)" % tag]}[choice[i]]
            if size % 2:
                want.append("s%d" % (size - 1))
            for p in it.run():
                if p.end != "return":
                    bad.append((size, choice, "does not return (%s)" % p.end))
                    continue
                st_ = list(p.mstate.get("stack", ()))
                names_ = [getattr(x, "vid", repr(x)) for x in st_]
                held = {ty.split("<")[0].split("::")[-1]: store.holders(p, ty) for ty in store.types()}
                if any(ls != [owner] for ls in held.values()):
                    bad.append((size, choice, "leaves %s held by scope level(s) %s; the stack and the generator belong to scope level %d and stay there" % (sorted(held), sorted(held.values()), owner)))
                    continue
                if p.mstate.get("unmodelled") or len(st_) != 2 or names_[0] != "below" or [getattr(x.fields[0], "tag", "?") for x in p.mstate["heap"].get("below", ())] != ["sb"]:
                    bad.append((size, choice, "leaves the stack as %s (expected the parents replaced by ONE offspring population on top of the untouched population underneath)" % (p.mstate.get("unmodelled") or names_)))
                    continue
                v = st_[-1]
                items = heap_get_path(p, v)
                got = []
                stale = False
                for x in items:
                    if isinstance(x, Agg) and x.name == IND:
                        got.append(getattr(x.fields[0], "tag", "?"))
                        if not (isinstance(x.fields[1], Agg) and x.fields[1].variant == "None"):
                            stale = True
                    else:
                        got.append(repr(x))
                if got != want:
                    bad.append((size, choice, "produces %s; expected %s" % (got, want)))
                elif stale:
                    bad.append((size, choice, "produces offspring that still carry an objective value"))
    ctx.check(not bad, rule, fn.key, "pairing-and-child-insertion",
              "%s parents with pair outcomes %s: the driver %s" % (bad[0] if bad else ("", "", "")), detail="%d scenarios (sizes 0..5 x {None,Single,Both}^pairs)" % n, loc=fn.loc())
    ctx.count("recombination_driver_scenarios", n)
    # from_pair: Both keeps both, Single keeps the first
    fp = F.fn("mahf::components::recombination::OptionalPair::from_pair")
    badfp = []
    for both in (True, False):
        it = Interp(fp.body, chain(coll_oracle, std_oracle), [Agg("array", None, None, [Sym("a"), Sym("b")]), both], facts=F)
        for p in it.run():
            r = p.ret
            okk = isinstance(r, Agg) and ((both and r.variant == "Both" and [getattr(x, "tag", None) for x in r.fields[0].fields] == ["a", "b"]) or (not both and r.variant == "Single" and getattr(r.fields[0], "tag", None) == "a"))
            if p.end != "return" or not okk:
                badfp.append((both, repr(r)))
    ctx.check(not badfp, rule, fp.key, "insert-one-or-both", "from_pair(both=%s) yields %s" % (badfp[0] if badfp else ("", "")), loc=fp.loc())
    # (that every Recombination component executes through this driver - or through code that behaves like it - is C13.DRV)
    impls = [f for f in F.all_fns if f.impl_trait == "mahf::components::recombination::Recombination" and f.name == "recombine"]
    ctx.floor(rule, "Recombination implementations", len(impls), 4)


def heap_get_path(p, v):
    from collmodel import Vec
    if isinstance(v, Vec):
        return p.mstate.get("heap", {}).get(v.vid, ())
    return ()


# ------------------------------------------------------------------ R7: the mutation components, every draw sequence

class NeedDraw(Exception):
    def __init__(self, domain):
        Exception.__init__(self, "draw")
        self.domain = domain


def explore(run_with_script, limit=4000):
    """depth-first enumeration of every sequence of random draws the code can ask for"""
    stack = [()]
    out = []
    while stack:
        script = stack.pop()
        try:
            res = run_with_script(script)
        except NeedDraw as nd:
            for v in nd.domain:
                stack.append(script + (v,))
            continue
        out.append((script, res))
        if len(out) > limit:
            raise RuntimeError("more than %d draw sequences: some loop over random draws does not terminate within the bound" % limit)
    return out


MC = "mahf::components::mutation::common::"
IND = "mahf::problems::individual::Individual"


def draw_oracle(script, rate, extra=None, self_ty=None, strength=0.5):
    """random draws answered from the script (NeedDraw with the domain when it is exhausted)"""
    import itertools
    from absint import Sym, Agg, TOP, some, ok, err
    from collmodel import load, new_vec
    extra = extra or {}

    def take(interp, domain):
        i = interp.mstate.get("draw_i", 0)
        if i >= len(script):
            raise NeedDraw(domain)
        interp.mstate["draw_i"] = i + 1
        interp.mstate["draws"] = interp.mstate.get("draws", ()) + (script[i],)
        return script[i]

    import statemodel
    from absint import Agg as _Agg
    _PH = _Agg("adt", "core::marker::PhantomData", "PhantomData", [])
    store = statemodel.Store(None, levels=1, auto=lambda ty: {0: _Agg("adt", "mahf::components::mutation::MutationRate", "MutationRate", [rate, _PH])} if ty.startswith("mahf::components::mutation::MutationRate<")
                             else {0: _Agg("adt", "mahf::components::mutation::MutationStrength", "MutationStrength", [strength, _PH])} if ty.startswith("mahf::components::mutation::MutationStrength<") else None,
                             newtypes=())
    store._single_payload = lambda ty: ty.startswith("mahf::components::mutation::Mutation")

    def oracle(interp, env, f, args, t, bb, path):
        k = f.get("key", "")
        if k in extra:
            v = extra[k]
            return v(interp, env, f, args) if callable(v) else v
        if k in ("mahf::state::State::populations_mut", "mahf::state::State::populations"):
            return Sym("populations")
        if k == "mahf::state::State::random_mut":
            return Sym("rng")
        if k in ("mahf::state::common::Populations::current_mut",):
            from collmodel import Vec
            return Vec("cur", True)
        if k.startswith("mahf::state::registry::StateRegistry::") or k.startswith("mahf::state::registry::entry::"):
            # the component's parameter state: cells of the typed store (whichever accessor reads them)
            ga = (f.get("cgargs") or f.get("gargs") or [""])[0] or ""
            if self_ty and ga.startswith("mahf::components::mutation::Mutation") and ga not in ("mahf::components::mutation::MutationRate<%s>" % self_ty, "mahf::components::mutation::MutationStrength<%s>" % self_ty):
                # the parameter state of ANOTHER instantiation (e.g. the default identifier): this instance never inserted it
                interp.mstate["foreign_state"] = interp.mstate.get("foreign_state", ()) + (ga,)
                return "DIVERGE"
            return store(interp, env, f, args, t, bb, path)
        if k == "rand::rng::Rng::gen_bool":
            p_ = load(interp, env, args[1])
            if not isinstance(p_, float):
                return TOP
            if not (0.0 <= p_ <= 1.0):
                return "DIVERGE"
            interp.mstate["gates"] = interp.mstate.get("gates", ()) + (p_,)
            return take(interp, [False] if p_ == 0.0 else [True] if p_ == 1.0 else [False, True])
        if k == "rand::rng::Rng::gen_range":
            r = load(interp, env, args[1])
            if isinstance(r, Agg) and (r.name or "").startswith("core::ops::range::Range") and all(isinstance(x, int) and not isinstance(x, bool) for x in r.fields[:2]):
                lo, hi = r.fields[0], r.fields[1] + (1 if r.name.endswith("Inclusive") else 0)
                if lo >= hi:
                    return "DIVERGE"     # rand panics on an empty range
                return take(interp, list(range(lo, hi)))
            return Sym("draw")
        if k == "rand::seq::IteratorRandom::choose_multiple":
            r = load(interp, env, args[0])
            amount = load(interp, env, args[2])
            if isinstance(r, Agg) and r.name == "core::ops::range::Range" and isinstance(amount, int) and all(isinstance(x, int) for x in r.fields[:2]):
                vals = list(range(r.fields[0], r.fields[1]))
                kk = min(amount, len(vals))
                return new_vec(interp, take(interp, list(itertools.permutations(vals, kk))))
            return TOP
        if k == "rand::rng::Rng::gen" and (f.get("gargs") or ["", ""])[-1] == "f64":
            return take(interp, [0.25, 0.75])
        if k == "rand::rng::Rng::sample_iter":
            distr = (f.get("gargs") or ["", "", ""])[-1]
            dom = [False, True] if "Bernoulli" in distr else [0.0, 0.25, 1.0]
            return Agg("repeat", None, None, [take(interp, dom)])
        if k == "rand::distributions::bernoulli::Bernoulli::new":
            return ok(Sym("bernoulli"))
        if k == "rand_distr::normal::Normal::new":
            sd = load(interp, env, args[1]) if len(args) > 1 else None
            if isinstance(sd, float) and not (sd >= 0.0):
                return err(Sym("normal::Error::BadVariance"))
            return ok(Sym("normal"))
        if k in ("rand::distributions::uniform::Uniform::new", "rand::distributions::uniform::Uniform::new_inclusive"):
            lo_, hi_ = (load(interp, env, a) for a in args[:2]) if len(args) >= 2 else (None, None)
            if isinstance(lo_, float) and isinstance(hi_, float) and not (lo_ < hi_ if k.endswith("::new") else lo_ <= hi_):
                return "DIVERGE"     # rand: `Uniform::new called with low >= high`
            return Sym("uniform")
        if k == "core::convert::From::from" and (f.get("cgargs") or f.get("gargs") or [""])[0].startswith("rand::distributions::uniform::Uniform<f64>") and args:
            r_ = load(interp, env, args[0])
            if isinstance(r_, Agg) and (r_.name or "").startswith("core::ops::range::Range") and list(r_.fields[:2]) == [0.0, 1.0]:
                return Sym("uniform01")      # `Uniform::from(0.0..=1.0)` / `(0.0..1.0)`: the unit interval
        if k == "rand::distributions::distribution::Distribution::sample":
            if getattr(load(interp, env, args[0]), "tag", "") == "uniform01":
                return take(interp, [0.0, 0.25, 1.0])      # `distr.sample(rng)`: one draw of what `rng.sample_iter(distr)` yields
            if getattr(load(interp, env, args[0]), "tag", "") == "bernoulli":
                return take(interp, [False, True])
            return Sym("noise")
        if k == "rand::rng::Rng::sample" and len(args) == 2:
            # `rng.sample(distr)`: one draw of what `sample_iter(distr)` yields
            d_ = load(interp, env, args[1])
            tag_ = getattr(d_, "tag", "")
            if tag_ == "bernoulli":
                return take(interp, [False, True])
            if tag_ in ("uniform", "uniform01"):
                return take(interp, [0.0, 0.25, 1.0])
            if tag_ == "normal":
                return Sym("noise")
        if k == "rand::seq::SliceRandom::choose":
            return some(1.0)
        return TOP
    return oracle


def run_component(F, fn, me, sols, rate, extra=None, heap_extra=None, strength=0.5):
    self_ty = fn.impl_self_ty
    """[(draw script, end, ret, final solutions, mstate)] over every draw sequence"""
    from absint import Interp, Sym, Agg, some, std_oracle, chain
    from collmodel import coll_oracle, install, Vec
    inl = lambda k: (k.startswith("mahf::problems::individual::") or k.startswith("<mahf::problems::individual::") or k.startswith("mahf::population::") or "as mahf::population::" in k
                     or k.startswith("mahf::components::mutation::") or k.startswith("<mahf::components::mutation::"))

    def once(script):
        it = install(Interp(fn.body, chain(draw_oracle(script, rate, extra, self_ty, strength), coll_oracle, std_oracle), [me, Sym("problem"), Sym("state")], facts=F, inline=inl, max_visits=60))
        heap = {"cur": tuple(Agg("adt", IND, "Individual", [Vec("s%d" % i), some(Sym("o%d" % i))]) for i in range(len(sols)))}
        for i, sv in enumerate(sols):
            heap["s%d" % i] = tuple(sv)
        heap.update(heap_extra or {})
        it.init_state = {"heap": heap, "next_vec": 0}
        return it.run()
    out = []
    for script, paths in explore(once):
        for p in paths:
            final = [list(p.mstate.get("heap", {}).get("s%d" % i, ())) for i in range(len(sols))]
            out.append((script, p.end, p.ret, final, p.mstate))
    return out


def r7_mutation_components(ctx):
    """K6 over populations of 1-2 solutions of length 2..4 (opaque elements; concrete bits for the bit mutations) and
    EVERY sequence of random draws the component can ask for (gate outcomes, index samples in every order, target
    indices): permutation mutations return Ok with a permutation of the same elements; rate-gated mutations keep the
    dimension, take the rate from the state (not the constructor field), and leave unchanged every position whose gate
    did not fire — with rate 0 nothing changes."""
    from absint import Sym, Agg, TOP
    from collmodel import Vec
    F = ctx.facts
    COMP = "mahf::components::Component"
    tg = lambda xs: [getattr(x, "tag", x) for x in xs]
    total = 0
    # ---- permutation mutations
    perm = [("SwapMutation", {"num_swap": (2, 3)}, 3), ("InversionMutation", {}, 2), ("InsertionMutation", {}, 2), ("TranslocationMutation", {}, 2), ("ScrambleMutation", {"rm": (1.0,)}, 2)]
    NMAX = 5 if ctx.tier == "thorough" else 4
    for name, params, nmin in perm:
        adt = MC + name
        fn = F.method(adt, "execute", COMP)
        bad = []
        cnt = 0
        pname = next(iter(params), None)
        for pv in (params[pname] if pname else (None,)):
            for n in range(max(nmin, pv if name == "SwapMutation" else 0), NMAX + 1):
                fields = {}
                if pname:
                    fields[F.field_index(adt, pname)] = pv
                me = Sym("self", fields)
                sol = [Sym("e%d" % i) for i in range(n)]
                for (script, end, ret, final, ms) in run_component(F, fn, me, [sol], 1.0 if name == "ScrambleMutation" else 0.3):
                    cnt += 1
                    where = (n, "%s=%s, " % (pname, pv) if pname else "", list(script))
                    if end != "return":
                        bad.append(where + ("panics" if end in ("panic", "diverge") else "could not be evaluated (%s)" % end,))
                    elif not (isinstance(ret, Agg) and ret.variant == "Ok"):
                        bad.append(where + ("returns %s" % (ret,),))
                    elif sorted(tg(final[0]), key=str) != sorted(tg(sol), key=str):
                        bad.append(where + ("turns %s into %s, which is not a permutation of it" % (tg(sol), tg(final[0])),))
                    elif name == "ScrambleMutation" and "s0" not in ms.get("shuffled", ()):
                        bad.append(where + ("does not shuffle the solution although the gate fired",))
        total += cnt
        ctx.check(not bad, "C13.R7", fn.key, "valid-population-gives-permutation",
                  "solution of length %s, %sdraws %s: %s" % (bad[0] if bad else ("", "", "", "")), detail="%d draw sequences" % cnt, loc=fn.loc())
        ctx.floor("C13.R7", "%s draw sequences" % name, cnt, 3)
    # ---- documented errors are errors, never panics
    adt = MC + "SwapMutation"
    fn = F.method(adt, "execute", COMP)
    bad = []
    for pv, n in ((3, 2), (4, 3), (2, 1)):
        me = Sym("self", {F.field_index(adt, "num_swap"): pv})
        for (script, end, ret, final, ms) in run_component(F, fn, me, [[Sym("e%d" % i) for i in range(n)]], 0.3):
            if end != "return" or not (isinstance(ret, Agg) and ret.variant == "Err"):
                bad.append((pv, n, "ends with %s %s" % (end, ret)))
    ctx.check(not bad, "C13.R7", fn.key, "too-many-swaps-is-an-error", "num_swap %s on a solution of length %s (documented: `Err` if num_swap is greater than the solution length): %s" % (bad[0] if bad else ("", "", "")), loc=fn.loc())
    for name in ("UniformMutation", "NormalMutation"):
        adt = MC + name
        fn = F.method(adt, "execute", COMP)
        bad = []
        for strength in (0.0, -1.0, float("nan")):
            fields = {F.field_index(adt, "rm"): 1.0}
            for fname in ("std_dev", "bound"):
                try:
                    fields[F.field_index(adt, fname)] = 0.5
                except Exception:
                    pass
            for (script, end, ret, final, ms) in run_component(F, fn, Sym("self", fields), [[Sym("e0"), Sym("e1")]], 1.0, strength=strength):
                if end in ("panic", "diverge"):
                    bad.append((strength, "panics"))
                elif end != "return":
                    bad.append((strength, "could not be evaluated (%s)" % end))
        ctx.check(not bad, "C13.R7", fn.key, "invalid-strength-is-an-error", "stored MutationStrength %s (documented: `Err` if the MutationStrength contains an invalid value): the component %s" % (bad[0] if bad else ("", "")), loc=fn.loc())
    # ---- rate-gated mutations
    gated = [("NormalMutation", "real"), ("UniformMutation", "real"), ("PartialRandomSpread", "real"), ("BitFlipMutation", "bit"), ("PartialRandomBitstring", "bit"), ("ScrambleMutation", "perm")]
    for name, kind in gated:
        adt = MC + name
        fn = F.method(adt, "execute", COMP)
        bad = []
        cnt = 0
        rm_i = F.field_index(adt, "rm")
        for rate, field_rm in ((0.0, 1.0), (0.3, 1.0), (1.0, 0.0)):
            for n in range(1, 4):
                fields = {rm_i: field_rm}
                for fname, val in (("std_dev", 0.5), ("bound", 0.5), ("p", 0.5)):
                    try:
                        fields[F.field_index(adt, fname)] = val
                    except Exception:
                        pass
                me = Sym("self", fields)
                sol = [bool(i % 2) for i in range(n)] if kind == "bit" else [Sym("e%d" % i) for i in range(n)]
                extra = {"mahf::problems::LimitedVectorProblem::domain": lambda interp, env, f, args, n=n: __import__("collmodel").new_vec(interp, [Agg("adt", "core::ops::range::Range", "Range", [-1.0, 1.0]) for _ in range(n)])}
                for (script, end, ret, final, ms) in run_component(F, fn, me, [sol], rate, extra):
                    cnt += 1
                    where = (n, rate, field_rm, list(script))
                    gates = ms.get("gates", ())
                    if ms.get("foreign_state"):
                        bad.append(where + ("reads %s, the parameter state of a different instantiation than the one its own init inserts" % (ms["foreign_state"][0],),))
                        continue
                    if end != "return" or not (isinstance(ret, Agg) and ret.variant == "Ok"):
                        bad.append(where + ("ends with %s %s" % (end, ret),))
                        continue
                    if len(final[0]) != n:
                        bad.append(where + ("changes the dimension to %d" % len(final[0]),))
                        continue
                    gate_ps = list(gates)
                    if name == "PartialRandomBitstring":
                        # draws alternate: gate, then (when it fired) the new bit drawn with probability p
                        gate_ps, ds, j = [], list(ms.get("draws", ())), 0
                        while j < len(ds) and j < len(gates):
                            gate_ps.append(gates[j])
                            j += 2 if ds[j] else 1
                    if any(g != rate for g in gate_ps):
                        bad.append(where + ("gates with probability %s, not with the stored rate %s" % (list(gates), rate),))
                        continue
                    if kind == "perm":
                        fired = [d for d in ms.get("draws", ()) if isinstance(d, bool)]
                        if len(fired) != 1 or (fired[0] != ("s0" in ms.get("shuffled", ()))):
                            bad.append(where + ("gate outcome %s but shuffled: %s" % (fired, "s0" in ms.get("shuffled", ())),))
                        continue
                    fired = [d for d in ms.get("draws", ()) if isinstance(d, bool)][:n] if name != "PartialRandomBitstring" else None
                    if name == "PartialRandomBitstring":
                        # draws alternate gate / (value when the gate fired)
                        fired, ds, j = [], list(ms.get("draws", ())), 0
                        while j < len(ds) and len(fired) < n:
                            fired.append(ds[j])
                            j += 2 if ds[j] else 1
                    if len(fired) != n:
                        bad.append(where + ("draws %d gates for %d positions" % (len(fired), n),))
                        continue
                    for i in range(n):
                        same = (final[0][i] is sol[i]) or (not isinstance(sol[i], Sym) and final[0][i] is not TOP and final[0][i] == sol[i] and type(final[0][i]) == type(sol[i]))
                        if not fired[i] and not same:
                            bad.append(where + ("position %d changes from %s to %s although its gate did not fire" % (i, sol[i], final[0][i]),))
                        if fired[i] and name == "BitFlipMutation" and final[0][i] != (not sol[i]):
                            bad.append(where + ("position %d is not flipped although its gate fired" % i,))
        total += cnt
        ctx.check(not bad, "C13.R7", fn.key, "rate-gates-every-position",
                  "dimension %s, stored rate %s (constructor field %s), draws %s: %s" % (bad[0] if bad else ("", "", "", "", "")), detail="%d draw sequences" % cnt, loc=fn.loc())
        ctx.floor("C13.R7", "%s gate sequences" % name, cnt, 5)
    ctx.count("mutation_component_draw_sequences", total)


# ------------------------------------------------------------------ R9: documented parameter domains

def r9_parameter_domains(ctx):
    """The validating constructors accept exactly what their documentation allows (table below, read from the
    doc comments): K6 evaluation of the constructor on values on both sides of every documented bound."""
    from absint import Interp, Sym, Agg, TOP, std_oracle, chain
    from collmodel import coll_oracle, install
    F = ctx.facts
    nan = float("nan")
    table = [
        # (constructor, argument tuples, documented predicate, doc quote)
        ("mahf::components::mutation::common::SwapMutation::from_params", [(k,) for k in range(0, 6)], lambda k: k >= 2,
         "`Err` if `num_swap` is less than two"),
        ("mahf::components::mutation::de::DEMutation::from_params", [(y, f) for y in range(0, 4) for f in (1e-9, 0.5, 2.0)], lambda y, f: y in (1, 2),
         "y in {1, 2}, f in (0, 2]"),
        ("mahf::components::mutation::de::DEMutation::from_params", [(1, f) for f in (-0.5, 2.5, nan)], lambda y, f: False,
         "f in (0, 2]"),
    ]
    n = 0
    for key, inputs, allowed, doc in table:
        fn = F.fn(key)
        bad = []
        for args in inputs:
            n += 1
            it = install(Interp(fn.body, chain(coll_oracle, std_oracle), list(args), facts=F, inline=lambda k: False, max_visits=6))
            it.init_state = {"next_vec": 0}
            paths = it.run()
            outs = {(p.end, p.ret.variant if isinstance(p.ret, Agg) else None) for p in paths}
            want = ("return", "Ok" if allowed(*args) else "Err")
            if outs != {want}:
                bad.append((args, "Ok" if allowed(*args) else "Err", sorted(map(str, outs))))
        ctx.check(not bad, "C13.R9", key, "accepts-documented-domain:" + doc,
                  "arguments %s: documented outcome %s, the constructor gives %s" % (bad[0] if bad else ("", "", "")), detail="%d argument tuples; documentation: %s" % (len(inputs), doc), loc=fn.loc())
    # the stored mutation rate: [0, 1] accepted and returned unchanged, everything else an error
    fn = F.fn("mahf::components::mutation::MutationRate::value")
    bad = []
    for r in (0.0, 0.3, 1.0, -0.1, 1.5, nan):
        n += 1
        me = Agg("adt", "mahf::components::mutation::MutationRate", "MutationRate", [r, Sym("phantom")])
        it = install(Interp(fn.body, chain(coll_oracle, std_oracle), [me], facts=F, inline=lambda k: False, max_visits=6))
        paths = it.run()
        outs = [(p.end, p.ret.variant if isinstance(p.ret, Agg) else None, p.ret.fields[0] if isinstance(p.ret, Agg) and p.ret.fields else None) for p in paths]
        good = 0.0 <= r <= 1.0
        if len(outs) != 1 or outs[0][:2] != ("return", "Ok" if good else "Err") or (good and outs[0][2] != r):
            bad.append((r, outs))
    ctx.check(not bad, "C13.R9", fn.key, "rate-in-unit-interval", "stored rate %s: value() gives %s" % (bad[0] if bad else ("", "")), loc=fn.loc())
    ctx.count("constructor_argument_tuples", n)


# ------------------------------------------------------------------ R8: crossover probability, insert-one/both, DE crossovers

RC = "mahf::components::recombination::common::"
REC = "mahf::components::recombination::Recombination"


def r8_recombination_operators(ctx):
    """K6 over every draw sequence: recombine() yields no offspring exactly when the probability draw exceeds pc
    (pc 0 / 0.5 / 1 against draws 0.25 / 0.75), otherwise Single(first child) or Both per insert_both, children of
    the parents' length holding the two parental genes of each position.  DE crossovers: one pop, one push of the
    mutated population, base population untouched, every position holds the mutant's or the base's gene, at least
    one comes from the base; pc = 1 copies the base, pc = 0 exactly one position."""
    import itertools
    from absint import Interp, Sym, Agg, TOP, some, NONE, std_oracle, chain
    from collmodel import coll_oracle, install, Vec
    F = ctx.facts
    tg = lambda xs: [getattr(x, "tag", x) for x in xs]
    total = 0
    ops = [("NPointCrossover", {"n": (1, 2)}, "sym"), ("UniformCrossover", {}, "sym"), ("ArithmeticCrossover", {}, "float"), ("CycleCrossover", {}, "perm")]
    for name, params, kind in ops:
        adt = RC + name
        fn = F.method(adt, "recombine", REC)
        bad = []
        cnt = 0
        pname = next(iter(params), None)
        for pv in (params[pname] if pname else (None,)):
            for pc in (0.0, 0.5, 1.0):
                for both in (False, True):
                    fields = {F.field_index(adt, "pc"): pc, F.field_index(adt, "insert_both"): both}
                    if pname:
                        fields[F.field_index(adt, pname)] = pv
                    me = Sym("self", fields)
                    n = 3
                    if kind == "sym":
                        A, B = [Sym("a%d" % i) for i in range(n)], [Sym("b%d" % i) for i in range(n)]
                    elif kind == "float":
                        A, B = [-2.0, 0.5, 3.0], [1.0, 0.5, -4.0]
                    else:
                        A, B = [0, 1, 2], [1, 2, 0]
                    inl = lambda k: k.startswith("mahf::components::recombination::") or k.startswith("<mahf::components::recombination::") or k.startswith("mahf::problems::encoding::")

                    def once(script):
                        it = install(Interp(fn.body, chain(draw_oracle(script, 0.0), coll_oracle, std_oracle), [me, Vec("p1", True), Vec("p2", True), Sym("rng")], facts=F, inline=inl, max_visits=40))
                        it.init_state = {"heap": {"p1": tuple(A), "p2": tuple(B)}, "next_vec": 0}
                        return it.run()
                    for script, paths in explore(once):
                        for p in paths:
                            cnt += 1
                            where = ("%s=%s, " % (pname, pv) if pname else "", pc, both, list(script))
                            u = next((d for d in p.mstate.get("draws", ()) if isinstance(d, float)), None)
                            r = p.ret
                            if p.end != "return" or not isinstance(r, Agg) or not (r.name or "").endswith("OptionalPair"):
                                bad.append(where + ("ends with %s %s" % (p.end, r),))
                                continue
                            if u is None:
                                bad.append(where + ("never draws the crossover probability",))
                                continue
                            want = "None" if u > pc else ("Both" if both else "Single")
                            if r.variant != want:
                                bad.append(where + ("yields OptionalPair::%s, expected %s (draw %s against pc %s)" % (r.variant, want, u, pc),))
                                continue
                            if want == "None":
                                continue
                            h = p.mstate.get("heap", {})
                            kids = r.fields[0].fields if want == "Both" else [r.fields[0]]
                            kids = [list(h.get(x.vid, ())) if isinstance(x, Vec) else None for x in kids]
                            if any(kk is None or len(kk) != n for kk in kids):
                                bad.append(where + ("children %s do not have the parents' length" % (kids,),))
                                continue
                            for i in range(n):
                                if kind == "float":
                                    lo, hi = min(A[i], B[i]), max(A[i], B[i])
                                    okk = all(isinstance(kk[i], float) and lo - 1e-12 <= kk[i] <= hi + 1e-12 for kk in kids) and (len(kids) == 1 or abs(kids[0][i] + kids[1][i] - A[i] - B[i]) < 1e-12)
                                else:
                                    pair = {getattr(A[i], "tag", A[i]), getattr(B[i], "tag", B[i])}
                                    got = [getattr(kk[i], "tag", kk[i]) for kk in kids]
                                    okk = all(g in pair for g in got) and (len(kids) == 1 or set(got) == pair)
                                if not okk:
                                    bad.append(where + ("position %d of the children %s does not conserve the parental genes %s / %s" % (i, [tg(kk) for kk in kids], tg(A), tg(B)),))
                                    break
        total += cnt
        ctx.check(not bad, "C13.R8", fn.key, "probability-and-insert-settings", "%spc %s, insert_both %s, draws %s: recombine %s" % (bad[0] if bad else ("", "", "", "", "")),
                  detail="%d draw sequences" % cnt, loc=fn.loc())
        ctx.floor("C13.R8", "%s draw sequences" % name, cnt, 12)
    # ---- DE crossovers
    for name in ("DEBinomialCrossover", "DEExponentialCrossover"):
        adt = "mahf::components::recombination::de::" + name
        fn = F.method(adt, "execute", "mahf::components::Component")
        bad = []
        cnt = 0
        for pc in (0.0, 0.5, 1.0):
            for d in range(1, 4):
                for size in (1, 2):
                    if d == 3 and size == 2 and ctx.tier != "thorough":
                        continue
                    me = Sym("self", {F.field_index(adt, "pc"): pc})
                    M = [[Sym("m%d_%d" % (j, i)) for i in range(d)] for j in range(size)]
                    B = [[Sym("b%d_%d" % (j, i)) for i in range(d)] for j in range(size)]

                    # the REAL population stack (another population underneath the base and the mutants)
                    from c04 import StackModel
                    import statemodel
                    POP_ = "mahf::state::common::Populations"
                    sf_ = F.field_index(POP_, "stack")
                    popsym_ = Sym("populations", {sf_: Sym("stack")})
                    extra = {"mahf::state::State::populations_mut": popsym_, "mahf::state::State::populations": popsym_, "mahf::problems::VectorProblem::dimension": d}
                    inl = lambda k: k.startswith("mahf::problems::individual::") or k.startswith("<mahf::problems::individual::") or k.startswith("mahf::population::") or "as mahf::population::" in k or k.startswith(POP_ + "::")

                    def once(script):
                        it = install(Interp(fn.body, chain(draw_oracle(script, 0.0, extra), statemodel.well_known(popsym_, Sym("rng")), StackModel(sf_), coll_oracle, std_oracle), [me, Sym("problem"), Sym("state")], facts=F, inline=inl, max_visits=80))
                        heap = {"mut": tuple(Agg("adt", IND, "Individual", [Vec("m%d" % j), NONE]) for j in range(size)),
                                "base": tuple(Agg("adt", IND, "Individual", [Vec("b%d" % j), some(Sym("o%d" % j))]) for j in range(size)),
                                "below": (Agg("adt", IND, "Individual", [Vec("x0"), some(Sym("ox"))]),), "x0": tuple(Sym("x0_%d" % i) for i in range(d))}
                        for j in range(size):
                            heap["m%d" % j] = tuple(M[j])
                            heap["b%d" % j] = tuple(B[j])
                        it.init_state = {"heap": heap, "next_vec": 0, "stack": (Vec("below"), Vec("base"), Vec("mut"))}
                        return it.run()
                    for script, paths in explore(once):
                        for p in paths:
                            cnt += 1
                            where = (pc, d, size, list(script))
                            h = p.mstate.get("heap", {})
                            if p.end != "return" or not (isinstance(p.ret, Agg) and p.ret.variant == "Ok"):
                                bad.append(where + ("ends with %s %s" % (p.end, p.ret),))
                                continue
                            names_ = [getattr(x, "vid", repr(x)) for x in p.mstate.get("stack", ())]
                            if p.mstate.get("unmodelled") or names_ != ["below", "base", "mut"]:
                                bad.append(where + ("leaves the stack as %s instead of putting the (crossed) mutants back on top of the base population ['below', 'base', 'mut']" % (p.mstate.get("unmodelled") or names_),))
                                continue
                            if tg(h.get("x0", ())) != ["x0_%d" % i for i in range(d)]:
                                bad.append(where + ("modifies the population underneath the base",))
                                continue
                            if any(tg(h.get("b%d" % j, ())) != tg(B[j]) for j in range(size)) or len(h.get("base", ())) != size or len(h.get("mut", ())) != size:
                                bad.append(where + ("modifies the base population",))
                                continue
                            for j in range(size):
                                got = tg(h.get("m%d" % j, ()))
                                from_base = [i for i in range(len(got)) if i < d and got[i] == B[j][i].tag]
                                if len(got) != d or any(got[i] not in (M[j][i].tag, B[j][i].tag) for i in range(d)):
                                    bad.append(where + ("trial vector %s is not a position-wise mix of %s and %s" % (got, tg(M[j]), tg(B[j])),))
                                elif not from_base:
                                    bad.append(where + ("trial vector %s takes no position from the base" % got,))
                                elif pc == 1.0 and len(from_base) != d:
                                    bad.append(where + ("pc = 1 but trial vector %s keeps mutant genes" % got,))
                                elif pc == 0.0 and len(from_base) != 1:
                                    bad.append(where + ("pc = 0 but trial vector %s takes %d positions from the base" % (got, len(from_base)),))
        # documented: `Err` if there are fewer than two populations on the stack - an error, not a panic, and the same for both twins
        short = []
        for height in (0, 1):
            me = Sym("self", {F.field_index(adt, "pc"): 0.5})

            from c04 import StackModel
            import statemodel
            POP_ = "mahf::state::common::Populations"
            sf_ = F.field_index(POP_, "stack")
            popsym_ = Sym("populations", {sf_: Sym("stack")})
            extra0 = {"mahf::state::State::populations_mut": popsym_, "mahf::state::State::populations": popsym_, "mahf::problems::VectorProblem::dimension": 2}
            it = install(Interp(fn.body, chain(draw_oracle((), 0.0, extra0), statemodel.well_known(popsym_, Sym("rng")), StackModel(sf_), coll_oracle, std_oracle), [me, Sym("problem"), Sym("state")], facts=F,
                                inline=lambda k: k.startswith("mahf::problems::individual::") or k.startswith("mahf::population::") or "as mahf::population::" in k or k.startswith(POP_ + "::"), max_visits=20))
            it.init_state = {"heap": {"mut": (Agg("adt", IND, "Individual", [Vec("m0"), NONE]),), "m0": (Sym("m"), Sym("m")), "base": ()}, "next_vec": 0,
                             "stack": (Vec("mut"),) if height == 1 else ()}
            try:
                for p in it.run():
                    if p.end != "return" or not (isinstance(p.ret, Agg) and p.ret.variant == "Err"):
                        short.append((height, "%s %s" % ("panics" if p.end in ("panic", "diverge") else p.end, p.ret if p.end == "return" else "")))
            except NeedDraw:
                short.append((height, "proceeds to draw random numbers"))
        ctx.check(not short, "C13.R8", fn.key, "too-few-populations-is-an-error", "%s population(s) on the stack (documented: `Err` if there are fewer than two): the component %s" % (short[0] if short else ("", "")), loc=fn.loc())
        total += cnt
        ctx.check(not bad, "C13.R8", fn.key, "position-wise-mix-with-base", "pc %s, dimension %s, %s individuals, draws %s: the component %s" % (bad[0] if bad else ("", "", "", "", "")),
                  detail="%d draw sequences" % cnt, loc=fn.loc())
        ctx.floor("C13.R8", "%s draw sequences" % name, cnt, 20)
    ctx.count("recombination_draw_sequences", total)


def r10_de_mutation(ctx):
    """K6 with exact floats on DEMutation::execute (with utils::with_index inlined): for y in {1, 2}, 0..2 groups of 2y+1
    two-dimensional solutions and F = 0.5: the population becomes one mutant per group, in order, each the group's base plus
    F times the sum of the pairwise differences of the group's other members (base + F*(s1 - s2) [+ F*(s3 - s4)]), of the
    base's dimension and unevaluated; the other members are consumed.  A malformed population is an error that changes nothing."""
    from absint import Interp, Sym, Agg, TOP, some, std_oracle, chain
    from collmodel import coll_oracle, install, Vec
    from c10 import mk_oracle
    import c07
    F = ctx.facts
    adt = "mahf::components::mutation::de::DEMutation"
    fn = F.method(adt, "execute", "mahf::components::Component")
    yi, fi = F.field_index(adt, "y"), F.field_index(adt, "f")
    SO = "mahf::problems::objective::single::SingleObjective"
    bad = []
    n = 0
    for y in (1, 2):
        size = 2 * y + 1
        for count in (0, size, 2 * size, size + 1, size - 1):
            def ind(vid):
                return Agg("adt", c07.IND, "Individual", [Vec(vid), some(Agg("adt", SO, "SingleObjective", [1.0]))])
            table = {"mahf::state::State::populations_mut": Sym("populations"), "mahf::state::common::Populations::current_mut": Vec("cur", borrowed=True)}
            it = install(Interp(fn.body, chain(mk_oracle(table), coll_oracle, std_oracle), [Sym("self", {yi: y, fi: 0.5}), Sym("problem"), Sym("state")], facts=F,
                                inline=lambda k: c07.INLINE(k) or k.startswith("mahf::utils::"), max_visits=30, max_paths=50))
            heap = {"cur": tuple(ind("s%d" % i) for i in range(count))}
            sols = {}
            for i in range(count):
                sols[i] = (float((i + 1) * (i + 2)), float(10 * (i + 1) + i * i))
                heap["s%d" % i] = sols[i]
            it.init_state = {"heap": heap, "next_vec": 0}
            n += 1
            label = (y, count)
            for p in it.run():
                h = p.mstate["heap"]
                if count % size != 0:
                    untouched = all(tuple(h.get("s%d" % i, ())) == sols[i] for i in range(count)) and len(h.get("cur", ())) == count
                    if p.end != "return" or not (isinstance(p.ret, Agg) and p.ret.variant == "Err") or not untouched:
                        bad.append(label + ("is not rejected unchanged (%s %s)" % (p.end, p.ret),))
                    continue
                if p.end != "return" or not (isinstance(p.ret, Agg) and p.ret.variant == "Ok"):
                    bad.append(label + ("does not complete (%s %s)" % (p.end, p.ret),))
                    continue
                cur = h.get("cur", ())
                want = []
                for g in range(count // size):
                    base = list(sols[g * size])
                    for k in range(y):
                        a, b = sols[g * size + 1 + 2 * k], sols[g * size + 2 + 2 * k]
                        base = [base[d] + 0.5 * (a[d] - b[d]) for d in range(2)]
                    want.append(tuple(base))
                got = []
                for x in cur:
                    v = x.fields[0] if isinstance(x, Agg) and x.name == c07.IND else None
                    evaluated = isinstance(x, Agg) and isinstance(x.fields[1], Agg) and x.fields[1].variant == "Some"
                    got.append((tuple(h.get(v.vid, ())) if isinstance(v, Vec) else None, evaluated))
                if [g_[0] for g_ in got] != want or any(e for _, e in got):
                    bad.append(label + ("leaves %s; expected the unevaluated mutants %s (base + F * sum of pair differences, one per group)" % (got, want),))
    ctx.check(not bad, "C13.R10", fn.key, "one-mutant-per-group", "y = %s, population of %s: DEMutation %s" % (bad[0] if bad else ("", "", "")), detail="%d scenarios" % n, loc=fn.loc())
    ctx.count("de_mutation_scenarios", n)


def r11_mutation_driver(ctx, rule="C13.R11"):
    """K6 on the `mutation()` driver (the execute body for user-defined `Mutation` implementations) on the real population
    stack, owned by the current or the enclosing scope: every solution of the TOP population is handed to mutate() exactly
    once, in order; afterwards the population is back on top (same members, their objective values dropped because their
    solutions were handed out mutably) and the population underneath is untouched; a failing mutate() returns its error."""
    import statemodel
    from c04 import StackModel
    from absint import Interp, Sym, Agg, TOP, some, NONE, ok, err, std_oracle, chain
    from collmodel import coll_oracle, Vec, install, load
    F = ctx.facts
    fn = F.fn_opt("mahf::components::mutation::mutation")
    if fn is None:
        ctx.violation(rule, "mahf::components::mutation::mutation", "anchor", "the mutation driver was not found", kind="anchor-missing")
        return
    IND = "mahf::problems::individual::Individual"
    POP_ = statemodel.POPULATIONS
    inl = lambda k: k.startswith("mahf::problems::individual::") or k.startswith("<mahf::problems::individual::") or k.startswith("mahf::population::") or "as mahf::population::" in k \
        or k.startswith(POP_ + "::") or statemodel.inline(k)
    bad = []
    n = 0
    for size in range(0, 4):
        for owner in (0, 1):
            for fail_at in [None] + list(range(size)):
                cells, popsym, sf_ = statemodel.stack_and_rng(F, owner)
                store = statemodel.Store(F, levels=2, auto=statemodel.by_prefix(F, cells))
                seen = []

                def oracle(interp, env, f, args, t, bb, path, fail_at=fail_at):
                    if f.get("key") == "mahf::components::mutation::Mutation::mutate":
                        s_ = load(interp, env, args[1])
                        seen.append(getattr(s_, "tag", repr(s_)))
                        return err(Sym("boom")) if fail_at is not None and len(seen) - 1 == fail_at else ok(Agg("tuple", None, None, []))
                    return TOP
                it = install(Interp(fn.body, chain(oracle, store, StackModel(sf_), coll_oracle, std_oracle), [Sym("component"), Sym("problem"), Sym("state")], facts=F, inline=inl, max_visits=14))
                it.init_state = {"heap": {"pop": tuple(Agg("adt", IND, "Individual", [Sym("s%d" % i), some(Sym("o%d" % i))]) for i in range(size)),
                                          "below": (Agg("adt", IND, "Individual", [Sym("sb"), some(Sym("ob"))]),)}, "next_vec": 0, "stack": (Vec("below"), Vec("pop"))}
                store.install(it)
                n += 1
                where = "population of %d%s%s" % (size, ", the stack owned by the enclosing scope" if owner else "", "" if fail_at is None else ", mutate() failing at member %d" % fail_at)
                paths = it.run()
                if len(paths) != 1 or paths[0].end != "return" or not isinstance(paths[0].ret, Agg):
                    bad.append((where, "is not decided / does not complete (%s)" % [(p.end, str(p.ret)[:30]) for p in paths]))
                    continue
                p = paths[0]
                held = {ty.split("<")[0].split("::")[-1]: store.holders(p, ty) for ty in store.types()}
                if any(ls != [owner] for ls in held.values()):
                    bad.append((where, "leaves %s held by scope level(s) %s; they belong to scope level %d and stay there" % (sorted(held), sorted(held.values()), owner)))
                    continue
                if fail_at is not None:
                    if p.ret.variant != "Err" or seen != ["s%d" % i for i in range(fail_at + 1)]:
                        bad.append((where, "returns %s after mutating %s (expected the error right after the failing member)" % (p.ret.variant, seen)))
                    continue
                names_ = [getattr(x, "vid", repr(x)) for x in p.mstate.get("stack", ())]
                top = p.mstate["heap"].get(names_[-1], ()) if names_ else ()
                got = [(getattr(x.fields[0], "tag", "?"), x.fields[1].variant if isinstance(x.fields[1], Agg) else "?") if isinstance(x, Agg) and x.name == IND else ("?", "?") for x in top]
                if p.ret.variant != "Ok" or seen != ["s%d" % i for i in range(size)]:
                    bad.append((where, "returns %s after handing %s to mutate() (expected every member of the top population once, in order)" % (p.ret.variant, seen)))
                elif p.mstate.get("unmodelled") or len(names_) != 2 or names_[0] != "below" or got != [("s%d" % i, "None") for i in range(size)]:
                    bad.append((where, "leaves the stack %s with top %s (expected the mutated population back on top of `below`, its objective values dropped)" % (p.mstate.get("unmodelled") or names_, got)))
    ctx.count("mutation_driver_scenarios", n)
    ctx.check(not bad, rule, fn.key, "every-solution-once-population-back", "%s: the driver %s" % (bad[0] if bad else ("", "")), detail="%d scenarios" % n, loc=fn.loc())
