"""C08 — same seed, same run: independent of evaluator, threads, scheduling and cloning."""
import re

from core import expr_str, strip, subexprs, callee_keys, AnchorMissing
from kinds import origin, all_places
from absint import Interp, Sym, Agg, Ref, TOP, some, NONE, ok, err, std_oracle, chain
from c10 import mk_oracle
import c06

EXPLANATION = (
    "The crate's own code is shown free of schedule- and environment-dependent choices: (R1) ambient sources of "
    "non-determinism (thread_rng, rand::random, OsRng, from_entropy, getrandom, Instant/SystemTime::now, "
    "thread::current, std::env, process::id, RandomState::new) are called only in Random::default, and Random::default "
    "only in optimize / optimize_with; (R2) no iteration over a HashMap/HashSet (unspecified order) in crate code; "
    "(R3) K6 on optimize_with: the default generator is inserted exactly when the user's init_state left no Random in "
    "the state, after init_state ran - a user-supplied generator is never replaced; (R4) closures handed to rayon "
    "capture nothing of type State/Random/RefCell and reach no random-number or state accessor; the parallel "
    "evaluator visits every individual exactly like the sequential one (same element-preserving iteration rule as "
    "C06.R2); par_experiment builds a fresh state per run seeded with Random::new(<the run number from the iteration "
    "item>), and no Random is inserted after the user's setup hook ran; (R5) child generators (K6): RandomIter::next "
    "returns Some((parent.constructor)(seed)) with seed exactly one next_u64() drawn from the parent; with_rng seeds RNG::seed_from_u64(seed) and its constructor closure captures "
    "nothing; Random::new(seed) is with_rng::<ChaCha12Rng>(seed); (R6) components are immutable: every method of the "
    "component/condition/operator traits takes &self and no implementing type (transitively through crate-local "
    "fields) holds Cell/RefCell/Mutex/RwLock/Atomic/Once state; Configuration clones structurally. NOT decided: "
    "bit-equality of two runs (run-time), that different seeds give different streams (a property of ChaCha), purity "
    "of user evaluators.")
EXPLANATION += " " + "(R3 revised) Configuration::run is followed down to the root component's phases over the typed store: the generator the phases see is the user's, untouched, or exactly one default generator if none was supplied; a sub-configuration run inside a scope whose ENCLOSING scope holds the user's generator sees that one and shadows nothing."
ASSUMPTIONS = ["rand_chacha's ChaCha12Rng is a deterministic function of its seed", "rayon's par_iter_mut hands every element to exactly one task"]

AMBIENT = ["rand::rngs::thread::thread_rng", "rand::random", "OsRng", "from_entropy", "getrandom::", "std::time::Instant::now", "std::time::SystemTime::now",
           "std::thread::current", "std::env::", "std::process::id", "RandomState::new", "std::time::UNIX_EPOCH"]
RDEF = "<mahf::state::random::Random as core::default::Default>::default"


def r1_ambient(ctx):
    F = ctx.facts
    n = 0
    for (f, bb, t) in F.callers_of(lambda c: any(p in (c.get("key") or "") for p in AMBIENT)):
        n += 1
        ctx.check(f.key == RDEF, "C08.R1", f.key, t["f"]["key"].split("::")[-1], "ambient source of non-determinism %s is used in %s (only Random::default may)" % (t["f"]["key"], f.key), loc=f.loc(t.get("line")))
    for (f, bi, c) in F.fn_refs(lambda c: any(p in (c.get("key") or "") for p in AMBIENT)):
        ctx.violation("C08.R1", f.key, c["key"].split("::")[-1] + ":as-value", "ambient source %s is passed around as a function value" % c["key"], loc=f.loc())
    ctx.floor("C08.R1", "ambient-source call sites (the one in Random::default)", n, 1)
    users = {f.key for (f, bb, t) in F.callers_of(lambda c: RDEF in callee_keys(c))}
    users |= {f.key for (f, bi, c) in F.fn_refs(lambda c: RDEF in callee_keys(c))}
    allowed = {"mahf::configuration::Configuration::optimize", "mahf::configuration::Configuration::optimize_with"}

    def only_from_allowed(key, depth=0):
        """a private helper (or closure) all of whose callers are the allowed entry points (transitively)"""
        if key in allowed:
            return True
        g = F.fn_opt(key)
        if g is None or depth > 3:
            return False
        if g.kind == "Closure":
            return only_from_allowed(g.parent, depth + 1)
        if g.vis in ("pub", "public"):
            return False
        callers = {c.key for (c, bb, t) in F.callers_of(lambda cc, k=key: k in callee_keys(cc))} | {c.key for (c, bi, cc) in F.fn_refs(lambda cc, k=key: k in callee_keys(cc))}
        return bool(callers) and all(only_from_allowed(c, depth + 1) for c in callers)
    users = {u for u in users if not only_from_allowed(u)} | (users & allowed)
    ctx.check(users <= allowed, "C08.R1", RDEF, "callers", "an entropy-seeded generator is created in %s" % sorted(users - allowed), detail=str(sorted(users)))


def r2_hash_iteration(ctx):
    F = ctx.facts
    hits = F.callers_of(lambda c: (c.get("self_adt") or "").startswith("std::collections::hash::") and c.get("name") in
                        ("iter", "keys", "values", "drain", "into_iter", "iter_mut", "values_mut", "retain", "into_keys", "into_values", "extract_if"))
    hits += F.callers_of(lambda c: c.get("name") == "into_iter" and ("std::collections::hash::map::HashMap<" in (c.get("self_ty") or "") or "std::collections::hash::set::HashSet<" in (c.get("self_ty") or "")
                                                                     or any(g.lstrip("&").lstrip("mut ").startswith("std::collections::hash::") for g in (c.get("gargs") or []))))
    seen = set()
    for (f, bb, t) in hits:
        if f.from_expansion or (f.key, t["f"]["key"]) in seen:
            continue
        seen.add((f.key, t["f"]["key"]))
        ctx.violation("C08.R2", f.key, t["f"].get("name"), "iteration over a hash container (%s): the order is unspecified and differs between runs" % t["f"]["key"], loc=f.loc(t.get("line")))
    if not seen:
        ctx.ok("C08.R2", "crate", "no-hash-iteration", "")


def r3_user_generator_kept(ctx):
    """K6 over the typed store (statemodel), with Configuration::run followed down to the root component's phases:
    (a) optimize_with - the user's init_state closure runs on the fresh state and either supplies a generator or does not;
    when the first phase of the root component runs, the generator the state shows is the user's, untouched, or - only if
    none was supplied - exactly one default generator, and init_state ran before the generator was looked for;
    (b) run on a state whose ENCLOSING scope holds the user's generator (a sub-configuration run inside a Scope): the
    phases see that generator and nothing shadows it."""
    import statemodel
    from collmodel import coll_oracle, install, load
    F = ctx.facts
    RND = "mahf::state::random::Random"
    COMPK = "mahf::components::Component::"
    bad = []

    def mk(store, has):
        def oracle(interp, env, f, args, t, bb, path):
            k = f.get("key", "")
            ms = interp.mstate
            if k == "core::ops::function::FnOnce::call_once" or (f.get("name") in ("call_once", "call") and args and isinstance(load(interp, env, args[0]), Sym) and load(interp, env, args[0]).tag == "init_state"):
                ms["log"] = ms.get("log", ()) + (("init_state", tuple(ty.split("::")[-1] for (ty, _l) in ms.get("have", ()))),)
                if has:
                    store.put(interp, env, RND, 0, Sym("the-user's-generator"))
                return ok(Agg("tuple", None, None, []))
            if k in (COMPK + "init", COMPK + "require", COMPK + "execute"):
                v = store.visible_value(interp, env, RND, 0)
                ms["log"] = ms.get("log", ()) + ((f.get("name"), repr(v), tuple(sorted(l for (ty, l) in ms.get("have", ()) if ty == RND))),)
                return ok(Agg("tuple", None, None, []))
            if k == "mahf::state::State::requirements":
                return Sym("requirements")
            if k in (RDEF, "core::default::Default::default") and not args:
                n = ms.get("defaults", 0) + 1
                ms["defaults"] = n
                return Sym("entropy-random#%d" % n)
            return TOP
        return oracle
    helper = lambda k: statemodel.inline(k) or k.startswith("mahf::state::State::new") or k == "mahf::configuration::Configuration::run" or (
        k.startswith("mahf::configuration::Configuration::") and (F.fn_opt(k) is not None and F.fn_opt(k).vis not in ("pub", "public")))
    # (a) optimize_with
    fn = F.fn("mahf::configuration::Configuration::optimize_with")
    for has in (True, False):
        store = statemodel.Store(F, levels=1, auto=lambda ty: {})
        it = install(Interp(fn.body, chain(mk(store, has), store, coll_oracle, std_oracle), [Sym("self", boxlike=True), Sym("problem"), Sym("init_state")], facts=F, inline=helper))
        it.init_state = {}
        store.install(it)
        paths = it.run()
        okp = [p for p in paths if p.end == "return" and isinstance(p.ret, Agg) and p.ret.variant == "Ok"]
        if len(paths) != 1 or not okp:
            bad.append((has, "is not decided / has no successful path (%s)" % [(p.end, str(p.ret)[:40]) for p in paths]))
            continue
        log = list(okp[0].mstate.get("log", ()))
        kinds = [e[0] for e in log]
        if kinds != ["init_state", "init", "require", "execute"]:
            bad.append((has, "does not run init_state once and then the configuration's init, require, execute: %s" % kinds))
            continue
        if "Random" in log[0][1]:
            bad.append((has, "inserts a generator before the user's init_state ran"))
            continue
        seen = {e[1] for e in log[1:]}
        if has and seen != {repr(Sym("the-user's-generator"))}:
            bad.append((has, "runs the configuration with %s as generator although the user's init_state supplied one (the seed is replaced)" % sorted(seen)))
        if not has and seen != {repr(Sym("entropy-random#1"))}:
            bad.append((has, "runs the configuration with %s as generator when none was supplied (expected exactly one default generator)" % sorted(seen)))
    ctx.check(not bad, "C08.R3", fn.key, "default-generator-only-if-absent", "user supplied a generator: %s - optimize_with %s" % (bad[0] if bad else ("", "")), loc=fn.loc())
    # (b) run inside a scope whose surroundings hold the user's generator
    fn = F.fn("mahf::configuration::Configuration::run")
    store = statemodel.Store(F, levels=2, auto=lambda ty: {1: Sym("the-user's-generator")} if ty == RND else {})
    it = install(Interp(fn.body, chain(mk(store, False), store, coll_oracle, std_oracle), [Sym("self", boxlike=True), Sym("problem"), Sym("state")], facts=F, inline=helper))
    it.init_state = {}
    store.install(it)
    paths = it.run()
    why = ""
    if len(paths) != 1 or paths[0].end != "return" or not (isinstance(paths[0].ret, Agg) and paths[0].ret.variant == "Ok"):
        why = "is not decided / does not complete (%s)" % [(p.end, str(p.ret)[:40]) for p in paths]
    else:
        log = list(paths[0].mstate.get("log", ()))
        seen = {(e[1], e[2]) for e in log}
        if [e[0] for e in log] != ["init", "require", "execute"]:
            why = "does not run init, require, execute once each: %s" % [e[0] for e in log]
        elif any(v != repr(Sym("the-user's-generator")) for (v, _h) in seen) and any(v != repr(None) for (v, _h) in seen):
            why = "runs its phases with %s as generator (held by scope levels %s) although the enclosing scope holds the user's generator: a generator the user supplied is never replaced or shadowed" % (
                sorted(v for (v, _h) in seen), sorted(h for (_v, h) in seen))
        elif any(h not in ((), (1,)) for (_v, h) in seen):
            why = "puts a generator of its own into the current scope (levels %s)" % sorted(h for (_v, h) in seen)
    ctx.check(not why, "C08.R3", fn.key, "enclosing-generator-is-used", "run() inside a scope whose enclosing scope holds the user's generator %s" % why, loc=fn.loc())


def r4_parallel(ctx):
    F = ctx.facts
    sites = F.callers_of(lambda c: (c.get("key") or "").startswith("rayon::"))
    ctx.floor("C08.R4", "rayon call sites", len(sites), 2)
    forbidden_ty = re.compile(r"mahf::state::State<|mahf::state::random::Random|core::cell::RefCell<|core::cell::RefMut<|core::cell::Ref<")
    for (f, bb, t) in sites:
        for a in t["args"][1:]:
            e = strip(f.body.expr_of_op(a))
            if not (e[0] == "agg" and e[1] == "closure"):
                continue
            clo = F.fn_opt(e[2])
            if clo is None:
                continue
            # captured values
            caps = []
            for b in range(f.body.n):
                for st in f.body.stmts(b):
                    if st[0] == "=" and st[2][0] == "agg" and st[2][1].get("k") == "closure" and st[2][1].get("closure") == clo.key:
                        for o in st[2][2]:
                            if o[0] in ("copy", "move") and not o[1][1]:
                                caps.append(f.body.local_ty(o[1][0]))
            badcaps = [c for c in caps if forbidden_ty.search(c)]
            ctx.check(not badcaps, "C08.R4", clo.key, "captures", "a closure run on rayon worker threads captures shared mutable run state: %s" % badcaps, detail=str(caps)[:200], loc=clo.loc())
            # what it reaches: no generator draws, no access to an outer state
            reach = [clo] + F.closures_of(clo.key)
            draws = []
            for g in reach:
                for b2, t2 in g.body.calls():
                    k = t2["f"].get("key") or ""
                    if k.startswith("rand::rng::Rng::") or k.startswith("rand_core::RngCore::") or k.startswith("rand::RngCore::") or k in ("mahf::state::State::random_mut",):
                        draws.append(k)
            is_exp = f.key == "mahf::experiments::par_experiment"
            ctx.check(not draws, "C08.R4", clo.key, "no-randomness-in-worker", "a rayon worker closure draws random numbers (%s): results would depend on scheduling" % sorted(set(draws)), loc=clo.loc())
    # parallel evaluation is the same element-preserving visit as the sequential one
    c06.r2_evaluators(ProxyCtx(ctx, "C06.R2", "C08.R4"))
    # par_experiment: fresh state per run, seeded with the run number of the iteration item
    pe = F.fn("mahf::experiments::par_experiment")
    reach = F.helper_reach(pe)        # par_experiment, its closures, the private helpers the run is split into
    news = [(g, b, t) for g in reach for b, t in g.body.calls() if t["f"].get("key") == "mahf::state::random::Random::new"]
    good = len(news) == 1
    why = "%d Random::new sites" % len(news)
    if good:
        from kinds import closure_capture
        g, b, t = news[0]
        e = g.body.expr_of_op(t["args"][0])
        # the seed is a capture of the inner closure; follow it - through captures and through the parameters of private helpers,
        # to their single call site - to a parameter of a closure of par_experiment (the (run, problem) item of the iteration)
        why = expr_str(e)
        cur, ex = g, e
        good = False
        for _ in range(6):
            leaf, cs, fields = origin(ex)
            if not (isinstance(leaf, tuple) and leaf and leaf[0] == "arg"):
                break
            if cur.kind == "Closure":
                if leaf[1] >= 2:
                    # a closure that is CALLED by another closure of the run (`let perform = |run, problem| ..; .map(|(r, p)| perform(r, p))`):
                    # its parameter is the caller's argument
                    called = []
                    for h in reach:
                        for _b2, t2 in h.body.calls():
                            if (t2["f"].get("trait") or "").startswith("core::ops::function") and len(t2["args"]) == 2:
                                recv_ = strip(h.body.expr_of_op(t2["args"][0]))
                                hh = h
                                for _k in range(4):
                                    while recv_[0] in ("ref", "deref") and len(recv_) > 1:
                                        recv_ = strip(recv_[-1])
                                    if recv_[0] == "field" and hh.kind == "Closure":      # a captured closure: back to where it was created
                                        lf_, _c, fs_ = origin(recv_)
                                        cap_ = closure_capture(F, hh, fs_[0]) if lf_ == ("arg", 1) and fs_ else None
                                        if not cap_:
                                            break
                                        hh, recv_ = cap_[0], strip(cap_[1])
                                        continue
                                    break
                                if recv_[:2] == ("agg", "closure") and recv_[2] == cur.key:
                                    called.append((h, t2))
                    if len(called) == 1:
                        h, t2 = called[0]
                        tup = strip(h.body.expr_of_op(t2["args"][1]))
                        if tup[0] == "agg" and len(tup) > 2 and isinstance(tup[-1], (list, tuple)) and leaf[1] - 2 < len(tup[-1]):
                            cur, ex = h, tup[-1][leaf[1] - 2]
                            why += " <- " + expr_str(ex)
                            continue
                    top = cur
                    while top.kind == "Closure" and top.parent and F.fn_opt(top.parent) is not None:
                        top = F.fn(top.parent)
                    good = top.key == pe.key
                    break
                if leaf == ("arg", 1) and fields:
                    cap = closure_capture(F, cur, fields[0])
                    if not cap:
                        break
                    cur, ex = cap
                    why += " <- " + expr_str(ex)
                    continue
                break
            # a helper function's parameter: its (single) call site inside the run
            cs_ = [(h, t2) for h in reach for _b2, t2 in h.body.calls() if (t2["f"].get("resolved", {}).get("key") or t2["f"].get("key")) == cur.key]
            if len(cs_) != 1 or leaf[1] - 1 >= len(cs_[0][1]["args"]):
                break
            cur, ex = cs_[0][0], cs_[0][0].body.expr_of_op(cs_[0][1]["args"][leaf[1] - 1])
            why += " <- " + expr_str(ex)
        opt = [(g2, t2) for g2 in reach for b2, t2 in g2.body.calls() if t2["f"].get("key") == "mahf::configuration::Configuration::optimize_with"]
        good = good and len(opt) == 1
        if good:
            # ... and that item is a RUN NUMBER: the iteration the item closure is applied to ranges over `0..runs`, `runs` a plain
            # parameter of par_experiment (not a job index over runs x problems), and where that range is one side of a product
            # of runs and problems, the seed is the side that came from it
            item_clo = cur
            sites = [(g2, t2) for g2 in reach for _b2, t2 in g2.body.calls()
                     if any(strip(g2.body.expr_of_op(a))[:2] == ("agg", "closure") and strip(g2.body.expr_of_op(a))[2] == item_clo.key for a in t2["args"][1:])]
            ranges = []
            for (g2, t2) in sites[:1]:
                recv = g2.body.expr_of_op(t2["args"][0])
                for x in subexprs(recv):
                    if x[0] == "agg" and len(x) > 4 and x[1] == "adt" and str(x[2]).startswith("core::ops::range::Range"):
                        ends = x[4][1:2]
                        ranges.append((x, ends[0] if ends else None))
                prod = [x for x in subexprs(recv) if x[0] == "call" and str(x[1]).endswith("cartesian_product")]
            plain = [r for r in ranges if r[1] is not None and strip(r[1])[0] == "arg"]
            if len(sites) != 1 or len(ranges) != 1 or len(plain) != 1:
                good = False
                why += "; the runs are not enumerated by one range `0..<parameter>` (%s)" % [expr_str(r[0])[:80] for r in ranges]
            elif prod:
                side = next((i for i, a in enumerate(prod[0][2]) if any(y is plain[0][0] or y == plain[0][0] for y in subexprs(a))), None)
                want_field = side
                got_field = fields[0] if fields else None
                got_idx = got_field[1] if isinstance(got_field, (list, tuple)) and len(got_field) > 1 else got_field
                if side is None or got_idx != want_field:
                    good = False
                    why += "; the seed is component %s of the (run, problem) item, the run number is component %s" % (got_idx, side)
    ctx.check(good, "C08.R4", pe.key, "seed-is-run-number", "par_experiment does not seed each run's fresh state with Random::new(<run number of the work item>): %s" % why, detail=why[:200], loc=pe.loc())
    # a generator supplied by the user's setup hook is never replaced: no insertion of a Random is reachable after the hook ran
    hooks = 0
    for g in reach:
        body = g.body
        user = [b for b, t in body.calls() if (t["f"].get("trait") or "").startswith("core::ops::function") or t["f"].get("key", "").startswith("core::ops::function::Fn")]
        ins = {b for b, t in body.calls() if t["f"].get("name") in ("insert", "insert_default", "entry") and (t["f"].get("gargs") or [""])[0] == "mahf::state::random::Random"}
        for b in user:
            hooks += 1
            after = body.reachable_from(body.term(b)["target"]) if body.term(b).get("target") is not None else set()
            late = sorted(ins & set(after))
            ctx.check(not late, "C08.R4", g.key, "user-generator-survives-setup",
                      "a Random is inserted after the user's setup hook ran (bb%s): a generator the user supplied there is silently replaced" % late, loc=g.loc(body.term(late[0]).get("line")) if late else g.loc())
    ctx.floor("C08.R4", "user setup hook calls in par_experiment", hooks, 1)


class ProxyCtx:
    """re-labels the rule id of a borrowed rule body"""

    def __init__(self, ctx, old, new):
        self._c, self._o, self._n = ctx, old, new
        self.facts = ctx.facts

    def _r(self, rule):
        return self._n if rule == self._o else rule

    def check(self, cond, rule, *a, **k):
        return self._c.check(cond, self._r(rule), *a, **k)

    def ok(self, rule, *a, **k):
        return self._c.ok(self._r(rule), *a, **k)

    def violation(self, rule, *a, **k):
        return self._c.violation(self._r(rule), *a, **k)

    def floor(self, rule, *a, **k):
        return self._c.floor(self._r(rule), *a, **k)

    def count(self, *a, **k):
        return self._c.count(*a, **k)


def r5_child_generators(ctx):
    F = ctx.facts
    RND = "mahf::state::random::Random"
    # K6: a child generator is (parent.constructor)(seed) with seed = exactly one next_u64() drawn from the parent
    from collmodel import coll_oracle, install, load
    fn = F.fn("<mahf::state::random::RandomIter as core::iter::traits::iterator::Iterator>::next")
    def field_of_type(pred, what):
        """private fields are located by what they hold, not by what they are called"""
        hits = [fd["i"] for fd in F.adt(RND)["variants"][0]["fields"] if pred(fd.get("ty") or "")]
        if len(hits) != 1:
            raise AnchorMissing("field of %s holding %s not found (candidates %s)" % (RND, what, hits))
        return hits[0]
    ci = field_of_type(lambda ty: ty.startswith("fn(u64)") and ty.endswith("random::Random"), "the constructor function `fn(u64) -> Random`")
    ii = field_of_type(lambda ty: "dyn rand_core::RngCore" in ty, "the boxed generator")
    nf = len(F.adt(RND)["variants"][0]["fields"])
    vals = [Sym("other")] * nf
    vals[ci] = Sym("parent-constructor")
    vals[ii] = Sym("parent-inner")
    parent_home = 12001

    def oracle5(interp, env, f, args, t, bb, path):
        nm = f.get("name")
        if nm in ("next_u64", "next_u32", "gen", "fill_bytes") and args:
            interp.mstate["draws"] = interp.mstate.get("draws", ()) + (nm,)
            return Sym("seed%d" % len(interp.mstate["draws"]))
        if f.get("kind") == "fnptr" and isinstance(f.get("fnptr_value"), Sym):
            interp.mstate["made"] = interp.mstate.get("made", ()) + ((f["fnptr_value"].tag, tuple(getattr(a, "tag", repr(a)) for a in args)),)
            return Sym("child")
        return TOP
    it = install(Interp(fn.body, chain(oracle5, coll_oracle, std_oracle), [Agg("adt", "mahf::state::random::RandomIter", "RandomIter", [Ref(parent_home, [], frame="root")])], facts=F,
                        inline=lambda k: k.startswith("<mahf::state::random::") or k.startswith("mahf::state::random::"), max_visits=6))
    it.extra_env = {parent_home: Agg("adt", RND, "Random", vals)}
    outs = []
    for p in it.run():
        r = p.ret
        outs.append((p.end, r.variant if isinstance(r, Agg) else None, getattr(r.fields[0], "tag", None) if isinstance(r, Agg) and r.fields else None, p.mstate.get("draws", ()), p.mstate.get("made", ())))
    good = outs == [("return", "Some", "child", ("next_u64",), (("parent-constructor", ("seed1",)),))]
    why = str(outs)
    ctx.check(good, "C08.R5", fn.key, "child-from-parent-seed-and-constructor", "a child generator is not (parent.constructor)(parent.next_u64()) with exactly one draw from the parent: %s" % why, detail=why[:160], loc=fn.loc())
    # K6 with instantiated type parameters: what new / with_rng build, and what the stored constructor rebuilds
    cfi = field_of_type(lambda ty: ty == "mahf::state::random::RandomConfig", "the RandomConfig")
    seed_idx = F.field_index("mahf::state::random::RandomConfig", "seed")

    def oracle6(interp, env, f, args, t, bb, path):
        nm = f.get("name")
        k = f.get("key", "")
        if nm == "seed_from_u64" and len(args) == 1:
            ty = (f.get("cgargs") or f.get("gargs") or ["?"])[0]
            return Sym("rng<%s>(%s)" % (ty, getattr(load(interp, env, args[0]), "tag", load(interp, env, args[0]))))
        if k in ("core::any::type_name",):
            return Sym("name<%s>" % (f.get("cgargs") or f.get("gargs") or ["?"])[0])
        if k == "alloc::boxed::Box::new":
            return args[0]
        return TOP
    inl_r = lambda k: k.startswith("<mahf::state::random::") or k.startswith("mahf::state::random::")

    def build(fn, args, generic):
        it = install(Interp(fn.body, chain(oracle6, coll_oracle, std_oracle), args, facts=F, inline=inl_r, max_visits=6))
        ps = it.run()
        if len(ps) != 1 or ps[0].end != "return" or not (isinstance(ps[0].ret, Agg) and ps[0].ret.name == RND):
            return None, "does not return one Random (%s)" % [(p.end, str(p.ret)[:60]) for p in ps], None
        return ps[0].ret, None, it

    def describe(r):
        inner = r.fields[ii]
        cfg = r.fields[cfi]
        return getattr(inner, "tag", repr(inner)), getattr(cfg.fields[seed_idx], "tag", None) if isinstance(cfg, Agg) else None
    for fn, args, ty, label in ((F.fn(RND + "::with_rng"), [Sym("seed")], "RNG", "seeded-and-self-reproducing"), (F.fn(RND + "::new"), [Sym("seed")], None, "chacha-from-seed")):
        r, why, it = build(fn, args, ty)
        good = r is not None
        if good:
            inner, cseed = describe(r)
            if ty is None:
                good = inner.startswith("rng<rand_chacha::") and inner.endswith(">(seed)") and cseed == "seed"
                ty_seen = inner[4:inner.index(">(")]
            else:
                good = inner == "rng<%s>(seed)" % ty and cseed == "seed"
                ty_seen = ty
            why = "builds inner generator %s with recorded seed %s; expected <RNG>::seed_from_u64(seed) and the seed recorded" % (inner, cseed)
            if good:
                # the stored constructor, applied to another seed, builds the same kind of generator from THAT seed
                outs = it.call_value(r.fields[ci], [Sym("seed2")])
                kids = [o[0] for o in (outs or []) if o[2] == "return"]
                good = len(kids) == 1 and isinstance(kids[0], Agg) and kids[0].name == RND and describe(kids[0]) == ("rng<%s>(seed2)" % ty_seen, "seed2")
                why = "its stored constructor applied to seed2 builds %s; expected the same generator type seeded with seed2" % ([describe(k) if isinstance(k, Agg) else str(k) for k in kids],)
        ctx.check(good, "C08.R5", fn.key, label, "%s %s" % (fn.key.split("::")[-1], why), detail=str(why)[:160], loc=fn.loc())
    # the erased generator only forwards to the seeded inner generator
    for f in F.all_fns:
        if f.impl_self_adt == RND and f.impl_trait and f.impl_trait.endswith("RngCore"):
            seen = []

            def fw(interp, env, f_, args, t, bb, path):
                if (f_.get("trait") or "").endswith("RngCore") or f_.get("name") in ("next_u32", "next_u64", "fill_bytes", "try_fill_bytes"):
                    seen.append((f_.get("name"), tuple(getattr(load(interp, env, a), "tag", repr(a)) for a in args)))
                    return Sym("result-of-inner")
                return TOP
            argv = [Sym("self", {ii: Sym("inner", boxlike=True)})] + [Sym("arg%d" % k) for k in range(1, f.body.argc)]
            it = install(Interp(f.body, chain(fw, coll_oracle, std_oracle), argv, facts=F, max_visits=6))
            ps = it.run()
            want = [(f.name, ("inner",) + tuple("arg%d" % k for k in range(1, f.body.argc)))]
            good = len(ps) == 1 and ps[0].end == "return" and seen == want and (ps[0].ret == Sym("result-of-inner") or f.name == "fill_bytes")
            ctx.check(good, "C08.R5", f.key, "forwards-to-inner", "%s calls %s and returns %s; expected exactly the inner generator's %s with the same arguments, its result returned" % (f.name, seen, [str(p.ret) for p in ps], f.name), loc=f.loc())


INTERIOR = re.compile(r"core::cell::(Cell|RefCell|OnceCell|UnsafeCell)<|std::sync::(Mutex|RwLock|OnceLock|Once)\b|std::sync::poison::|core::sync::atomic::|std::sync::mpsc::|parking_lot::")
TRAITS = ["mahf::components::Component", "mahf::conditions::Condition", "mahf::components::selection::Selection", "mahf::components::replacement::Replacement",
          "mahf::components::recombination::Recombination", "mahf::components::boundary::BoundaryConstraint", "mahf::components::initialization::Initialization",
          "mahf::components::mapping::Mapping", "mahf::conditions::common::EqualityChecker"]


def r6_immutable_components(ctx):
    F = ctx.facts
    for tr in TRAITS:
        t = F.traits.get(tr)
        if t is None:
            ctx.violation("C08.R6", tr, "anchor", "trait not found", kind="anchor-missing")
            continue
        for it in t["items"]:
            if it["kind"] == "Fn" and it.get("sig"):
                a0 = it["sig"]["inputs"][0] if it["sig"]["inputs"] else ""
                ctx.check(a0.startswith("&") and not a0.startswith("&mut ") and not re.match(r"&'\w+ mut ", a0), "C08.R6", tr + "::" + it["name"], "takes-&self",
                          "%s::%s takes %s: a component could keep hidden state across runs" % (tr.split("::")[-1], it["name"], a0))
    impl_adts = sorted({i["self_adt"] for i in F.impls if i["trait"] in TRAITS and i["self_adt"]})
    ctx.floor("C08.R6", "types implementing component/operator traits", len(impl_adts), 80)
    memo = {}

    def interior(adt, depth=0):
        if adt in memo:
            return memo[adt]
        memo[adt] = None
        a = F.adts.get(adt)
        res = None
        if a is not None and depth < 6:
            for v in a["variants"]:
                for fd in v["fields"]:
                    if INTERIOR.search(fd["ty"]):
                        res = "%s.%s: %s" % (adt.split("::")[-1], fd["name"], fd["ty"][:60])
                        break
                    for m in re.finditer(r"mahf::[A-Za-z0-9_:]+", fd["ty"]):
                        sub = interior(m.group(0), depth + 1)
                        if sub:
                            res = "%s.%s -> %s" % (adt.split("::")[-1], fd["name"], sub)
                            break
                    if res:
                        break
                if res:
                    break
        memo[adt] = res
        return res
    bad = [(a, interior(a)) for a in impl_adts if interior(a)]
    ctx.check(not bad, "C08.R6", "component types", "no-interior-mutability", "a component type holds interior-mutable state: %s" % (bad[0][1] if bad else ""), detail="%d types" % len(impl_adts))
    cl = F.fn("<mahf::configuration::Configuration as core::clone::Clone>::clone")
    calls = [callee_keys(t["f"]) for b, t in cl.body.calls()]
    ctx.check(len(calls) == 1 and any(k.endswith("as core::clone::Clone>::clone") or k == "core::clone::Clone::clone" for k in calls[0]) and cl.from_expansion, "C08.R6", cl.key, "structural-clone",
              "Configuration::clone is not the derived structural clone of its component tree: %s" % calls, loc=cl.loc())


def run(ctx):
    ctx.guard("C08.R1", "ambient sources", lambda: r1_ambient(ctx))
    ctx.guard("C08.R2", "hash iteration", lambda: r2_hash_iteration(ctx))
    ctx.guard("C08.R3", "user generator kept", lambda: r3_user_generator_kept(ctx))
    ctx.guard("C08.R4", "parallel sections", lambda: r4_parallel(ctx))
    ctx.guard("C08.R5", "child generators", lambda: r5_child_generators(ctx))
    ctx.guard("C08.R6", "immutable components", lambda: r6_immutable_components(ctx))
