"""Shared K6 rule: what a component's / condition's init() puts into the state.

init() is evaluated on the MIR with every field of `self` a distinct symbol; the registry's insert (and the entry API's
or_insert*) record the INSTANTIATED type and the value.  The specification is an explicit table, confirmed by reading the
component's documentation (which parameter is the rate, the strength, the start temperature, ...): per implementing type the
state types init must insert - under the component's OWN instantiation where the type mentions the component - and what the
inserted value must be built from: ("field", name) = exactly that configured field, ("const", v), ("empty",) = an empty /
default value.  One line of reason per entry."""
from absint import Interp, Sym, Agg, Ref, HRef, TOP, NONE, ok, std_oracle, chain
from collmodel import coll_oracle, install, load, Vec, heap_get

M = "mahf::components::mutation::"
SPEC = {
    # property -> [(impl self ADT, trait, {state type (with `Self`): expected})]
    "C13": [
        (M + "common::NormalMutation", "mahf::components::Component", {M + "MutationStrength<Self>": ("field", "std_dev"), M + "MutationRate<Self>": ("field", "rm")}),   # docs: std_dev = standard deviation, rm = mutation rate
        (M + "common::UniformMutation", "mahf::components::Component", {M + "MutationStrength<Self>": ("field", "bound"), M + "MutationRate<Self>": ("field", "rm")}),
        (M + "common::BitFlipMutation", "mahf::components::Component", {M + "MutationRate<Self>": ("field", "rm")}),
        (M + "common::PartialRandomSpread", "mahf::components::Component", {M + "MutationRate<Self>": ("field", "rm")}),
        (M + "common::ScrambleMutation", "mahf::components::Component", {M + "MutationRate<Self>": ("field", "rm")}),
        (M + "common::PartialRandomBitstring", "mahf::components::Component", {M + "MutationRate<Self>": ("field", "rm")}),
    ],
    # the evaluation counter of a run (or of a scope) starts at zero - also when an earlier run left a count behind
    "C06": [("mahf::components::evaluation::PopulationEvaluator", "mahf::components::Component", {"mahf::state::common::Evaluations": ("const", 0)})],
    "C17": [("mahf::components::replacement::sa::ExponentialAnnealingAcceptance", "mahf::components::Component", {"mahf::components::replacement::sa::Temperature": ("field", "t_0")})],
    "C18": [
        ("mahf::components::swarm::pso::ParticleVelocitiesUpdate", "mahf::components::Component", {"mahf::components::swarm::pso::InertiaWeight<Self>": ("field", "weight")}),
        ("mahf::components::swarm::pso::ParticleVelocitiesInit", "mahf::components::Component", {"mahf::components::swarm::pso::ParticleVelocities<I>": ("empty",)}),
        ("mahf::components::swarm::pso::PersonalBestParticlesInit", "mahf::components::Component", {"mahf::components::swarm::pso::BestParticles<P, I>": ("empty",)}),
        ("mahf::components::swarm::pso::GlobalBestParticleUpdate", "mahf::components::Component", {"mahf::components::swarm::pso::BestParticle<P, I>": ("empty",)}),
    ],
    "C20": [("mahf::components::misc::cro::ChemicalReactionInit", "mahf::components::Component",
             {"mahf::components::misc::cro::ChemicalReaction<P>": ("empty",), "mahf::components::misc::cro::EnergyBuffer": ("field", "buffer")})],
    "C07": [
        ("mahf::components::archive::ElitistArchiveUpdate", "mahf::components::Component", {"mahf::components::archive::ElitistArchive<P>": ("empty",)}),
        ("mahf::components::evaluation::BestIndividualUpdate", "mahf::components::Component", {"mahf::state::common::BestIndividual<P>": ("empty",)}),
    ],
    # a fresh matrix of the problem's dimension (3 in the scenario) with every trail the configured default
    "C19": [("mahf::components::generative::AcoGeneration", "mahf::components::Component",
             {"mahf::components::generative::PheromoneMatrix": ("multiset", [3] + [("field", "default_pheromones")] * 9)})],
    "C10": [
        ("mahf::conditions::common::LessThanN", "mahf::conditions::Condition", {"mahf::state::common::Progress<L>": ("const", 0.0)}),
        ("mahf::conditions::common::ChangeOf", "mahf::conditions::Condition", {"mahf::conditions::common::Previous<<L as lens::AnyLens>::Target>": ("empty",)}),
    ],
}


def leaves(interp_state, v, depth=0):
    """the non-marker leaf values of an inserted value"""
    if depth > 6:
        return [v]
    if isinstance(v, Agg):
        if v.name == "core::marker::PhantomData" or (v.kind == "tuple" and not v.fields):
            return []
        if v.name == "core::option::Option" and v.variant == "None":
            return []
        out = []
        for x in v.fields:
            out.extend(leaves(interp_state, x, depth + 1))
        return out
    if isinstance(v, Vec):
        out = []
        for x in interp_state.get("heap", {}).get(v.vid, ()):
            out.extend(leaves(interp_state, x, depth + 1))
        return out
    if v is TOP:
        return ["?"]
    return [v]


# state a component deliberately KEEPS when it is already there (documented: shared between instances / phases)
KEEPS = {("mahf::components::swarm::pso::GlobalBestParticleUpdate", "mahf::components::swarm::pso::BestParticle<P, I>")}


def evaluate_init(F, adt, trait, present=False):
    """present=False: a state that does not hold the types yet; present=True: a USED state that already holds them (a
    configuration run again on the state of an earlier run, a component initialised a second time)"""
    fn = F.method(adt, "init", trait)
    a = F.adt(adt)
    fields = {x["name"]: x["i"] for x in a["variants"][0]["fields"]}
    me = Sym("self", {i: Sym("field:" + n) for n, i in fields.items()})
    seen = []

    def oracle(interp, env, f, args, t, bb, path):
        k = f.get("key", "")
        nm = f.get("name")
        ty = (f.get("cgargs") or f.get("gargs") or [None])[0]
        if k == "mahf::state::registry::StateRegistry::insert":
            seen.append((ty, leaves(interp.mstate, load(interp, env, args[1]))))
            return NONE
        if k == "mahf::state::registry::StateRegistry::entry":
            return Sym("entry:" + str(ty))
        if k in ("mahf::state::registry::StateRegistry::contains", "mahf::state::registry::StateRegistry::has", "mahf::state::registry::StateRegistry::contains_at_top"):
            return present
        if k == "mahf::problems::VectorProblem::dimension":
            return 3
        a0 = load(interp, env, args[0]) if args else None
        if k == "mahf::state::registry::StateRegistry::set_value" and present:
            seen.append((ty, leaves(interp.mstate, load(interp, env, args[1]))))
            return some(Sym("old-value"))
        if k.startswith("mahf::state::registry::entry::Entry::") and isinstance(a0, Sym) and a0.tag.startswith("entry:") and present:
            # an occupied entry: or_insert* keep what is there; and_modify* run the caller's closure on it (not followed: undecided)
            if nm in ("or_insert", "or_insert_with", "or_default"):
                return Ref(0, [], frame="root")
            return TOP
        if k.startswith("mahf::state::registry::entry::Entry::or_") and isinstance(a0, Sym) and a0.tag.startswith("entry:"):
            # the vacant case: what would be inserted
            if nm == "or_insert":
                v = load(interp, env, args[1])
            elif nm == "or_insert_with":
                outs = interp.call_value(args[1], [])
                v = outs[0][0] if outs and len(outs) == 1 and outs[0][2] == "return" else TOP
            else:
                v = Sym("default")
            seen.append((a0.tag[6:], leaves(interp.mstate, v) if nm != "or_default" else []))
            return Ref(0, [], frame="root")
        return TOP
    inl = lambda k: (k.startswith("mahf::") or k.startswith("<mahf::")) and not k.startswith("mahf::state::registry::") and not k.startswith("mahf::state::State::")
    it = install(Interp(fn.body, chain(oracle, coll_oracle, std_oracle), [me, Sym("problem"), Sym("state")], facts=F, inline=inl, max_visits=6))
    it.init_state = {"heap": {}, "next_vec": 0}
    return fn, it.run(), seen


def _expand(exp):
    return [Sym("field:" + x[1]) if isinstance(x, tuple) else x for x in exp[1]]


def _describe(exp):
    import collections
    c = collections.Counter("the configured `%s`" % x[1] if isinstance(x, tuple) else repr(x) for x in exp[1])
    return ", ".join("%s x %s" % (n, k) if n > 1 else k for k, n in c.items())


def check_for(ctx, prop):
    F = ctx.facts
    n = 0
    for adt, trait, spec in SPEC.get(prop, []):
        fn, paths, seen = evaluate_init(F, adt, trait)
        own = adt + "<" + ", ".join(p["name"] for p in (F.fn(fn.key).generics or {}).get("params", []) if p.get("kind") != "lifetime" and p["name"] in ("I",)) + ">"
        gen_own = fn.impl_self_ty or adt
        want = {}
        for ty, exp in spec.items():
            want[ty.replace("Self", gen_own)] = exp
        good = len(paths) == 1 and paths[0].end == "return" and isinstance(paths[0].ret, Agg) and paths[0].ret.variant == "Ok"
        why = "" if good else "init does not return Ok on a single path (%s)" % [p.end for p in paths]
        got = {}
        for ty, lv in seen:
            got.setdefault(ty, []).append(lv)
        if good and set(got) != set(want):
            good = False
            why = "inserts %s, expected %s" % (sorted(map(str, got)), sorted(want))
        if good:
            for ty, exp in want.items():
                vals = got[ty]
                if len(vals) != 1:
                    good, why = False, "inserts %s %d times" % (ty, len(vals))
                    break
                lv = vals[0]
                if exp[0] == "multiset":
                    okv = sorted(map(str, lv)) == sorted(map(str, _expand(exp)))
                    desc = "exactly the values %s" % _describe(exp)
                elif exp[0] == "field":
                    okv = lv == [Sym("field:" + exp[1])]
                    desc = "built from exactly the configured `%s`" % exp[1]
                elif exp[0] == "const":
                    okv = lv == [exp[1]]
                    desc = "the constant %r" % (exp[1],)
                else:
                    okv = lv == []
                    desc = "empty / default"
                if not okv:
                    good, why = False, "inserts %s holding %s, expected %s" % (ty, [str(x) for x in lv], desc)
                    break
        n += 1
        ctx.check(good, prop + ".INIT", fn.key, "init-installs-configured-state", why or "ok", detail=str(sorted(got)), loc=fn.loc())
        # initialising again on a USED state resets every listed state to its configured / empty value (a second run starts like
        # the first), except state the component documents as kept
        fn2, paths2, seen2 = evaluate_init(F, adt, trait, present=True)
        good2 = len(paths2) == 1 and paths2[0].end == "return" and isinstance(paths2[0].ret, Agg) and paths2[0].ret.variant == "Ok"
        why2 = "" if good2 else "init on a used state does not return Ok on a single path (%s)" % [p.end for p in paths2]
        if good2:
            got2 = {}
            for ty, lv in seen2:
                got2.setdefault(ty, []).append(lv)
            for ty, exp in want.items():
                if (adt, ty) in KEEPS:
                    continue
                lvs = got2.get(ty, [])
                exp_l = [Sym("field:" + exp[1])] if exp[0] == "field" else [exp[1]] if exp[0] == "const" else _expand(exp) if exp[0] == "multiset" else []
                if [sorted(map(str, l)) for l in lvs] != [sorted(map(str, exp_l))]:
                    good2, why2 = False, "on a state that already holds %s (left by an earlier run / initialisation) init %s; expected it to be reset to %s" % (
                        ty, "leaves it as it is" if not lvs else "stores %s" % [[str(x) for x in l] for l in lvs], "the configured `%s`" % exp[1] if exp[0] == "field" else _describe(exp) if exp[0] == "multiset" else "its initial value")
                    break
        ctx.check(good2, prop + ".INIT", fn.key, "init-resets-used-state", why2 or "ok", loc=fn.loc())
    ctx.count("init_specs", n)
    ctx.floor(prop + ".INIT", "init specifications", n, len(SPEC.get(prop, [])))


# ------------------------------------------------------------------ require(): the documented requirements are checked and reported
REQ_SPEC = {
    # property -> [(impl self ADT, trait, [state types execute needs from elsewhere (own identifier where generic)])]
    "C07": [("mahf::components::archive::ElitistArchiveIntoPopulation", "mahf::components::Component", ["mahf::components::archive::ElitistArchive<P>"])],
    "C18": [("mahf::components::swarm::pso::ParticleVelocitiesUpdate", "mahf::components::Component",
             ["mahf::components::swarm::pso::BestParticles<P, I>", "mahf::components::swarm::pso::BestParticle<P, I>"])],
    "C19": [("mahf::components::generative::AsPheromoneUpdate", "mahf::components::Component", ["mahf::components::generative::PheromoneMatrix"]),
            ("mahf::components::generative::MinMaxPheromoneUpdate", "mahf::components::Component", ["mahf::components::generative::PheromoneMatrix"])],
    "C20": [("mahf::components::misc::cro::" + n, "mahf::components::Component", ["mahf::components::misc::cro::ChemicalReaction<P>", "mahf::components::misc::cro::EnergyBuffer"])
            for n in ("OnWallIneffectiveCollisionUpdate", "DecompositionUpdate", "IntermolecularIneffectiveCollisionUpdate", "SynthesisUpdate")],
}


def check_requires(ctx, prop):
    """K6: require() of the listed components over every presence pattern of the state types the component's execute
    takes from elsewhere: Ok iff all are present (a missing one is reported, never dropped); other requirements it may state
    are taken as met."""
    import itertools
    from absint import err
    F = ctx.facts
    n = 0
    for adt, trait, needs in REQ_SPEC.get(prop, []):
        fn = F.method(adt, "require", trait)
        for present in itertools.product((True, False), repeat=len(needs)):
            have = dict(zip(needs, present))
            asked = []

            def oracle(interp, env, f, args, t, bb, path):
                if f.get("key") == "mahf::state::require::StateReq::require":
                    ty = (f.get("cgargs") or f.get("gargs") or [None])[-1]
                    asked.append(ty)
                    return ok(Agg("tuple", None, None, [])) if have.get(ty, True) else err(Sym("missing:%s" % ty))
                return TOP
            it = install(Interp(fn.body, chain(oracle, coll_oracle, std_oracle), [Sym("self"), Sym("problem"), Sym("state_req")], facts=F, max_visits=6))
            outs = sorted({(p.end, p.ret.variant if isinstance(p.ret, Agg) else None) for p in it.run()}, key=str)
            want = [("return", "Ok" if all(present) else "Err")]
            n += 1
            missing = [t_ for t_, p_ in have.items() if not p_]
            ctx.check(outs == want, prop + ".REQ", fn.key, "requirements-checked:" + ("all-present" if not missing else "missing:" + ",".join(m.split("::")[-1] for m in missing)),
                      "with %s missing (it asks for %s): require() yields %s, expected %s" % (missing or "nothing", sorted(set(map(str, asked))), outs, want), loc=fn.loc())
    ctx.count("require_scenarios", n)


# ------------------------------------------------------------------ execute() of the operators = the operator trait's driver
DRIVERS = {
    "mahf::components::selection::Selection": "mahf::components::selection::selection",
    "mahf::components::replacement::Replacement": "mahf::components::replacement::replacement",
    "mahf::components::recombination::Recombination": "mahf::components::recombination::recombination",
    "mahf::components::initialization::Initialization": "mahf::components::initialization::initialization",
    "mahf::components::boundary::BoundaryConstraint": "mahf::components::boundary::boundary_constraint",
    "mahf::components::mutation::Mutation": "mahf::components::mutation::mutation",
}
DELEGATION_PROPS = {"C11": ["mahf::components::selection::Selection"], "C12": ["mahf::components::replacement::Replacement"],
                    "C13": ["mahf::components::recombination::Recombination", "mahf::components::mutation::Mutation"],
                    "C14": ["mahf::components::initialization::Initialization", "mahf::components::boundary::BoundaryConstraint"]}


def check_delegations(ctx, prop, floor):
    """K6: the rules of this property decide the operator driver and every operator's trait method; what a template runs is
    the operator's `Component::execute`.  For every type implementing the operator trait: execute(self, problem, state) calls
    the trait's driver exactly once, with exactly (self, problem, state), and returns its result."""
    F = ctx.facts
    n = 0
    for trait in DELEGATION_PROPS.get(prop, []):
        driver = DRIVERS[trait]
        adts = sorted({fn.impl_self_adt for fn in F.all_fns if fn.impl_trait == trait and fn.impl_self_adt})
        for adt in adts:
            ex = F.fn_opt("<%s as mahf::components::Component>::execute" % adt)
            if ex is None:
                continue
            seen = []

            def oracle(interp, env, f, args, t, bb, path):
                if f.get("key") == driver:
                    seen.append(tuple(getattr(load(interp, env, a), "tag", "?") for a in args))
                    return Sym("driver-result")
                return TOP
            it = install(Interp(ex.body, chain(oracle, coll_oracle, std_oracle), [Sym("self"), Sym("problem"), Sym("state")], facts=F, max_visits=6))
            ps = it.run()
            n += 1
            good = len(ps) == 1 and ps[0].end == "return" and ps[0].ret == Sym("driver-result") and seen == [("self", "problem", "state")]
            ctx.check(good, prop + ".DRV", ex.key, "executes-through-the-driver",
                      "execute() calls %s with %s and returns %s; expected exactly one call with (self, problem, state), its result returned"
                      % (driver.split("::")[-1], seen, [str(p.ret) if p.end == "return" else p.end for p in ps]), loc=ex.loc())
    ctx.count("operator_executes", n)
    ctx.floor(prop + ".DRV", "operators executing through their driver", n, floor)
