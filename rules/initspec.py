"""Shared K6 rule: what a component's / condition's init() puts into the state.

init() is evaluated on the MIR with every field of `self` a distinct symbol; the registry's insert (and the entry API's
or_insert*) record the INSTANTIATED type and the value.  The specification is an explicit table, confirmed by reading the
component's documentation (which parameter is the rate, the strength, the start temperature, ...): per implementing type the
state types init must insert - under the component's OWN instantiation where the type mentions the component - and what the
inserted value must be built from: ("field", name) = exactly that configured field, ("const", v), ("empty",) = an empty /
default value.  One line of reason per entry."""
from absint import Interp, Sym, Agg, Ref, HRef, TOP, NONE, ok, std_oracle, chain
from collmodel import coll_oracle, install, load, Vec, heap_get

M = "mahf::components::mutation::"
SPEC = {
    # property -> [(impl self ADT, trait, {state type (with `Self`): expected})]
    "C13": [
        (M + "common::NormalMutation", "mahf::components::Component", {M + "MutationStrength<Self>": ("field", "std_dev"), M + "MutationRate<Self>": ("field", "rm")}),   # docs: std_dev = standard deviation, rm = mutation rate
        (M + "common::UniformMutation", "mahf::components::Component", {M + "MutationStrength<Self>": ("field", "bound"), M + "MutationRate<Self>": ("field", "rm")}),
        (M + "common::BitFlipMutation", "mahf::components::Component", {M + "MutationRate<Self>": ("field", "rm")}),
        (M + "common::PartialRandomSpread", "mahf::components::Component", {M + "MutationRate<Self>": ("field", "rm")}),
        (M + "common::ScrambleMutation", "mahf::components::Component", {M + "MutationRate<Self>": ("field", "rm")}),
        (M + "common::PartialRandomBitstring", "mahf::components::Component", {M + "MutationRate<Self>": ("field", "rm")}),
    ],
    # the evaluation counter of a run (or of a scope) starts at zero - also when an earlier run left a count behind
    "C06": [("mahf::components::evaluation::PopulationEvaluator", "mahf::components::Component", {"mahf::state::common::Evaluations": ("const", 0)})],
    "C17": [("mahf::components::replacement::sa::ExponentialAnnealingAcceptance", "mahf::components::Component", {"mahf::components::replacement::sa::Temperature": ("field", "t_0")})],
    "C18": [
        ("mahf::components::swarm::pso::ParticleVelocitiesUpdate", "mahf::components::Component", {"mahf::components::swarm::pso::InertiaWeight<Self>": ("field", "weight")}),
        ("mahf::components::swarm::pso::ParticleVelocitiesInit", "mahf::components::Component", {"mahf::components::swarm::pso::ParticleVelocities<I>": ("empty",)}),
        ("mahf::components::swarm::pso::PersonalBestParticlesInit", "mahf::components::Component", {"mahf::components::swarm::pso::BestParticles<P, I>": ("empty",)}),
        ("mahf::components::swarm::pso::GlobalBestParticleUpdate", "mahf::components::Component", {"mahf::components::swarm::pso::BestParticle<P, I>": ("empty",)}),
    ],
    "C20": [("mahf::components::misc::cro::ChemicalReactionInit", "mahf::components::Component",
             {"mahf::components::misc::cro::ChemicalReaction<P>": ("empty",), "mahf::components::misc::cro::EnergyBuffer": ("field", "buffer")})],
    "C07": [
        ("mahf::components::archive::ElitistArchiveUpdate", "mahf::components::Component", {"mahf::components::archive::ElitistArchive<P>": ("empty",)}),
        ("mahf::components::evaluation::BestIndividualUpdate", "mahf::components::Component", {"mahf::state::common::BestIndividual<P>": ("empty",)}),
    ],
    # a fresh matrix of the problem's dimension (3 in the scenario) with every trail the configured default
    "C19": [("mahf::components::generative::AcoGeneration", "mahf::components::Component",
             {"mahf::components::generative::PheromoneMatrix": ("multiset", [3] + [("field", "default_pheromones")] * 9)})],
    "C10": [
        ("mahf::conditions::common::LessThanN", "mahf::conditions::Condition", {"mahf::state::common::Progress<L>": ("const", 0.0)}),
        ("mahf::conditions::common::ChangeOf", "mahf::conditions::Condition", {"mahf::conditions::common::Previous<<L as lens::AnyLens>::Target>": ("empty",)}),
    ],
}


def leaves(interp_state, v, depth=0):
    """the non-marker leaf values of an inserted value"""
    if depth > 6:
        return [v]
    if isinstance(v, Agg):
        if v.name == "core::marker::PhantomData" or (v.kind == "tuple" and not v.fields):
            return []
        if v.name == "core::option::Option" and v.variant == "None":
            return []
        out = []
        for x in v.fields:
            out.extend(leaves(interp_state, x, depth + 1))
        return out
    if isinstance(v, Vec):
        out = []
        for x in interp_state.get("heap", {}).get(v.vid, ()):
            out.extend(leaves(interp_state, x, depth + 1))
        return out
    if v is TOP:
        return ["?"]
    return [v]


# state a component deliberately KEEPS when it is already there (documented: shared between instances / phases)
KEEPS = {("mahf::components::swarm::pso::GlobalBestParticleUpdate", "mahf::components::swarm::pso::BestParticle<P, I>")}


def evaluate_init(F, adt, trait, scenario="fresh"):
    """init() evaluated over the typed store of statemodel (a chain of two scopes).  scenario: "fresh" - nothing is held
    yet; "used" - the scope init runs in already holds every state type init touches (a configuration run again on the
    state of an earlier run, a component initialised a second time); "enclosing" - only the ENCLOSING scope holds them
    (the component sits inside a Scope whose surroundings use the same state types)."""
    import statemodel
    fn = F.method(adt, "init", trait)
    a = F.adt(adt)
    fields = {x["name"]: x["i"] for x in a["variants"][0]["fields"]}
    me = Sym("self", {i: Sym("field:" + n) for n, i in fields.items()})
    store = None

    def auto(ty):
        if scenario == "fresh":
            return {}
        return {0 if scenario == "used" else 1: statemodel.shaped(F, ty, "old:" + ty.split("<")[0].split("::")[-1], store.heap)}
    store = statemodel.Store(F, levels=2, auto=auto)

    def oracle(interp, env, f, args, t, bb, path):
        if f.get("key", "") == "mahf::problems::VectorProblem::dimension":
            return 3
        return TOP
    inl = lambda k: statemodel.inline(k) or ((k.startswith("mahf::") or k.startswith("<mahf::")) and not k.startswith("mahf::state::registry::") and not k.startswith("<mahf::state::registry::") and not k.startswith("mahf::state::State::"))
    it = install(Interp(fn.body, chain(oracle, store, coll_oracle, std_oracle), [me, Sym("problem"), Sym("state")], facts=F, inline=inl, max_visits=6))
    it.init_state = {"heap": {}, "next_vec": 0}
    store.install(it)
    return fn, it.run(), store


def _expand(exp):
    if exp[0] == "field":
        return [Sym("field:" + exp[1])]
    if exp[0] == "const":
        return [exp[1]]
    if exp[0] == "multiset":
        return [Sym("field:" + x[1]) if isinstance(x, tuple) else x for x in exp[1]]
    return []


def _describe(exp):
    import collections
    if exp[0] == "field":
        return "built from exactly the configured `%s`" % exp[1]
    if exp[0] == "const":
        return "the constant %r" % (exp[1],)
    if exp[0] == "multiset":
        c = collections.Counter("the configured `%s`" % x[1] if isinstance(x, tuple) else repr(x) for x in exp[1])
        return "exactly the values " + ", ".join("%s x %s" % (n, k) if n > 1 else k for k, n in c.items())
    return "empty / default"


def _same(lv, exp):
    return sorted(map(str, lv)) == sorted(map(str, _expand(exp)))


def check_for(ctx, prop):
    import statemodel
    F = ctx.facts
    n = 0
    for adt, trait, spec in SPEC.get(prop, []):
        fn0 = F.method(adt, "init", trait)
        gen_own = fn0.impl_self_ty or adt
        want = {ty.replace("Self", gen_own): exp for ty, exp in spec.items()}
        for scenario, item in (("fresh", "init-installs-configured-state"), ("used", "init-resets-used-state"), ("enclosing", "init-shadows-enclosing-state")):
            fn, paths, store = evaluate_init(F, adt, trait, scenario)
            good = len(paths) == 1 and paths[0].end == "return" and isinstance(paths[0].ret, Agg) and paths[0].ret.variant == "Ok"
            where = {"fresh": "on a state that holds none of its state yet", "used": "on a state whose current scope already holds its state (left by an earlier run / initialisation)",
                     "enclosing": "inside a scope whose ENCLOSING scope holds state of the same types"}[scenario]
            why = "" if good else "%s init does not return Ok on a single path (%s)" % (where, [p.end for p in paths])
            detail = ""
            if good:
                p = paths[0]
                held = {ty: store.holders(p, ty) for ty in store.types()}
                detail = str(sorted((ty.split("::")[-1], ls) for ty, ls in held.items()))
                if scenario == "fresh":
                    got = sorted(ty for ty, ls in held.items() if ls)
                    if got != sorted(want):
                        good, why = False, "%s init leaves %s in the state, expected %s" % (where, got, sorted(want))
                for ty, exp in want.items():
                    if not good:
                        break
                    if (adt, ty) in KEEPS and scenario != "fresh":
                        continue
                    ls = held.get(ty, [])
                    want_levels = [0] if scenario != "enclosing" else [0, 1]
                    if ls != want_levels:
                        good, why = False, "%s init leaves %s held by scope level(s) %s (0 = the scope init runs in, 1 = the enclosing one); expected %s%s" % (
                            where, ty, ls, want_levels, " - a value of its own that shadows the enclosing one" if scenario == "enclosing" else "")
                        break
                    lv = leaves(p.mstate, store.value(p, ty, 0))
                    if not _same(lv, exp):
                        good, why = False, "%s init leaves %s holding %s, expected %s%s" % (
                            where, ty, [str(x) for x in lv], _describe(exp), "" if scenario == "fresh" else " (the state is reset: a second run starts like the first)")
                        break
                    if scenario == "enclosing":
                        outer = leaves(p.mstate, store.value(p, ty, 1))
                        orig = leaves({"heap": store.heap}, store.init[store.homes[(ty, 1)]])
                        if sorted(map(str, outer)) != sorted(map(str, orig)):
                            good, why = False, "%s init changes the ENCLOSING scope's %s to %s; a component inside a scope must not touch the state of its surroundings" % (where, ty, [str(x) for x in outer])
                            break
            n += 1
            ctx.check(good, prop + ".INIT", fn.key, item, why or "ok", detail=detail, loc=fn.loc())
    ctx.count("init_scenarios", n)
    ctx.floor(prop + ".INIT", "init scenarios", n, 3 * len(SPEC.get(prop, [])))


# ------------------------------------------------------------------ require(): the documented requirements are checked and reported
REQ_SPEC = {
    # property -> [(impl self ADT, trait, [state types execute needs from elsewhere (own identifier where generic)])]
    "C07": [("mahf::components::archive::ElitistArchiveIntoPopulation", "mahf::components::Component", ["mahf::components::archive::ElitistArchive<P>"])],
    "C18": [("mahf::components::swarm::pso::ParticleVelocitiesUpdate", "mahf::components::Component",
             ["mahf::components::swarm::pso::BestParticles<P, I>", "mahf::components::swarm::pso::BestParticle<P, I>"])],
    "C19": [("mahf::components::generative::AsPheromoneUpdate", "mahf::components::Component", ["mahf::components::generative::PheromoneMatrix"]),
            ("mahf::components::generative::MinMaxPheromoneUpdate", "mahf::components::Component", ["mahf::components::generative::PheromoneMatrix"])],
    "C20": [("mahf::components::misc::cro::" + n, "mahf::components::Component", ["mahf::components::misc::cro::ChemicalReaction<P>", "mahf::components::misc::cro::EnergyBuffer"])
            for n in ("OnWallIneffectiveCollisionUpdate", "DecompositionUpdate", "IntermolecularIneffectiveCollisionUpdate", "SynthesisUpdate")],
}


def check_requires(ctx, prop):
    """K6: require() of the listed components over every presence pattern of the state types the component's execute
    takes from elsewhere: Ok iff all are present (a missing one is reported, never dropped); other requirements it may state
    are taken as met."""
    import itertools
    from absint import err
    F = ctx.facts
    n = 0
    for adt, trait, needs in REQ_SPEC.get(prop, []):
        fn = F.method(adt, "require", trait)
        for present in itertools.product((True, False), repeat=len(needs)):
            have = dict(zip(needs, present))
            asked = []

            def oracle(interp, env, f, args, t, bb, path):
                if f.get("key") == "mahf::state::require::StateReq::require":
                    ty = (f.get("cgargs") or f.get("gargs") or [None])[-1]
                    asked.append(ty)
                    return ok(Agg("tuple", None, None, [])) if have.get(ty, True) else err(Sym("missing:%s" % ty))
                return TOP
            it = install(Interp(fn.body, chain(oracle, coll_oracle, std_oracle), [Sym("self"), Sym("problem"), Sym("state_req")], facts=F, max_visits=6))
            outs = sorted({(p.end, p.ret.variant if isinstance(p.ret, Agg) else None) for p in it.run()}, key=str)
            want = [("return", "Ok" if all(present) else "Err")]
            n += 1
            missing = [t_ for t_, p_ in have.items() if not p_]
            ctx.check(outs == want, prop + ".REQ", fn.key, "requirements-checked:" + ("all-present" if not missing else "missing:" + ",".join(m.split("::")[-1] for m in missing)),
                      "with %s missing (it asks for %s): require() yields %s, expected %s" % (missing or "nothing", sorted(set(map(str, asked))), outs, want), loc=fn.loc())
    ctx.count("require_scenarios", n)


# ------------------------------------------------------------------ execute() of the operators = the operator trait's driver
DRIVERS = {
    "mahf::components::selection::Selection": "mahf::components::selection::selection",
    "mahf::components::replacement::Replacement": "mahf::components::replacement::replacement",
    "mahf::components::recombination::Recombination": "mahf::components::recombination::recombination",
    "mahf::components::initialization::Initialization": "mahf::components::initialization::initialization",
    "mahf::components::boundary::BoundaryConstraint": "mahf::components::boundary::boundary_constraint",
    "mahf::components::mutation::Mutation": "mahf::components::mutation::mutation",
}
# the rule that decides each driver; it is also evaluated on an operator's execute() that inlines the driver instead of calling it
DRIVER_RULES = {
    "mahf::components::selection::Selection": ("c11", "r2_driver"),
    "mahf::components::replacement::Replacement": ("c12", "r1_driver"),
    "mahf::components::recombination::Recombination": ("c13", "r5_recombination_driver"),
    "mahf::components::boundary::BoundaryConstraint": ("c14", "r3_driver"),
    "mahf::components::initialization::Initialization": ("c14", "r4_initialization"),
}
DELEGATION_PROPS = {"C11": ["mahf::components::selection::Selection"], "C12": ["mahf::components::replacement::Replacement"],
                    "C13": ["mahf::components::recombination::Recombination", "mahf::components::mutation::Mutation"],
                    "C14": ["mahf::components::initialization::Initialization", "mahf::components::boundary::BoundaryConstraint"]}


def check_delegations(ctx, prop, floor):
    """K6: the rules of this property decide the operator driver and every operator's trait method; what a template runs is
    the operator's `Component::execute`.  For every type implementing the operator trait: execute(self, problem, state) calls
    the trait's driver exactly once, with exactly (self, problem, state), and returns its result."""
    F = ctx.facts
    n = 0
    for trait in DELEGATION_PROPS.get(prop, []):
        driver = DRIVERS[trait]
        adts = sorted({fn.impl_self_adt for fn in F.all_fns if fn.impl_trait == trait and fn.impl_self_adt})
        for adt in adts:
            ex = F.fn_opt("<%s as mahf::components::Component>::execute" % adt)
            if ex is None:
                continue
            seen = []

            def oracle(interp, env, f, args, t, bb, path):
                if f.get("key") == driver:
                    seen.append(tuple(getattr(load(interp, env, a), "tag", "?") for a in args))
                    return Sym("driver-result")
                return TOP
            it = install(Interp(ex.body, chain(oracle, coll_oracle, std_oracle), [Sym("self"), Sym("problem"), Sym("state")], facts=F, max_visits=6))
            ps = it.run()
            n += 1
            good = len(ps) == 1 and ps[0].end == "return" and ps[0].ret == Sym("driver-result") and seen == [("self", "problem", "state")]
            if not good and not seen and trait in DRIVER_RULES:
                # the operator does not call the shared driver: its execute() must then BEHAVE like the driver - the driver's own rule
                # (scenarios on the real population stack, the operator's trait method answered by the scenario) is evaluated on it
                mod_, fname_ = DRIVER_RULES[trait]
                getattr(__import__(mod_), fname_)(ctx, fn=ex, rule=prop + ".DRV")
                continue
            ctx.check(good, prop + ".DRV", ex.key, "executes-through-the-driver",
                      "execute() calls %s with %s and returns %s; expected exactly one call with (self, problem, state), its result returned"
                      % (driver.split("::")[-1], seen, [str(p.ret) if p.end == "return" else p.end for p in ps]), loc=ex.loc())
    ctx.count("operator_executes", n)
    ctx.floor(prop + ".DRV", "operators executing through their driver", n, floor)
